#!/bin/sh
# Run the owning quick check against every property-preserving change under /verif/benign (scratch worktrees): expect exit 0.
for d in /verif/benign/C??-b?; do
  pid=$(basename $d | cut -d- -f1)
  /venv/bin/python /verif/tools/seed_run_wt.py $d $pid 2>&1 | grep -E "exit|apply" | cut -c1-200
done
