#!/bin/sh
# Run every quick check under several seeds (evidence and replays go to scratch directories): a check must not alarm on the
# unchanged tree whatever the seed.  Usage: tools/run_seeds.sh "1 2 3" [tier]
seeds=${1:-"1 2 3"}; tier=${2:-quick}
cd /verif; mkdir -p out/logs
for s in $seeds; do
  for p in C01 C02 C03 C04 C05 C06 C07 C08 C09 C10 C11 C12 C13 C14 C15 C16 C17 C18 C19 C20; do
    t0=$(date +%s)
    VERIF_SEED=$s VERIF_EVIDENCE_DIR=/dev/shm/ev_seed$s VERIF_OUT_DIR=/verif/out/seed$s ./check $p --tier $tier > out/logs/$p.$tier.seed$s.log 2>&1
    rc=$?
    echo "seed=$s $p rc=$rc $(( $(date +%s)-t0 ))s $(grep -c '^VIOLATION' out/logs/$p.$tier.seed$s.log) violations; $(tail -1 out/logs/$p.$tier.seed$s.log | cut -c1-150)"
  done
done
