"""Debug helper: run one C01 case and print bytes / re-encoded bytes as trees."""
import json, sys
sys.path.insert(0, "/verif")
from harness import schemabind as B, schemagen as G
from harness.checks import c01
import random

def tree(b, ind=0):
    for tag, typ, val in c01.parse_items(b, 0, len(b)):
        name = B.T(tag).name if tag in [t.value for t in B.T] else hex(tag)
        if typ == 1:
            print(" " * ind + name)
            tree(b"".join(c01.ser(c) for c in val), ind + 2)
        else:
            print(" " * ind + "%s t%d %s" % (name, typ, val.hex()))

if __name__ == "__main__":
    d = json.load(open(sys.argv[1]))["replay"]
    B.export()
    rec, note = c01.run_value(d["id"], d["cls"], d["ver"], d["val"])
    print(note, {k: rec[k] for k in ("enc_ok", "dec_ok", "dec_typed", "re_ok", "eq", "err")} if rec else None)
    if rec and rec["enc_ok"]:
        tree(bytes(rec["bytes"]))
        if rec["bytes2"] != rec["bytes"]:
            print("--- re-encoded")
            tree(bytes(rec["bytes2"]))
