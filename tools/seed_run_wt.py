#!/usr/bin/env python3
"""Run registered checks against a seeded change without touching /repo: a scratch worktree of /repo's HEAD gets the
patch, the checks run with VERIF_REPO pointing at it (evidence goes to a scratch directory), the worktree is removed.
Usage: seed_run_wt.py <seeded dir> <property id> [<property id> ...]   (results merged into seeded/<id>/runs.json)"""
import json, os, subprocess, sys, time

def sh(cmd, **kw):
    return subprocess.run(cmd, shell=True, stdout=subprocess.PIPE, stderr=subprocess.STDOUT, **kw)

def main():
    d = os.path.abspath(sys.argv[1])
    pids = sys.argv[2:]
    tier = os.environ.get("VERIF_TIER", "quick")
    name = os.path.basename(d)
    wt = "/tmp/seedrun/%s" % name
    sh("git -C /repo worktree remove --force %s" % wt)
    os.makedirs("/tmp/seedrun", exist_ok=True)
    a = sh("git -C /repo worktree add -q --detach %s HEAD" % wt)
    if a.returncode != 0:
        print("cannot create worktree:", a.stdout.decode()[-300:]); return 2
    res = {}
    try:
        head = sh("git -C /repo rev-parse --short HEAD").stdout.decode().strip()
        status = {"head": head}
        demo = os.path.join(d, "demo.py") if os.path.exists(os.path.join(d, "demo.py")) else None
        a = sh("git -C %s apply %s/patch.diff" % (wt, d))
        if a.returncode != 0:
            # the lines around the change moved: a three-way merge against the blobs the patch was made from
            sh("git -C %s checkout -- . && git -C %s clean -fdq" % (wt, wt))
            a = sh("git -C %s apply --3way %s/patch.diff" % (wt, d))
            conflicts = sh("git -C %s diff --name-only --diff-filter=U" % wt).stdout.decode().strip()
            if a.returncode == 0 and not conflicts:
                status["rebased"] = "three-way merge onto %s" % head
                sh("git -C %s reset -q" % wt)
            else:
                a.returncode = 1
                sh("git -C %s reset -q --hard" % wt)
        if a.returncode != 0:
            # /repo has moved on (a repair touched the same lines): the change is kept for the record, but is stale
            status["state"] = "stale: the patch no longer applies to HEAD"
            json.dump(status, open(os.path.join(d, "status.json"), "w"), indent=1)
            print(name, "STALE does-not-apply", flush=True)
            return 0
        if demo and name.split("-")[1].startswith("m"):
            env = dict(os.environ, PYTHONPATH=wt, PYTHONDONTWRITEBYTECODE="1")
            try:
                r = sh("/venv/bin/python %s %s" % (demo, wt), env=env, cwd=wt, timeout=600)
                status["demo_patched_rc"] = r.returncode
            except subprocess.TimeoutExpired:
                status["demo_patched_rc"] = -9
            if status["demo_patched_rc"] == 0:
                # a later repair of /repo made the change harmless (e.g. the roll-back after a failed batch item discards
                # what the mutant left pending): its own demonstration no longer shows a violation
                status["state"] = "neutralised: with the current HEAD the demonstration no longer shows a violation"
                json.dump(status, open(os.path.join(d, "status.json"), "w"), indent=1)
                print(name, "NEUTRALISED demo-exits-0", flush=True)
                return 0
        status["state"] = "live"
        json.dump(status, open(os.path.join(d, "status.json"), "w"), indent=1)
        for pid in pids:
            t0 = time.time()
            env = dict(os.environ, VERIF_REPO=wt, VERIF_EVIDENCE_DIR="/dev/shm/ev_seed_%s" % name, VERIF_OUT_DIR="/dev/shm/out_seed_%s" % name)
            r = sh("cd %s && ./check %s --tier %s" % (os.environ.get("VERIF_SNAPSHOT", "/verif"), pid, tier), env=env)
            out = r.stdout.decode()
            viol = [l for l in out.splitlines() if l.startswith("VIOLATION")]
            sigs = [l.strip() for l in out.splitlines() if l.strip().startswith("violated:")][:6]
            res[pid] = {"exit": r.returncode, "violations": len(viol), "first": sigs, "wall_s": round(time.time() - t0, 1),
                        "tier": tier, "head": sh("git -C /repo rev-parse --short HEAD").stdout.decode().strip(), "mode": "worktree"}
            print(name, pid, "exit", r.returncode, "violations", len(viol), [s[:200] for s in sigs[:2]], flush=True)
            if r.returncode == 2:
                print(out[-1500:])
    finally:
        sh("git -C /repo worktree remove --force %s" % wt)
        sh("rm -rf /dev/shm/ev_seed_%s /dev/shm/out_seed_%s" % (name, name))
    p = os.path.join(d, "runs.json")
    old = json.load(open(p)) if os.path.exists(p) else {}
    old.update(res)
    json.dump(old, open(p, "w"), indent=1)
    return 0

if __name__ == "__main__":
    sys.exit(main())
