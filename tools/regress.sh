#!/bin/sh
# Regression over every seeded (must be caught: exit 1) and every property-preserving change (must pass: exit 0) with the
# owning quick check, in scratch worktrees.  Usage: tools/regress.sh [parallel jobs]   -> out/regress.log
P=${1:-3}
cd /verif; mkdir -p out
# the checks run from a snapshot of /verif taken now, so that work on the harness during the (long) run does not leak into it
SNAP=/dev/shm/verif_snap; rm -rf $SNAP; mkdir -p $SNAP
rsync -a --exclude .git --exclude out --exclude seeded --exclude benign --exclude evidence /verif/ $SNAP/
export VERIF_SNAPSHOT=$SNAP
( for d in seeded/C??-m*; do echo "$d $(basename $d | cut -d- -f1)"; done; for d in benign/C??-b?; do echo "$d $(basename $d | cut -d- -f1)"; done ) \
  | xargs -P $P -L 1 sh -c '/venv/bin/python /verif/tools/seed_run_wt.py /verif/$0 $1 2>&1 | grep -E " exit |STALE|NEUTRALISED" | cut -c1-160' > out/regress.log 2>&1
echo "seeded caught by owner: $(grep -c -E "^C..-m[0-9]+ C.. exit 1" out/regress.log) / $(ls -d seeded/C??-m* | wc -l)"
echo "seeded not caught by owner:"; grep -E "^C..-m[0-9]+ C.. exit [02]" out/regress.log
echo "seeded stale (patch no longer applies): $(grep -c -E "^C..-m[0-9]+ STALE" out/regress.log); neutralised by a later repair: $(grep -c -E "^C..-m[0-9]+ NEUTRALISED" out/regress.log)"
grep -E "^C..-m[0-9]+ (STALE|NEUTRALISED)" out/regress.log
echo "benign passing: $(grep -c -E "^C..-b[0-9] C.. exit 0" out/regress.log) / $(ls -d benign/C??-b? | wc -l)"
echo "benign alarming or failing:"; grep -E "^C..-b[0-9] C.. exit [12]" out/regress.log
rm -rf $SNAP
