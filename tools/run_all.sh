#!/bin/sh
# Run every registered check (tier $1, default quick) on /repo's working tree; one summary line per property.
tier=${1:-quick}
cd /verif
mkdir -p out/logs
for p in C01 C02 C03 C04 C05 C06 C07 C08 C09 C10 C11 C12 C13 C14 C15 C16 C17 C18 C19 C20; do
  t0=$(date +%s)
  ./check $p --tier $tier > out/logs/$p.$tier.log 2>&1
  rc=$?
  t1=$(date +%s)
  echo "$p rc=$rc $((t1-t0))s $(grep -c '^VIOLATION' out/logs/$p.$tier.log) violations; $(tail -1 out/logs/$p.$tier.log | cut -c1-160)"
done
