#!/usr/bin/env python3
"""Confirm candidate seeded changes independently, in a scratch worktree of /repo's HEAD:
the patch applies, the unedited unit suite still passes (only the two pre-existing ssl failures),
the demonstration exits 1 with the change and 0 without.  Usage: seed_verify.py <dir with patch.diff demo.py> ..."""
import json, os, subprocess, sys, shutil

WT = "/tmp/mutverify"


def sh(cmd, **kw):
    return subprocess.run(cmd, shell=True, stdout=subprocess.PIPE, stderr=subprocess.STDOUT, **kw)


def ensure_wt():
    if not os.path.isdir(WT):
        sh("git -C /repo worktree add -q --detach %s HEAD" % WT)
    sh("git -C %s checkout -q --detach $(git -C /repo rev-parse HEAD) && git -C %s checkout -- . && git -C %s clean -fdq" % (WT, WT, WT))


def main():
    ensure_wt()
    for d in sys.argv[1:]:
        out = {"dir": d, "head": sh("git -C /repo rev-parse --short HEAD").stdout.decode().strip()}
        patch = os.path.join(d, "patch.diff")
        demo = os.path.join(d, "demo.py")
        sh("git -C %s checkout -- ." % WT)
        env = dict(os.environ, PYTHONPATH=WT, PYTHONDONTWRITEBYTECODE="1")
        r = sh("/venv/bin/python %s %s" % (demo, WT), env=env, cwd=WT, timeout=900)
        out["demo_clean_rc"] = r.returncode
        a = sh("git -C %s apply %s" % (WT, patch))
        out["applies"] = a.returncode == 0
        if not out["applies"]:
            out["apply_err"] = a.stdout.decode()[-400:]
        else:
            r = sh("/venv/bin/python %s %s" % (demo, WT), env=env, cwd=WT, timeout=900)
            out["demo_patched_rc"] = r.returncode
            out["demo_patched_tail"] = r.stdout.decode()[-300:]
            t = sh("/venv/bin/python -m pytest kmip/tests/unit -q -p no:cacheprovider -n 6 2>&1 | tail -4", env=env, cwd=WT, timeout=1800)
            tail = t.stdout.decode()
            out["unit_tail"] = tail[-300:]
            out["unit_ok"] = ("3358 passed" in tail and "2 failed" in tail)
        sh("git -C %s checkout -- . && git -C %s clean -fdq" % (WT, WT))
        out["confirmed"] = bool(out.get("applies") and out.get("unit_ok") and out.get("demo_clean_rc") == 0
                                and out.get("demo_patched_rc") == 1)
        json.dump(out, open(os.path.join(d, "verify.json"), "w"), indent=1)
        print(d, "confirmed" if out["confirmed"] else "NOT CONFIRMED", {k: out.get(k) for k in ("applies", "unit_ok", "demo_clean_rc", "demo_patched_rc")}, flush=True)


if __name__ == "__main__":
    main()
