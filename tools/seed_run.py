#!/usr/bin/env python3
"""Run registered checks against a seeded change: apply it to /repo, run ./check, undo it.
Usage: seed_run.py <seeded dir> <property id> [<property id> ...]   (results appended to seeded/<id>/runs.json)"""
import json, os, subprocess, sys, time

def sh(cmd, **kw):
    return subprocess.run(cmd, shell=True, stdout=subprocess.PIPE, stderr=subprocess.STDOUT, **kw)

def main():
    d = os.path.abspath(sys.argv[1])
    pids = sys.argv[2:]
    tier = os.environ.get("VERIF_TIER", "quick")
    st = sh("git -C /repo status --porcelain").stdout.decode().strip()
    if st:
        print("refusing: /repo has uncommitted changes:\n" + st); return 2
    a = sh("git -C /repo apply %s/patch.diff" % d)
    if a.returncode != 0:
        print("patch does not apply:", a.stdout.decode()[-300:]); return 2
    res = {}
    try:
        for pid in pids:
            t0 = time.time()
            r = sh("cd /verif && ./check %s --tier %s" % (pid, tier))
            out = r.stdout.decode()
            viol = [l for l in out.splitlines() if l.startswith("VIOLATION")]
            sigs = [l.strip() for l in out.splitlines() if l.strip().startswith("violated:")][:6]
            res[pid] = {"exit": r.returncode, "violations": len(viol), "first": sigs, "wall_s": round(time.time() - t0, 1),
                        "tier": tier, "head": sh("git -C /repo rev-parse --short HEAD").stdout.decode().strip()}
            print(os.path.basename(d), pid, "exit", r.returncode, "violations", len(viol), sigs[:2], flush=True)
            if r.returncode == 2:
                print(out[-1500:])
    finally:
        sh("git -C /repo apply -R %s/patch.diff" % d)
        sh("git -C /repo checkout -- .")
        # evidence must describe the unchanged tree: the caller re-runs the checks afterwards
    p = os.path.join(d, "runs.json")
    old = json.load(open(p)) if os.path.exists(p) else {}
    old.update(res)
    json.dump(old, open(p, "w"), indent=1)
    st = sh("git -C /repo status --porcelain").stdout.decode().strip()
    if st:
        print("WARNING: /repo not clean after undo:\n" + st)
    return 0

if __name__ == "__main__":
    sys.exit(main())
