#!/usr/bin/env python3
"""One line per seeded change: confirmed?, and per check the last exit status (1 = caught)."""
import json, os, sys
root = "/verif/seeded"
for d in sorted(os.listdir(root)):
    p = os.path.join(root, d)
    v = json.load(open(os.path.join(p, "verify.json"))) if os.path.exists(os.path.join(p, "verify.json")) else {}
    r = json.load(open(os.path.join(p, "runs.json"))) if os.path.exists(os.path.join(p, "runs.json")) else {}
    own = d.split("-")[0]
    st = {k: x.get("exit") for k, x in r.items()}
    flag = "" if st.get(own) == 1 else "   <-- NOT CAUGHT BY OWNER" if v.get("confirmed") else "   (unconfirmed)"
    if len(sys.argv) > 1 and not flag:
        continue
    print(d, "confirmed" if v.get("confirmed") else "UNCONFIRMED", st, flag)
