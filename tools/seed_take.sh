#!/bin/sh
# seed_take.sh <candidate dir> <property id> [extra property ids]: install a candidate seeded change as seeded/<pid>-m<N>,
# confirm it independently (seed_verify) and run the owning check(s) against it in a scratch worktree (seed_run_wt).
cand=$1; pid=$2; shift 2
n=1; while [ -d /verif/seeded/$pid-m$n ]; do n=$((n+1)); done
dst=/verif/seeded/$pid-m$n
mkdir -p $dst && cp $cand/patch.diff $cand/demo.py $cand/meta.json $dst/ || exit 2
/venv/bin/python /verif/tools/seed_verify.py $dst
/venv/bin/python /verif/tools/seed_run_wt.py $dst $pid "$@"
