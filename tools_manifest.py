#!/usr/bin/env python3
"""Regenerates MANIFEST.json from the table below (single source of truth for the interface)."""
import json

CLAIMED = {
 "C01": ("model_checking", "6 C01, 0.6", "KmipSchema.tla (SchemaBase / Objects / Payloads1-4 / Messages): for every encodable class the fields, kinds, cardinalities, wire order and defining versions, and ObjTree(value, version) = the TTLV tree the specification prescribes (built on TTLV.tla). For every class x version the harness generates abstract values from the schema TLC exports (minimal, maximal, every optional field alone and alone absent, every boundary value of every primitive field: length residues mod 8, sign/width boundaries incl. 64-bit-aligned big integers, 0/False/empty, non-ASCII text; list lengths; random subsets; whole request/response messages), builds the library object the way a caller would, encodes, decodes with a fresh object, reads the decoded object's public attributes back, re-encodes; TraceSchema.tla decides every execution: encodable, decodable, tree(decoded) = tree(the caller's inputs), re-encoded bytes identical, library == agrees; TTLV-level mutations the decoder accepts: decode = decode o encode o decode. Bytes that differ from the prescribed tree while the round trip holds are reported as wire drift",
         "explicit TLA+ wire schema exported by TLC to drive value generation + TLC validation of every recorded encode/decode execution (trace validation at the value and byte level)"),
 "C02": ("model_checking", "6 C02", "TTLV.tla: independent definition of the wire format (encoder with two's complement on byte sequences + recursive-descent recogniser), lemmas checked by TLC on a bounded tree universe; KmipEnvelope.tla: response envelope grammar with tag numbers from the KMIP tag table; bound to the code by TLC validating bytes the implementation emits: primitive encodings at boundary values against Enc of the intended value, every encoded request and every response a real KmipSession sends over random histories in all versions (all error classes, undecodable frames, unauthenticated connections, size limits)",
         "explicit TLA+ byte-level specification + TLC validation of emitted byte strings (trace validation at the byte level)"),
 "C19": ("model_checking", "6 C19", "Client.tla: the decision table client operation x response class x delivery with the prescribed outcome, enumerated completely by TLC; every row executed on a real ProxyKmipClient (KMIP 1.2 and 2.0) over a scripted socket whose responses are built with the real encoder and delivered in the prescribed pieces; every client method (with and without identifier) called against a real in-process KmipSession+KmipEngine under all six versions: the server must decode what the client emits",
         "TLA+ exhaustive decision-table enumeration + one real client call per TLC row; client->server decodability sweep"),
 "C20": ("exploration", "6 C20", "canary histories (key material, secret data, credentials, plaintext, derivation inputs) against a real session+engine and a real client configured from a file: random requests of every operation in every version, a directed sweep of every cryptographic refusal path on usable keys, damaged frames, unauthenticated connections; every log record (formatted, incl. exception text) and result message searched for each canary in 10 encodings; the invariant and its positive control (canary visible at DEBUG) are stated in TraceC20.tla and evaluated by TLC on every record. TLA+ contributes the invariant and the history space; the taint decision itself is substring search in the harness",
         "canary taint search over recorded log/message traces; invariant + positive control evaluated by TLC (TraceC20.tla)"),
 "C03": ("model_checking", "4.2, 6 C03", "TLC: decision lemma ImplAllowed=>Granted over the full product + all MC_C03 histories; every model transition replayed on the real engine; random multi-client histories and a denied-vs-nonexistent differential probe, all validated against KmipEngine/KmipProps by TLC (TraceEngine)",
         "TLA+ model checking + spec->code edge replay + trace validation; differential denial probe"),
 "C04": ("model_checking", "6 C04", "TLC: all MC_C04 histories (lifecycle x masks x cryptographic uses) checked against C04 predicates; every model transition replayed on the real engine; random histories validated by TraceEngine.tla",
         "TLA+ model checking + spec->code edge replay + trace validation"),
 "C05": ("model_checking", "6 C05", "TraceC05.tla keeps an abstract store built from what the client SUPPLIED (never from the database) and checks every later Get / GetAttributes / GetAttributeList of recorded histories against it (type, value token, algorithm, length, format, type-specific field, wrapping data and split-key fields as canonical text, the full attribute list expected under the reading version from the attribute rule table); the histories come from a real ProxyKmipClient / KMIPProxy wired in-process to a real KmipSession + KmipEngine + SQLite file: random objects of all seven types, server-generated keys, reads under a random version per call, activations, engine restarts",
         "trace validation of client->wire->engine->SQLite->client histories against an explicit TLA+ store specification"),
 "C06": ("model_checking", "6 C06", "CryptoTerms.tla maps every parameter tuple of the menu (algorithm x mode x padding x IV x AAD x tag length; MAC algorithms; derivation method x hash x inputs; key-wrap modes) to a refusal or to the symbolic term the operation must compute; TLC enumerates the menu and checks Decrypt o Encrypt = id on terms; every row is executed through real Encrypt/Decrypt/MAC/DeriveKey/Get-with-wrapping requests with several key sizes and message lengths and the term is evaluated with reference implementations (hashlib/hmac, raw cipher primitives, RFC 4493/5869/3394/SP 800-108 code checked against published vectors) and compared byte for byte; GCM tamper tests, Sign/SignatureVerify with independent verification, generated keys length/freshness. TLA+ decides plumbing and refusals, the references decide arithmetic",
         "TLA+ term-algebra specification enumerated by TLC + one real request per row evaluated against reference implementations"),
 "C07": ("model_checking", "6 C07", "TLC: all MC_C07 histories (creating operations, Destroy, restarts) with ghost issued/dead sets, negative control AUTOINC=FALSE; every transition replayed with real restarts; random multi-client histories validated by TraceEngine.tla",
         "TLA+ model checking + spec->code edge replay + trace validation"),
 "C08": ("model_checking", "6 C08", "TLC: all batches of MC_C08 x options x id patterns; every transition replayed with per-item committed snapshots; random batches validated by TraceEngine.tla (shape, echo, stop/continue/undo, fail-clean, told)",
         "TLA+ model checking + spec->code edge replay + trace validation"),
 "C12": ("model_checking", "6 C12", "TLC: MC_C12 receive-loop model over all plans (frames x cut patterns x stream endings) with invariants one-response-per-frame / order / engine-entered-only-for-decoded; every plan executed on a real KmipSession whose transport delivers exactly those recv() pieces; grammar-aware mutation corpus in bad*-then-good sequences under several chunkings judged against the real decoder in isolation; every response validated against TTLV.tla + KmipEnvelope.tla by TLC; maximum-response-size sweep",
         "TLA+ model checking of the receive loop + one real session run per TLC plan + TLC byte-level validation of responses"),
 "C13": ("model_checking", "6 C13", "TLC: NoInternalError over the grid of MC_C13 (7 object types x lifecycle states x ~300-cell parameter menu x versions); one real execution per grid cell from the real object in that state; random well-typed requests in all versions; verdict = observed General Failure / internal-error log record, validated by TraceEngine.tla",
         "TLA+ model checking of the grid + one real execution per TLC-enumerated cell + trace validation"),
 "C14": ("model_checking", "6 C14", "TLC: MC_C14 stores x filter conjunctions x paging x requesters checked against the declarative LocateSet/order/page predicates; every Locate transition replayed; random stores of 10-20 objects with random filter conjunctions and paging validated by TraceEngine.tla",
         "TLA+ model checking + spec->code edge replay + trace validation"),
 "C15": ("model_checking", "6 C15", "TLC: MC_C15 sequences of Set/Modify/DeleteAttribute (1.x and 2.0 forms) x attribute names x indices x values x object types x owner/non-owner against C15_fixed/exact/fail; every transition replayed with full raw-table projections before/after; random interleavings validated by TraceEngine.tla",
         "TLA+ model checking + spec->code edge replay + trace validation"),
 "C16": ("model_checking", "6 C16", "TLC: MC_C16 matrix versions (6 supported + 4 unsupported) x operations x version-dependent attributes enumerated completely; one real request per cell; random histories over all versions; TraceEngine.tla clauses echo/refuse/op/avail/attrs/create/query/discover; every listed version and advertised operation is then used for real. Field-level version gating of the encodings is part of C01/C02 (not claimed here)",
         "TLA+ model checking of the version matrix + one real request per cell + trace validation"),
 "C17": ("model_checking", "6 C17", "TLC enumerates the full product certificate x EKU (incl. look-alike OIDs) x flag x plugin lists x request kinds; the modelled message loop (Session.tla SessionOutcome) is checked against the property's own definition of an established identity; EVERY enumerated row is executed on a real KmipSession with real DER certificates, scripted SLUGS and a real engine behind a spy, and judged by the same predicates (exhaustive within the menu)",
         "TLA+ exhaustive decision-table enumeration + one real session run per TLC row"),
 "C18": ("model_checking", "6 C18", "TLC: PolicyMonitor.tla (faithful transcription of scan_policies) with the ghost of successfully loaded contents; invariant C18 over all file-event sequences within the bounds (negative control DROP_STALE=FALSE violates it); every transition of a smaller graph executed on a real PolicyDirectoryMonitor over a real directory with controlled mtimes; random long event sequences validated by TraceC18.tla; PolicyDoc.tla enumerates the document grammar, every document fed to the real parser and a real scan",
         "TLA+ model checking + spec->code edge replay + trace validation; TLC-enumerated document grammar"),
 "C09": ("fault_enumeration", "6 C09", "Durability.tla (Begin/Write/Commit/Ack with Crash enabled everywhere; invariants acknowledged=>durable and all-or-nothing; negative control SPLIT_COMMIT) model-checked by TLC; on the real engine a forked child dies (os._exit) before every SQL write/BEGIN/COMMIT event and after the commit of every state-changing operation, a fresh engine then opens the surviving file and every table is dumped raw; each experiment is validated by TraceC09.tla; SIGKILL at random instants during a workload",
         "TLA+ model checking of the transaction discipline + exhaustive crash-point injection on the real engine validated by TLC"),
 "C10": ("model_checking", "6 C10", "Concurrency.tla (Enter/Acquire/SetVersion/SetIdentity/Exec/Release per session, shared identity and version fields, the lock) model-checked for 2x2, 3 and 4 sessions (negative control LOCKED=FALSE finds the identity mix-up); schedules forced on a real KmipEngine shared by real KmipSessions through a cooperative scheduler (yield points at every SQL statement, identity/version assignment, access decision, instrumented lock): serial orders, all plans with <= 2 pre-emptions on a grid, random plans; each recorded history is checked for linearizability against the sequential KmipEngine.tla by TLC (TraceLin.tla)",
         "TLA+ model checking of the interleavings + forced schedules on the real code + TLC linearizability check of recorded histories"),
 "C11": ("model_checking", "6 C11", "TLC: RunRequest reads only (store, request); clause C11_placeholder on MC_C08; every request of random multi-client multi-version histories is compared with a fresh engine on a copy of the database (differential) and validated by TraceEngine.tla",
         "TLA+ model checking + trace validation; used-vs-fresh engine differential"),
}
NOT_YET = {
}
NOTE = ("Trusted base: TLC 1.8; the projection harness/absmap.py (abstract<->KMIP objects, SQLite->abstract store via stdlib sqlite3); "
        "the logical clock patched into kmip.services.server.engine; requests travel through the real TTLV encoder and decoder. "
        "Bounds are stated in the evidence (tlc_runs, edge_graphs). VIOLATION only from property predicates on real executions; "
        "model mismatch is reported as DRIFT and never alarms.")

checks = []
for pid, (cat, ref, text, tech) in sorted(CLAIMED.items()):
    checks.append({
        "property_id": pid,
        "quick_cmd": "./check %s --tier quick" % pid,
        "thorough_cmd": "./check %s --tier thorough" % pid,
        "evidence_file": "evidence/%s.json" % pid,
        "replay_cmd_template": "./check %s --replay {path}" % pid,
        "engine": "tlc+harness",
        "level_claimed": {"category": cat, "text": text, "design_ref": "DESIGN.md section " + ref},
        "level_note": NOTE,
        "technique": tech,
    })
m = {
 "version": 1,
 "setup_cmd": "./setup.sh",
 "hooks": {"guard": "PYKMIP_VERIF", "enable": "no source hooks: every observation is made from outside the package (DESIGN 5.2)",
           "baseline_off_cmd": "cd /repo && env -u PYKMIP_VERIF /venv/bin/python -m pytest -ra -q -p no:cacheprovider --timeout=900 --continue-on-collection-errors",
           "source_commits": [], "add_only": True},
 "engines": [{"name": "tlc+harness", "path": "check", "serves_properties": sorted(CLAIMED),
              "kind_free_text": "TLA+ specifications in spec/ checked by TLC; Python conformance harness in harness/ replays TLC transitions into the real code and validates recorded executions against the specification"}],
 "checks": checks,
 "notes": "Model-based verification with explicit TLA+ specifications (spec/*.tla). See DESIGN.md. Genuine defects found are fixed in /repo by 'fix:' commits and recorded in KNOWN_FINDINGS.jsonl.",
 "not_applicable": [{"property_id": k, "reason": v} for k, v in sorted(NOT_YET.items())],
}
json.dump(m, open("MANIFEST.json", "w"), indent=1)
print("claimed", sorted(CLAIMED), "unclaimed", sorted(NOT_YET))
