"""Drive a real KmipSession over an in-memory connection."""
import datetime
import json
import os

from . import common

common.use_repo()

from cryptography import x509  # noqa
from cryptography.hazmat.primitives import hashes, serialization  # noqa
from cryptography.hazmat.primitives.asymmetric import ec  # noqa
from cryptography.x509.oid import NameOID, ExtendedKeyUsageOID  # noqa

from kmip.core import exceptions  # noqa
from kmip.services.server import session as session_mod  # noqa
from kmip.services.server.auth import slugs as slugs_mod  # noqa

_CERTS = {}


def make_cert(ncn, eku, cn="alice"):
    """DER certificate with ncn common names and an EKU extension 'absent' | 'other' | 'client' | explicit OID list."""
    key = (ncn, eku if isinstance(eku, str) else tuple(eku), cn)
    if key in _CERTS:
        return _CERTS[key]
    cache = os.path.join(common.VERIF, ".cache", "certs.json")
    store = {}
    if os.path.exists(cache):
        try:
            store = json.load(open(cache))
        except ValueError:
            store = {}
    sk = json.dumps(key)
    if sk in store:
        _CERTS[key] = bytes.fromhex(store[sk])
        return _CERTS[key]
    k = ec.generate_private_key(ec.SECP256R1())
    attrs = [x509.NameAttribute(NameOID.ORGANIZATION_NAME, "verif")]
    names = [cn, cn + "2"][:ncn]
    for n in names:
        attrs.append(x509.NameAttribute(NameOID.COMMON_NAME, n))
    subject = x509.Name(attrs)
    b = (x509.CertificateBuilder().subject_name(subject).issuer_name(subject).public_key(k.public_key())
         .serial_number(1000 + len(store)).not_valid_before(datetime.datetime(2020, 1, 1))
         .not_valid_after(datetime.datetime(2040, 1, 1)))
    if eku == "other":
        b = b.add_extension(x509.ExtendedKeyUsage([ExtendedKeyUsageOID.SERVER_AUTH]), critical=False)
    elif eku == "client":
        b = b.add_extension(x509.ExtendedKeyUsage([ExtendedKeyUsageOID.CLIENT_AUTH, ExtendedKeyUsageOID.SERVER_AUTH]), critical=False)
    elif eku != "absent":
        b = b.add_extension(x509.ExtendedKeyUsage([x509.ObjectIdentifier(o) for o in eku]), critical=False)
    der = b.sign(k, hashes.SHA256()).public_bytes(serialization.Encoding.DER)
    _CERTS[key] = der
    store[sk] = der.hex()
    os.makedirs(os.path.dirname(cache), exist_ok=True)
    tmp = cache + ".%d" % os.getpid()
    json.dump(store, open(tmp, "w"))
    os.replace(tmp, cache)
    return der


class FakeConn(object):
    """The TLS connection as the session sees it. `plan` is a list of chunk sizes the transport
    delivers (each recv returns at most the next chunk and at most what was asked for)."""

    def __init__(self, data=b"", cert=None, plan=None):
        self.data = bytes(data)
        self.pos = 0
        self.cert = cert
        self.plan = list(plan) if plan else None
        self.sent = []
        self.closed = False
        self.recv_calls = 0
        self.log = []                    # events in the order the session caused them (TraceSession.tla)

    def feed(self, more):
        self.data += bytes(more)

    def recv(self, n):
        self.recv_calls += 1
        if self.pos >= len(self.data):
            self.log.append({"e": "recv", "n": n, "k": 0})
            return b""
        k = n
        if self.plan:
            k = min(n, max(1, self.plan[0]))
            if self.plan[0] <= k:
                self.plan.pop(0)
            else:
                self.plan[0] -= k
        out = self.data[self.pos:self.pos + k]
        self.pos += len(out)
        self.log.append({"e": "recv", "n": n, "k": len(out)})
        return out

    def sendall(self, data):
        self.sent.append(bytes(data))
        self.log.append({"e": "send", "i": len(self.sent) - 1})

    def getpeercert(self, binary_form=False):
        self.log.append({"e": "cert"})
        return self.cert

    def cipher(self):
        return ("ECDHE-RSA-AES256-GCM-SHA384", "TLSv1.2", 256)

    def shared_ciphers(self):
        return None

    def do_handshake(self):
        pass

    def shutdown(self, how):
        pass

    def close(self):
        self.closed = True


class Slugs(object):
    """Scripted requests.get for SLUGS: behaviour per host name."""

    def __init__(self, behaviour, log=None):
        self.behaviour = behaviour      # host -> kind
        self.calls = []
        self.log = log

    def __call__(self, url, timeout=None, **kw):
        self.calls.append(url)
        host = url.split("/")[2]
        if self.log is not None:
            self.log.append({"e": "slugs", "host": host})
        kind = self.behaviour.get(host, "unreachable")
        is_groups = url.rstrip("/").endswith("/groups")

        class R(object):
            status_code = 200

            def json(self_inner):
                return {"groups": ["other" if kind == "okB" else "grp", int(host[5:])]}
        r = R()
        if kind == "unreachable":
            raise IOError("connection refused")
        if kind == "user404" and not is_groups:
            r.status_code = 404
        if kind == "groups404" and is_groups:
            r.status_code = 404
        if kind == "user500" and not is_groups:
            r.status_code = 500
        if kind == "all403":
            r.status_code = 403
        if kind == "badjson" and is_groups:
            def bad():
                raise ValueError("No JSON object could be decoded")
            r.json = bad
        return r


class EngineSpy(object):
    """Wraps a real engine: records what reaches process_request."""

    def __init__(self, engine, log=None):
        self.engine = engine
        self.calls = []
        self.log = log

    def process_request(self, request, credential=None):
        self.calls.append(credential)
        ev = None
        if self.log is not None:
            user, groups = (credential + (None, None))[:2] if isinstance(credential, tuple) else (credential, None)
            ev = {"e": "engine", "user": user if isinstance(user, str) else repr(user),
                  "groups": list(groups) if groups is not None else ["-nogroups-"], "out": "returned"}
            self.log.append(ev)
        try:
            return self.engine.process_request(request, credential)
        except exceptions.KmipError:
            if ev is not None:
                ev["out"] = "kmiperr"
            raise
        except Exception:
            if ev is not None:
                ev["out"] = "othererr"
            raise

    def __getattr__(self, name):
        return getattr(self.engine, name)


def run_session(engine, conn, tls_client_auth=True, auth_settings=None, slugs=None, via_run=False, max_loops=1000):
    """Run the message loop until the connection is exhausted. Returns the exceptions (other than
    the end-of-stream signal) that left _handle_message_loop."""
    s = session_mod.KmipSession(engine, conn, ("127.0.0.1", 5696), name="verif-session",
                                enable_tls_client_auth=tls_client_auth, auth_settings=auth_settings or [])
    s._logger.disabled = False
    old = slugs_mod.requests.get
    if slugs is not None:
        slugs_mod.requests.get = slugs
    escaped = []
    try:
        if via_run:
            s.run()
        else:
            for _ in range(max_loops):
                try:
                    s._handle_message_loop()
                except exceptions.ConnectionClosed:
                    break
                except Exception as e:
                    escaped.append("%s: %s" % (type(e).__name__, e))
    finally:
        slugs_mod.requests.get = old
    return escaped


class Connection(object):
    """One client connection served by one persistent KmipSession (state the session keeps between requests of a
    connection stays): exchange(frame) feeds one request frame and returns what the session sent for it."""

    def __init__(self, engine, cert, tls_client_auth=True, auth_settings=None):
        self.conn = FakeConn(b"", cert=cert)
        self.s = session_mod.KmipSession(engine, self.conn, ("127.0.0.1", 5696), name="verif-conn",
                                         enable_tls_client_auth=tls_client_auth, auth_settings=auth_settings or [])
        self.s._logger.disabled = False
        self.escaped = []

    def exchange(self, frame):
        n0 = len(self.conn.sent)
        self.conn.feed(frame)
        try:
            self.s._handle_message_loop()
        except exceptions.ConnectionClosed:
            pass
        except Exception as e:
            self.escaped.append("%s: %s" % (type(e).__name__, e))
        return self.conn.sent[n0:]


def bound_rsa():
    """A damaged CreateKeyPair may ask for an RSA key of a million bits, which the backend would happily start generating (for
    hours).  Environment bound of this check: the key generator refuses sizes above 8192 bits, as an overloaded backend would."""
    from kmip.services.server.crypto import engine as ce
    ce_rsa = ce.rsa
    if getattr(ce_rsa, "_verif_bound", False):
        return
    inner = ce_rsa.generate_private_key

    def generate_private_key(public_exponent, key_size, backend=None):
        if key_size > 8192:
            raise ValueError("key size %d beyond what this environment generates" % key_size)
        return inner(public_exponent=public_exponent, key_size=key_size, backend=backend)

    class _RSA(object):
        _verif_bound = True

        def __getattr__(self, name):
            return getattr(ce_rsa, name)
    proxy = _RSA()
    proxy.generate_private_key = generate_private_key
    ce.rsa = proxy
