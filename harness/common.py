"""Shared plumbing for every check: paths, scratch space, evidence, findings.

Exit codes: 0 = property held on everything explored (possibly with
KNOWN-FINDING / DRIFT lines), 1 = at least one VIOLATION line, 2 = machinery
failure (never used for a property violation).
"""
import atexit
import hashlib
import json
import os
import shutil
import sys
import time
import warnings

VERIF = os.path.dirname(os.path.dirname(os.path.abspath(__file__)))
REPO = os.environ.get("VERIF_REPO", "/repo")
SEED = int(os.environ.get("VERIF_SEED", "0") or 0)
SPEC = os.path.join(VERIF, "spec")
NCPU = min(16, os.cpu_count() or 4)

os.environ.setdefault("PYTHONHASHSEED", "0")
# the guard for source hooks (none exist; observation is external)
os.environ.setdefault("PYKMIP_VERIF", "1")

_scratch = None


class MachineryFailure(Exception):
    pass


def use_repo():
    """Make `import kmip` resolve to the tree under test (working tree, no cache)."""
    if REPO not in sys.path[:1]:
        sys.path.insert(0, REPO)
    sys.dont_write_bytecode = True
    warnings.filterwarnings("ignore")
    import kmip  # noqa
    got = os.path.dirname(os.path.dirname(os.path.abspath(kmip.__file__)))
    if os.path.realpath(got) != os.path.realpath(REPO):
        raise MachineryFailure("kmip resolved to %s, expected %s" % (got, REPO))
    import logging
    logging.getLogger("kmip").setLevel(logging.INFO)
    logging.getLogger("kmip").addHandler(logging.NullHandler())
    logging.lastResort = None
    return kmip


def scratch():
    global _scratch
    if _scratch is None:
        base = "/dev/shm" if os.path.isdir("/dev/shm") and os.access("/dev/shm", os.W_OK) \
            else os.environ.get("TMPDIR", "/tmp")
        _scratch = os.path.join(base, "verif.%d" % os.getpid())
        os.makedirs(_scratch, exist_ok=True)
        atexit.register(_cleanup, os.getpid())
    return _scratch


def _cleanup(owner):
    # forked children must not remove the parent's scratch directory
    if os.getpid() == owner and _scratch and os.path.isdir(_scratch):
        shutil.rmtree(_scratch, ignore_errors=True)


def jdump(obj):
    return json.dumps(obj, sort_keys=True, separators=(",", ":"), default=_default)


def _default(o):
    if isinstance(o, (set, frozenset)):
        return sorted(o)
    if isinstance(o, bytes):
        return o.hex()
    return repr(o)


def load_findings():
    path = os.path.join(VERIF, "KNOWN_FINDINGS.jsonl")
    out = []
    if os.path.exists(path):
        for line in open(path):
            line = line.strip()
            if line and not line.startswith("#"):
                out.append(json.loads(line))
    return out


def sig_matches(signature, sig):
    """A known-finding signature matches when every field it names has the same
    value in the violation's signature (so a different failure does not match)."""
    for k, v in signature.items():
        if k not in sig:
            return False
        if isinstance(v, list) and not isinstance(sig[k], list):
            if sig[k] not in v:
                return False
        elif sig[k] != v:
            return False
    return True


class Run(object):
    """Collects what one check run covered and decides its exit status."""

    def __init__(self, pid, tier, level="model_checking"):
        self.pid = pid
        self.tier = tier
        self.level = level
        self.t0 = time.time()
        self.states = 0
        self.transitions = 0
        self.traces = 0
        self.evaluations = 0
        self.distinct = set()
        self.samples = []
        self.violations = []       # (sig, replay path)
        self.known = {}            # finding text -> count
        self.drift = 0
        self.drift_samples = []
        self.drift_kinds = {}
        self.assumptions = []
        self.extra = {}
        self.rule = ""
        self.exhaustive = False
        self.tlc_runs = []
        self._findings = [f for f in load_findings()
                          if f.get("kind") == "finding" and f.get("property") == pid]
        self._vsigs = set()

    # -- coverage ---------------------------------------------------------
    def add_tlc(self, res, name=None):
        self.states += res.distinct
        self.transitions += res.generated
        self.tlc_runs.append({"cfg": name or res.name, "generated": res.generated,
                              "distinct": res.distinct, "depth": res.depth,
                              "wall_s": round(res.wall, 2)})

    def case(self, key=None, n=1):
        self.evaluations += n
        if key is not None:
            self.distinct.add(key if isinstance(key, (str, int, tuple)) else jdump(key))

    def sample(self, obj, cap=4):
        if len(self.samples) < cap:
            self.samples.append(obj)

    def note_drift(self, what):
        """Model drift: an observed step that is not a step of the specification although no
        property predicate failed. Reported and counted, never an alarm."""
        self.drift += 1
        kind = jdump({k: v for k, v in what.items() if k not in ("tid", "i")})
        n = self.drift_kinds.get(kind, 0)
        self.drift_kinds[kind] = n + 1
        if n == 0 and len(self.drift_samples) < 40:
            self.drift_samples.append(what)
            print("DRIFT %s %s" % (self.pid, jdump(what)[:400]))

    # -- verdicts ---------------------------------------------------------
    def violation(self, clause, sig, replay):
        """Record a failed property predicate on a real execution.
        sig: minimal discriminating fields; replay: JSON-able concrete case."""
        sig = dict(sig)
        sig["clause"] = clause
        for f in self._findings:
            if sig_matches(f["signature"], sig):
                self.known[f["what"]] = self.known.get(f["what"], 0) + 1
                return False
        key = jdump(sig)
        if key in self._vsigs:
            return True
        self._vsigs.add(key)
        d = os.path.join(os.environ.get("VERIF_OUT_DIR") or os.path.join(VERIF, "out"), "replays", self.pid)
        os.makedirs(d, exist_ok=True)
        h = hashlib.sha1(key.encode()).hexdigest()[:12]
        path = os.path.join(d, "%s.json" % h)
        with open(path, "w") as f:
            json.dump({"property": self.pid, "clause": clause, "signature": sig,
                       "replay": replay, "seed": SEED}, f, indent=1, default=_default)
        self.violations.append((sig, path))
        return True

    def finish(self):
        wall = time.time() - self.t0
        for what, n in sorted(self.known.items()):
            print("KNOWN-FINDING: property=%s %s (seen %d times)" % (self.pid, what, n))
        for sig, path in self.violations[:50]:
            print("   violated: %s" % jdump(sig)[:600])
            print("VIOLATION property=%s replay=%s" % (self.pid, path))
        cov = {
            "states": max(self.states, 1) if self.level == "model_checking" else self.states,
            "transitions": max(self.transitions, 1) if self.level == "model_checking" else self.transitions,
            "traces_validated_against_impl": self.traces,
            "evaluations": max(self.evaluations, 1),
            "distinct_nontrivial": len(self.distinct),
            "rule": self.rule,
            "samples": self.samples or ["(none recorded)"],
            "exhaustive": self.exhaustive,
            "tlc_runs": self.tlc_runs,
            "model_drift": self.drift,
            "model_drift_samples": self.drift_samples,
            "model_drift_kinds": self.drift_kinds,
            "known_findings_seen": self.known,
        }
        cov.update(self.extra)
        ev = {
            "property_id": self.pid,
            "tier": self.tier,
            "seed": SEED,
            "level": self.level,
            "coverage": cov,
            "assumptions": self.assumptions,
            "wall_s": round(wall, 2),
            "violations": len(self.violations),
        }
        evdir = os.environ.get("VERIF_EVIDENCE_DIR") or os.path.join(VERIF, "evidence")
        os.makedirs(evdir, exist_ok=True)
        with open(os.path.join(evdir, "%s.json" % self.pid), "w") as f:
            json.dump(ev, f, indent=1, default=_default)
        print("%s %s: states=%d transitions=%d impl_traces=%d evaluations=%d distinct=%d "
              "drift=%d known=%d violations=%d wall=%.1fs" % (
                  self.pid, self.tier, self.states, self.transitions, self.traces,
                  self.evaluations, len(self.distinct), self.drift, sum(self.known.values()),
                  len(self.violations), wall))
        return 1 if self.violations else 0
