"""Abstract <-> concrete mapping (the trusted projection of the conformance layer).

abstract request  -> kmip.core RequestMessage (-> bytes -> RequestMessage)
kmip.core response -> abstract response
SQLite file        -> abstract store state (stdlib sqlite3, independent of the ORM)
"""
import sqlite3

from . import common

common.use_repo()

from kmip.core import enums, objects as cobjects, attributes as cattrs, primitives, secrets, utils, misc  # noqa
from kmip.core.messages import contents, messages, payloads  # noqa
from kmip.core.factories import attributes as attr_factory_mod  # noqa
from kmip.core.factories import attribute_values as attr_values_mod  # noqa

AF = attr_factory_mod.AttributeFactory()
VF = attr_values_mod.AttributeValueFactory()

# ---------------------------------------------------------------- vocabulary

OTYPE = {
    "Certificate": enums.ObjectType.CERTIFICATE,
    "SymmetricKey": enums.ObjectType.SYMMETRIC_KEY,
    "PublicKey": enums.ObjectType.PUBLIC_KEY,
    "PrivateKey": enums.ObjectType.PRIVATE_KEY,
    "SplitKey": enums.ObjectType.SPLIT_KEY,
    "Template": enums.ObjectType.TEMPLATE,
    "SecretData": enums.ObjectType.SECRET_DATA,
    "OpaqueData": enums.ObjectType.OPAQUE_DATA,
}
OTYPE_R = {v: k for k, v in OTYPE.items()}
OTYPE_INT = {v.value: k for k, v in OTYPE.items()}

STATE = {
    "PreActive": enums.State.PRE_ACTIVE,
    "Active": enums.State.ACTIVE,
    "Deactivated": enums.State.DEACTIVATED,
    "Compromised": enums.State.COMPROMISED,
    "Destroyed": enums.State.DESTROYED,
    "DestroyedCompromised": enums.State.DESTROYED_COMPROMISED,
}
STATE_R = {v: k for k, v in STATE.items()}
STATE_INT = {v.value: k for k, v in STATE.items()}

OPS = {
    "Create": enums.Operation.CREATE,
    "CreateKeyPair": enums.Operation.CREATE_KEY_PAIR,
    "Register": enums.Operation.REGISTER,
    "DeriveKey": enums.Operation.DERIVE_KEY,
    "Locate": enums.Operation.LOCATE,
    "Get": enums.Operation.GET,
    "GetAttributes": enums.Operation.GET_ATTRIBUTES,
    "GetAttributeList": enums.Operation.GET_ATTRIBUTE_LIST,
    "Activate": enums.Operation.ACTIVATE,
    "Revoke": enums.Operation.REVOKE,
    "Destroy": enums.Operation.DESTROY,
    "Query": enums.Operation.QUERY,
    "DiscoverVersions": enums.Operation.DISCOVER_VERSIONS,
    "Encrypt": enums.Operation.ENCRYPT,
    "Decrypt": enums.Operation.DECRYPT,
    "Sign": enums.Operation.SIGN,
    "SignatureVerify": enums.Operation.SIGNATURE_VERIFY,
    "MAC": enums.Operation.MAC,
    "SetAttribute": enums.Operation.SET_ATTRIBUTE,
    "ModifyAttribute": enums.Operation.MODIFY_ATTRIBUTE,
    "DeleteAttribute": enums.Operation.DELETE_ATTRIBUTE,
    # operations the server does not implement (payload classes exist)
    "Rekey": enums.Operation.REKEY,
    "Archive": enums.Operation.ARCHIVE,
    "Recover": enums.Operation.RECOVER,
    "Check": enums.Operation.CHECK,
    "ObtainLease": enums.Operation.OBTAIN_LEASE,
    "GetUsageAllocation": enums.Operation.GET_USAGE_ALLOCATION,
    "Poll": enums.Operation.POLL,
    "Cancel": enums.Operation.CANCEL,
}
OPS_R = {v: k for k, v in OPS.items()}


def camel(e):
    return "".join(x.capitalize() for x in e.name.split("_"))


REASON_R = {e: camel(e) for e in enums.ResultReason}
STATUS_R = {e: camel(e) for e in enums.ResultStatus}

MASKBITS = [e for e in enums.CryptographicUsageMask]


def mask_to_bits(m):
    return sorted(e.name for e in MASKBITS if e.value & (m or 0))


def bits_to_mask(bits):
    v = 0
    for b in bits:
        v |= enums.CryptographicUsageMask[b].value
    return v


def E(enum_cls, name):
    return None if name in (None, "", "NA") else enum_cls[name]


# ---------------------------------------------------------------- values (interning)

class Interner(object):
    """bytes / text <-> stable small tokens, so the spec compares tokens."""

    def __init__(self):
        self.b2t = {}
        self.t2b = {}

    def tok(self, b, hint="v"):
        if b is None:
            return ""
        b = bytes(b)
        if b == b"":
            return ""                   # the empty value is its own token (the specification writes it "")
        t = self.b2t.get(b)
        if t is None:
            t = "%s%d" % (hint, len(self.b2t) + 1)
            self.b2t[b] = t
            self.t2b[t] = b
        return t

    def define(self, t, b):
        self.b2t[bytes(b)] = t
        self.t2b[t] = bytes(b)

    def val(self, t):
        if t == "":
            return b""
        return self.t2b[t]


# ---------------------------------------------------------------- attributes

SINGLE_ENUM_ATTRS = {
    "Cryptographic Algorithm": enums.CryptographicAlgorithm,
    "State": enums.State,
    "Object Type": enums.ObjectType,
    "Certificate Type": enums.CertificateType,
    "Digital Signature Algorithm": enums.DigitalSignatureAlgorithm,
}
DATE_ATTRS = ["Initial Date", "Activation Date", "Process Start Date", "Protect Stop Date",
              "Deactivation Date", "Destroy Date", "Compromise Occurrence Date",
              "Compromise Date", "Archive Date", "Last Change Date", "Original Creation Date"]
BOOL_ATTRS = ["Sensitive", "Fresh", "Always Sensitive", "Extractable", "Never Extractable"]
INT_ATTRS = ["Cryptographic Length", "Certificate Length", "Lease Time"]
TEXT_ATTRS = ["Unique Identifier", "Operation Policy Name", "Object Group", "Contact Information"]


def attr_value_obj(name, v):
    """abstract attribute value -> the python value AttributeFactory expects."""
    if name == "Name":
        return cattrs.Name.create(v, enums.NameType.UNINTERPRETED_TEXT_STRING)
    if name == "Application Specific Information":
        return {"application_namespace": v[0], "application_data": v[1]}
    if name == "Cryptographic Usage Mask":
        return [enums.CryptographicUsageMask[b] for b in v]
    if name in SINGLE_ENUM_ATTRS:
        if name == "State":
            return STATE[v]
        if name == "Object Type":
            return OTYPE[v]
        return SINGLE_ENUM_ATTRS[name][v]
    return v


def build_attribute(a):
    """abstract {name, idx, v} -> core Attribute (KMIP 1.x form)."""
    name = a["name"]
    idx = a.get("idx", -1)
    try:
        at = enums.AttributeType(name)
    except ValueError:
        at = None
    if at is None:
        # custom attribute: text value
        return cobjects.Attribute(
            attribute_name=cobjects.Attribute.AttributeName(name),
            attribute_index=None if idx is None or idx == -1 else cobjects.Attribute.AttributeIndex(idx),
            attribute_value=primitives.TextString(a["v"], enums.Tags.ATTRIBUTE_VALUE))
    try:
        return AF.create_attribute(at, attr_value_obj(name, a["v"]), None if idx in (None, -1) else idx)
    except (NotImplementedError, TypeError, ValueError, AttributeError):
        # attributes the library has no value class for: send a text value
        return cobjects.Attribute(
            attribute_name=cobjects.Attribute.AttributeName(name),
            attribute_index=None if idx in (None, -1) else cobjects.Attribute.AttributeIndex(idx),
            attribute_value=primitives.TextString(str(a["v"]), enums.Tags.ATTRIBUTE_VALUE))


def build_attr_value_2(a):
    """abstract {name, v} -> bare attribute value object carrying its own tag (KMIP 2.0 form)."""
    name = a["name"]
    tag = enums.convert_attribute_name_to_tag(name)
    try:
        return VF.create_attribute_value_by_enum(tag, attr_value_obj(name, a["v"]))
    except (NotImplementedError, TypeError, ValueError, AttributeError):
        return primitives.TextString(str(a["v"]), tag)


def template(attrs, tag=enums.Tags.TEMPLATE_ATTRIBUTE):
    if attrs is None:
        return None
    return cobjects.TemplateAttribute(attributes=[build_attribute(a) for a in attrs], tag=tag)


def abs_attr_value(name, val, intern=None):
    """core attribute value object -> abstract v."""
    if val is None:
        return None
    if name == "Name":
        return val.name_value.value
    if name == "Application Specific Information":
        return [val.application_namespace, val.application_data]
    if name == "Cryptographic Usage Mask":
        return mask_to_bits(val.value)
    if name == "State":
        return STATE_R.get(val.value, str(val.value))
    if name == "Object Type":
        return OTYPE_R.get(val.value, str(val.value))
    if name in SINGLE_ENUM_ATTRS:
        return val.value.name if val.value is not None else ""
    v = getattr(val, "value", None)
    if isinstance(v, (bytes, bytearray)):
        return bytes(v).hex()
    if isinstance(v, (int, bool, str)):
        return v
    return repr(val)


def abs_attribute(attr):
    name = attr.attribute_name.value
    idx = attr.attribute_index.value if attr.attribute_index is not None else -1
    return {"name": name, "idx": idx, "v": abs_attr_value(name, attr.attribute_value)}


# ---------------------------------------------------------------- managed objects on the wire

def _wrapping(w):
    if not w:
        return None
    eki = None
    if w.get("eki"):
        cp = w["eki"].get("cp")
        eki = cobjects.EncryptionKeyInformation(
            unique_identifier=str(w["eki"]["uid"]),
            cryptographic_parameters=cattrs.CryptographicParameters(
                block_cipher_mode=E(enums.BlockCipherMode, cp.get("mode"))) if cp else None)
    mski = None
    if w.get("mski"):
        mski = cobjects.MACSignatureKeyInformation(unique_identifier=str(w["mski"]["uid"]))
    return cobjects.KeyWrappingData(
        wrapping_method=E(enums.WrappingMethod, w.get("method", "ENCRYPT")),
        encryption_key_information=eki,
        mac_signature_key_information=mski,
        mac_signature=w.get("mac"),
        iv_counter_nonce=w.get("iv"),
        encoding_option=E(enums.EncodingOption, w.get("enc")))


BIG_PRIME = 2 ** 64 + 13           # a prime field size beyond a signed 64-bit integer (field sizes are Big Integers)
SMALL_PRIME = 257


def prime_class(v):
    """The specification's view of a split key's prime field size: absent / fits 64 bits / does not."""
    return "NA" if v is None else ("PRIME" if -2 ** 63 <= v < 2 ** 63 else "PRIME_BIG")


def build_secret(o, intern):
    """abstract object description -> core secret for Register."""
    t = o["type"]
    val = intern.val(o["val"]) if o.get("val") else b""
    if t in ("SymmetricKey", "PublicKey", "PrivateKey", "SplitKey"):
        kb = cobjects.KeyBlock(
            key_format_type=misc.KeyFormatType(E(enums.KeyFormatType, o.get("fmt", "RAW"))),
            key_compression_type=None,
            key_value=cobjects.KeyValue(key_material=cobjects.KeyMaterial(val)),
            cryptographic_algorithm=cattrs.CryptographicAlgorithm(E(enums.CryptographicAlgorithm, o["alg"])) if o.get("alg") not in (None, "", "NA") else None,
            cryptographic_length=cattrs.CryptographicLength(o["len"]) if o.get("len") else None,
            key_wrapping_data=_wrapping(o.get("wrap")))
        if t == "SymmetricKey":
            return secrets.SymmetricKey(kb)
        if t == "PublicKey":
            return secrets.PublicKey(kb)
        if t == "PrivateKey":
            return secrets.PrivateKey(kb)
        return secrets.SplitKey(
            split_key_parts=o.get("parts", 3), key_part_identifier=o.get("part", 1),
            split_key_threshold=o.get("thr", 2),
            split_key_method=E(enums.SplitKeyMethod, o.get("smethod", "XOR")),
            prime_field_size=o.get("prime"), key_block=kb)
    if t == "Certificate":
        return secrets.Certificate(
            certificate_type=E(enums.CertificateType, o.get("ctype", "X_509")),
            certificate_value=val)
    if t == "SecretData":
        kb = cobjects.KeyBlock(
            key_format_type=misc.KeyFormatType(enums.KeyFormatType.OPAQUE),
            key_value=cobjects.KeyValue(key_material=cobjects.KeyMaterial(val)))
        return secrets.SecretData(
            secret_data_type=secrets.SecretData.SecretDataType(E(enums.SecretDataType, o.get("dtype", "PASSWORD"))),
            key_block=kb)
    if t == "OpaqueData":
        return secrets.OpaqueObject(
            opaque_data_type=secrets.OpaqueObject.OpaqueDataType(E(enums.OpaqueDataType, o.get("odtype", "NONE"))),
            opaque_data_value=secrets.OpaqueObject.OpaqueDataValue(val))
    if t == "Template":
        return secrets.Template(attributes=[])
    raise ValueError(t)


def abs_secret(s, intern):
    """core secret (from a Get response) -> abstract description."""
    if s is None:
        return None
    out = {}
    kb = getattr(s, "key_block", None)
    if isinstance(s, secrets.Certificate):
        out["type"] = "Certificate"
        out["ctype"] = s.certificate_type.value.name if s.certificate_type is not None else ""
        out["val"] = intern.tok(s.certificate_value.value)
        return out
    if isinstance(s, secrets.OpaqueObject):
        out["type"] = "OpaqueData"
        out["odtype"] = s.opaque_data_type.value.name if s.opaque_data_type is not None else ""
        out["val"] = intern.tok(s.opaque_data_value.value)
        return out
    out["type"] = {secrets.SymmetricKey: "SymmetricKey", secrets.PublicKey: "PublicKey",
                   secrets.PrivateKey: "PrivateKey", secrets.SplitKey: "SplitKey",
                   secrets.SecretData: "SecretData"}.get(type(s), type(s).__name__)
    if isinstance(s, secrets.SecretData):
        out["dtype"] = s.secret_data_type.value.name if s.secret_data_type is not None else ""
    if isinstance(s, secrets.SplitKey):
        out.update(parts=s.split_key_parts, part=s.key_part_identifier, thr=s.split_key_threshold,
                   smethod=s.split_key_method.name if s.split_key_method else "",
                   prime=s.prime_field_size)
    if kb is not None:
        out["fmt"] = kb.key_format_type.value.name if kb.key_format_type is not None else ""
        out["alg"] = kb.cryptographic_algorithm.value.name if kb.cryptographic_algorithm is not None else "NA"
        out["len"] = kb.cryptographic_length.value if kb.cryptographic_length is not None else 0
        km = kb.key_value.key_material if kb.key_value is not None else None
        kv = km.value if km is not None and hasattr(km, "value") else km
        out["val"] = intern.tok(kv) if isinstance(kv, (bytes, bytearray)) else repr(kv)
        w = kb.key_wrapping_data
        if w is not None:
            out["wrap"] = {
                "method": w.wrapping_method.name if w.wrapping_method else "",
                "enc": w.encoding_option.name if w.encoding_option else "",
                "eki": ({"uid": w.encryption_key_information.unique_identifier,
                         "mode": (w.encryption_key_information.cryptographic_parameters.block_cipher_mode.name
                                  if w.encryption_key_information.cryptographic_parameters is not None and
                                  w.encryption_key_information.cryptographic_parameters.block_cipher_mode is not None else "")}
                        if w.encryption_key_information is not None else None),
                "mski": ({"uid": w.mac_signature_key_information.unique_identifier}
                         if w.mac_signature_key_information is not None else None),
                "mac": bytes(w.mac_signature).hex() if w.mac_signature else "",
                "iv": bytes(w.iv_counter_nonce).hex() if w.iv_counter_nonce else "",
            }
    return out


# ---------------------------------------------------------------- requests

def uid_s(u):
    """abstract uid (0 = absent) -> string or None."""
    if u in (0, None, ""):
        return None
    return str(u)


def crypto_params(cp):
    if cp is None:
        return None
    return cattrs.CryptographicParameters(
        block_cipher_mode=E(enums.BlockCipherMode, cp.get("mode")),
        padding_method=E(enums.PaddingMethod, cp.get("pad")),
        hashing_algorithm=E(enums.HashingAlgorithm, cp.get("hash")),
        digital_signature_algorithm=E(enums.DigitalSignatureAlgorithm, cp.get("dsa")),
        cryptographic_algorithm=E(enums.CryptographicAlgorithm, cp.get("alg")),
        tag_length=cp.get("taglen"),
        random_iv=cp.get("random_iv"),
        iv_length=cp.get("ivlen"))


def hx(s):
    return None if s is None else bytes.fromhex(s)


def build_payload(op, p, ver, intern):
    v2 = tuple(ver) >= (2, 0)
    if op == "Create":
        return payloads.CreateRequestPayload(object_type=OTYPE[p["otype"]],
                                             template_attribute=template(p.get("attrs", [])))
    if op == "CreateKeyPair":
        return payloads.CreateKeyPairRequestPayload(
            common_template_attribute=template(p.get("common"), enums.Tags.COMMON_TEMPLATE_ATTRIBUTE),
            private_key_template_attribute=template(p.get("priv"), enums.Tags.PRIVATE_KEY_TEMPLATE_ATTRIBUTE),
            public_key_template_attribute=template(p.get("pub"), enums.Tags.PUBLIC_KEY_TEMPLATE_ATTRIBUTE))
    if op == "Register":
        return payloads.RegisterRequestPayload(
            object_type=OTYPE[p["otype"]], template_attribute=template(p.get("attrs", [])),
            managed_object=build_secret(p["obj"], intern) if p.get("obj") else None)
    if op == "DeriveKey":
        dp = p.get("dp") or {}
        return payloads.DeriveKeyRequestPayload(
            object_type=OTYPE[p["otype"]],
            unique_identifiers=[str(u) for u in p["uids"]],
            derivation_method=E(enums.DerivationMethod, p.get("method", "HMAC")),
            derivation_parameters=cattrs.DerivationParameters(
                cryptographic_parameters=crypto_params(dp.get("cp")),
                initialization_vector=hx(dp.get("iv")),
                derivation_data=hx(dp.get("data")),
                salt=hx(dp.get("salt")),
                iteration_count=dp.get("iter")),
            template_attribute=template(p.get("attrs", [])))
    if op == "Locate":
        return payloads.LocateRequestPayload(
            maximum_items=None if p.get("max", -1) in (None, -1) else p["max"],
            offset_items=None if p.get("offset", -1) in (None, -1) else p["offset"],
            attributes=[build_attribute(a) for a in p.get("filters", [])])
    if op == "Get":
        w = p.get("wrap")
        kws = None
        if w:
            eki = None
            if w.get("kuid") is not None:
                eki = cobjects.EncryptionKeyInformation(
                    unique_identifier=str(w["kuid"]),
                    cryptographic_parameters=None if w.get("nocp") else cattrs.CryptographicParameters(
                        block_cipher_mode=E(enums.BlockCipherMode, w.get("mode", "NIST_KEY_WRAP"))))
            mski = None
            if w.get("muid") is not None:
                mski = cobjects.MACSignatureKeyInformation(unique_identifier=str(w["muid"]))
            kws = cobjects.KeyWrappingSpecification(
                wrapping_method=E(enums.WrappingMethod, w.get("method", "ENCRYPT")),
                encryption_key_information=eki,
                mac_signature_key_information=mski,
                attribute_names=w.get("anames") or None,
                encoding_option=E(enums.EncodingOption, w.get("enc", "NO_ENCODING")))
        return payloads.GetRequestPayload(
            unique_identifier=uid_s(p.get("uid")),
            key_format_type=E(enums.KeyFormatType, p.get("fmt")),
            key_compression_type=E(enums.KeyCompressionType, p.get("comp")),
            key_wrapping_specification=kws)
    if op == "GetAttributes":
        return payloads.GetAttributesRequestPayload(unique_identifier=uid_s(p.get("uid")),
                                                    attribute_names=p.get("names") or None)
    if op == "GetAttributeList":
        return payloads.GetAttributeListRequestPayload(unique_identifier=uid_s(p.get("uid")))
    if op == "Activate":
        u = uid_s(p.get("uid"))
        return payloads.ActivateRequestPayload(
            unique_identifier=cattrs.UniqueIdentifier(u) if u else None)
    if op == "Destroy":
        u = uid_s(p.get("uid"))
        return payloads.DestroyRequestPayload(
            unique_identifier=cattrs.UniqueIdentifier(u) if u else None)
    if op == "Revoke":
        u = uid_s(p.get("uid"))
        code = p.get("code")
        return payloads.RevokeRequestPayload(
            unique_identifier=cattrs.UniqueIdentifier(u) if u else None,
            revocation_reason=cobjects.RevocationReason(code=E(enums.RevocationReasonCode, code)) if code else None)
    if op == "Query":
        return payloads.QueryRequestPayload(
            query_functions=[enums.QueryFunction[f] for f in p.get("functions", ["QUERY_OPERATIONS"])])
    if op == "DiscoverVersions":
        return payloads.DiscoverVersionsRequestPayload(
            protocol_versions=[contents.ProtocolVersion(a, b) for a, b in p.get("versions", [])])
    if op in ("Encrypt", "Decrypt"):
        kw = dict(unique_identifier=uid_s(p.get("uid")), cryptographic_parameters=crypto_params(p.get("cp")),
                  data=hx(p.get("data")), iv_counter_nonce=hx(p.get("iv")),
                  auth_additional_data=hx(p.get("aad")))
        if op == "Encrypt":
            return payloads.EncryptRequestPayload(**kw)
        return payloads.DecryptRequestPayload(auth_tag=hx(p.get("tag")), **kw)
    if op == "Sign":
        return payloads.SignRequestPayload(unique_identifier=uid_s(p.get("uid")),
                                           cryptographic_parameters=crypto_params(p.get("cp")),
                                           data=hx(p.get("data")))
    if op == "SignatureVerify":
        return payloads.SignatureVerifyRequestPayload(
            unique_identifier=uid_s(p.get("uid")), cryptographic_parameters=crypto_params(p.get("cp")),
            data=hx(p.get("data")), signature_data=hx(p.get("sig")))
    if op == "MAC":
        u = uid_s(p.get("uid"))
        d = hx(p.get("data"))
        return payloads.MACRequestPayload(
            unique_identifier=cattrs.UniqueIdentifier(u) if u else None,
            cryptographic_parameters=crypto_params(p.get("cp")),
            data=cobjects.Data(d) if d is not None else None)
    if op == "SetAttribute":
        return payloads.SetAttributeRequestPayload(
            unique_identifier=uid_s(p.get("uid")),
            new_attribute=cobjects.NewAttribute(attribute=build_attr_value_2(p["new"])))
    if op == "ModifyAttribute":
        if v2:
            return payloads.ModifyAttributeRequestPayload(
                unique_identifier=uid_s(p.get("uid")),
                current_attribute=cobjects.CurrentAttribute(attribute=build_attr_value_2(p["cur"])) if p.get("cur") else None,
                new_attribute=cobjects.NewAttribute(attribute=build_attr_value_2(p["new"])))
        return payloads.ModifyAttributeRequestPayload(unique_identifier=uid_s(p.get("uid")),
                                                      attribute=build_attribute(p["attr"]))
    if op == "DeleteAttribute":
        if v2:
            return payloads.DeleteAttributeRequestPayload(
                unique_identifier=uid_s(p.get("uid")),
                current_attribute=cobjects.CurrentAttribute(attribute=build_attr_value_2(p["cur"])) if p.get("cur") else None,
                attribute_reference=cobjects.AttributeReference(
                    vendor_identification="Acme", attribute_name=p["ref"]) if p.get("ref") else None)
        idx = p.get("idx", -99)
        return payloads.DeleteAttributeRequestPayload(
            unique_identifier=uid_s(p.get("uid")), attribute_name=p.get("name") or None,
            attribute_index=None if idx in (None, -99) else idx)
    # operations without a server handler
    if op == "Rekey":
        return payloads.RekeyRequestPayload(unique_identifier=uid_s(p.get("uid")))
    if op == "Archive":
        return payloads.ArchiveRequestPayload(unique_identifier=uid_s(p.get("uid")))
    if op == "Recover":
        return payloads.RecoverRequestPayload(unique_identifier=uid_s(p.get("uid")))
    if op == "Check":
        return payloads.CheckRequestPayload(unique_identifier=uid_s(p.get("uid")))
    if op == "ObtainLease":
        return payloads.ObtainLeaseRequestPayload(unique_identifier=uid_s(p.get("uid")))
    if op == "GetUsageAllocation":
        return payloads.GetUsageAllocationRequestPayload(unique_identifier=uid_s(p.get("uid")),
                                                         usage_limits_count=p.get("count", 1))
    if op == "Poll":
        return payloads.PollRequestPayload(asynchronous_correlation_value=b"\x01")
    if op == "Cancel":
        return payloads.CancelRequestPayload(asynchronous_correlation_value=b"\x01")
    raise ValueError("unknown op %r" % op)


def build_request(req, intern, now=None):
    """abstract request -> RequestMessage."""
    ver = tuple(req.get("ver", (1, 2)))
    items = []
    for it in req["items"]:
        bid = it.get("bid") or ""
        items.append(messages.RequestBatchItem(
            operation=contents.Operation(OPS[it["op"]]),
            unique_batch_item_id=contents.UniqueBatchItemID(bid.encode()) if bid else None,
            request_payload=build_payload(it["op"], it.get("p") or {}, ver, intern)))
    opt = req.get("opt") or "None"
    ts = req.get("ts")
    auth = None
    if req.get("cred"):
        auth = contents.Authentication(credentials=[cobjects.Credential(
            credential_type=enums.CredentialType.USERNAME_AND_PASSWORD,
            credential_value=cobjects.UsernamePasswordCredential(
                username=req["cred"][0], password=req["cred"][1]))])
    hdr = messages.RequestHeader(
        protocol_version=contents.ProtocolVersion(ver[0], ver[1]),
        maximum_response_size=contents.MaximumResponseSize(req["maxsize"]) if req.get("maxsize") is not None else None,
        asynchronous_indicator=contents.AsynchronousIndicator(True) if req.get("async") else None,
        authentication=auth,
        batch_error_cont_option=None if opt == "None" else contents.BatchErrorContinuationOption(
            {"Stop": enums.BatchErrorContinuationOption.STOP,
             "Continue": enums.BatchErrorContinuationOption.CONTINUE,
             "Undo": enums.BatchErrorContinuationOption.UNDO}[opt]),
        batch_order_option=contents.BatchOrderOption(True) if req.get("order") else None,
        time_stamp=contents.TimeStamp((now or 0) + ts) if ts is not None else None,
        batch_count=contents.BatchCount(req.get("count", len(items))))
    return messages.RequestMessage(request_header=hdr, batch_items=items)


def encode(msg, ver=None):
    s = utils.BytearrayStream()
    if ver is None:
        msg.write(s)
    else:
        msg.write(s, ver)
    return bytes(s.buffer)


def KV(ver):
    return {(1, 0): enums.KMIPVersion.KMIP_1_0, (1, 1): enums.KMIPVersion.KMIP_1_1,
            (1, 2): enums.KMIPVersion.KMIP_1_2, (1, 3): enums.KMIPVersion.KMIP_1_3,
            (1, 4): enums.KMIPVersion.KMIP_1_4, (2, 0): enums.KMIPVersion.KMIP_2_0}.get(tuple(ver))


def decode_request(data):
    m = messages.RequestMessage()
    m.read(utils.BytearrayStream(data))
    return m


def decode_response(data):
    m = messages.ResponseMessage()
    try:
        m.read(utils.BytearrayStream(data))
    except TypeError:
        # The library's reader cannot cope with a header that states a protocol version it does not know (the server
        # echoes an unsupported request version in its refusal): read the same message as if it stated 1.0.
        b = bytearray(data)
        if len(b) >= 56 and b[24:28] == b"\x42\x00\x6a\x02" and b[40:44] == b"\x42\x00\x6b\x02":
            real = (int.from_bytes(b[32:36], "big"), int.from_bytes(b[48:52], "big"))
            b[32:36] = (1).to_bytes(4, "big")
            b[48:52] = (0).to_bytes(4, "big")
            m = messages.ResponseMessage()
            m.read(utils.BytearrayStream(bytes(b)))
            m.response_header.protocol_version = contents.ProtocolVersion(real[0], real[1])
        else:
            raise
    return m


# ---------------------------------------------------------------- responses

def to_uid(s):
    if s is None:
        return 0
    if hasattr(s, "value"):
        s = s.value
    if isinstance(s, int):
        return s
    # an identifier is the decimal rendering of the store's integer key; any other text ('01', ' 1', '1.0') names no object
    t = str(s)
    if t.isdigit() and str(int(t)) == t:
        return int(t)
    return -1


def abs_payload(op, pl, intern):
    if pl is None:
        return None
    P = payloads
    if isinstance(pl, P.CreateResponsePayload):
        return {"uid": to_uid(pl.unique_identifier), "otype": OTYPE_R.get(pl.object_type, "")}
    if isinstance(pl, P.CreateKeyPairResponsePayload):
        return {"priv": to_uid(pl.private_key_unique_identifier), "pub": to_uid(pl.public_key_unique_identifier)}
    if isinstance(pl, (P.RegisterResponsePayload, P.DeriveKeyResponsePayload, P.ActivateResponsePayload,
                       P.RevokeResponsePayload, P.DestroyResponsePayload, P.SetAttributeResponsePayload)):
        return {"uid": to_uid(pl.unique_identifier)}
    if isinstance(pl, P.LocateResponsePayload):
        return {"uids": [to_uid(u) for u in pl.unique_identifiers],
                "located": -1 if pl.located_items is None else pl.located_items}
    if isinstance(pl, P.GetResponsePayload):
        return {"uid": to_uid(pl.unique_identifier), "otype": OTYPE_R.get(pl.object_type, ""),
                "obj": abs_secret(pl.secret, intern)}
    if isinstance(pl, P.GetAttributesResponsePayload):
        return {"uid": to_uid(pl.unique_identifier), "attrs": [abs_attribute(a) for a in pl.attributes]}
    if isinstance(pl, P.GetAttributeListResponsePayload):
        return {"uid": to_uid(pl.unique_identifier), "names": list(pl.attribute_names)}
    if isinstance(pl, (P.ModifyAttributeResponsePayload, P.DeleteAttributeResponsePayload)):
        a = pl.attribute
        return {"uid": to_uid(pl.unique_identifier), "attr": abs_attribute(a) if a is not None else None}
    if isinstance(pl, P.QueryResponsePayload):
        return {"ops": [OPS_R.get(o, str(o)) for o in (pl.operations or [])],
                "vendor": pl.vendor_identification or ""}
    if isinstance(pl, P.DiscoverVersionsResponsePayload):
        return {"versions": [[v.major, v.minor] for v in pl.protocol_versions]}
    if isinstance(pl, P.EncryptResponsePayload):
        return {"uid": to_uid(pl.unique_identifier), "data": (pl.data or b"").hex(),
                "iv": pl.iv_counter_nonce.hex() if pl.iv_counter_nonce is not None else None,
                "tag": pl.auth_tag.hex() if pl.auth_tag is not None else None}
    if isinstance(pl, P.DecryptResponsePayload):
        return {"uid": to_uid(pl.unique_identifier), "data": (pl.data or b"").hex()}
    if isinstance(pl, P.SignResponsePayload):
        return {"uid": to_uid(pl.unique_identifier), "sig": (pl.signature_data or b"").hex()}
    if isinstance(pl, P.SignatureVerifyResponsePayload):
        return {"uid": to_uid(pl.unique_identifier),
                "valid": pl.validity_indicator.name if pl.validity_indicator is not None else ""}
    if isinstance(pl, P.MACResponsePayload):
        return {"uid": to_uid(pl.unique_identifier),
                "mac": pl.mac_data.value.hex() if pl.mac_data is not None else ""}
    return {"other": type(pl).__name__}


MSG_CLASSES = [
    ("NotFound", "Could not locate object: "),
    ("General", "Operation failed. See the server logs for more information."),
    ("BatchId", "Batch item ID is undefined."),
    ("Undo", "Undo option for batch handling is not supported."),
    ("Async", "Asynchronous operations are not supported."),
    ("Future", "Future request rejected by server."),
    ("Stale", "Stale request rejected by server."),
    ("Version", "is not supported by the server."),
    ("OpVersion", "is not supported by KMIP"),
]


def msg_class(text):
    if not text:
        return ""
    for c, frag in MSG_CLASSES:
        if frag in text:
            return c
    return "Other"


def abs_response(resp, intern):
    h = resp.response_header
    items = []
    for bi in resp.batch_items:
        op = OPS_R.get(bi.operation.value, str(bi.operation.value)) if bi.operation is not None else ""
        bid = bi.unique_batch_item_id.value if bi.unique_batch_item_id is not None else b""
        if isinstance(bid, (bytes, bytearray)):
            bid = bytes(bid).decode("latin-1")
        msg = bi.result_message.value if bi.result_message is not None else None
        items.append({
            "op": op, "bid": bid,
            "status": STATUS_R.get(bi.result_status.value, "") if bi.result_status is not None else "",
            "reason": REASON_R.get(bi.result_reason.value, "") if bi.result_reason is not None else "",
            "hasmsg": msg is not None,
            "msg": msg or "", "msgc": msg_class(msg),
            "pl": abs_payload(op, bi.response_payload, intern),
        })
    return {
        "kind": "resp",
        "ver": [h.protocol_version.major, h.protocol_version.minor],
        "count": h.batch_count.value if h.batch_count is not None else -1,
        "hasts": h.time_stamp is not None,
        "items": items,
    }


# ---------------------------------------------------------------- store projection (raw SQLite)

KEYCLASS = {"SymmetricKey": "symmetric_keys", "PublicKey": "public_keys", "PrivateKey": "private_keys",
            "SplitKey": "split_keys"}
CHAIN = {
    "SymmetricKey": ["crypto_objects", "keys", "symmetric_keys"],
    "PublicKey": ["crypto_objects", "keys", "public_keys"],
    "PrivateKey": ["crypto_objects", "keys", "private_keys"],
    "SplitKey": ["crypto_objects", "keys", "split_keys"],
    "Certificate": ["crypto_objects", "certificates", "x509_certificates"],
    "SecretData": ["crypto_objects", "secret_data_objects"],
    "OpaqueData": ["opaque_objects"],
}
CLASS_TYPE = {"SymmetricKey": "SymmetricKey", "PublicKey": "PublicKey", "PrivateKey": "PrivateKey",
              "SplitKey": "SplitKey", "Certificate": "X509Certificate", "SecretData": "SecretData",
              "OpaqueData": "OpaqueData"}


def _enum_name(enum_cls, v):
    if v is None or v == -1:
        return "NA"
    try:
        return enum_cls(v).name
    except ValueError:
        return "?%s" % v


def read_state(path, intern):
    """Project the SQLite file to the abstract store. Returns
    {objs: [records sorted by uid], seq: int, broken: [problems]}."""
    con = sqlite3.connect("file:%s?mode=ro" % path, uri=True, timeout=10)
    try:
        cur = con.cursor()
        objs = []
        broken = []
        rows = cur.execute("select uid, object_type, class_type, value, operation_policy_name, sensitive,"
                           " initial_date, owner from managed_objects order by uid").fetchall()
        for uid, ot, ct, val, pol, sens, idate, owner in rows:
            t = OTYPE_INT.get(ot, "?%s" % ot)
            o = {"uid": uid, "type": t, "owner": owner or "", "policy": pol or "",
                 "sensitive": bool(sens), "idate": idate or 0,
                 "val": intern.tok(val, "g") if val is not None else "",
                 "state": "NA", "mask": [], "alg": "NA", "len": 0, "fmt": "NA", "sub": "NA"}
            for tb in CHAIN.get(t, []):
                if cur.execute("select count(*) from %s where uid=?" % tb, (uid,)).fetchone()[0] != 1:
                    broken.append("uid %s type %s missing row in %s" % (uid, t, tb))
            if CLASS_TYPE.get(t) != ct:
                broken.append("uid %s class_type %s for type %s" % (uid, ct, t))
            r = cur.execute("select cryptographic_usage_mask, state from crypto_objects where uid=?", (uid,)).fetchone()
            if r is not None and t != "OpaqueData":
                o["mask"] = mask_to_bits(r[0])
                o["state"] = STATE_INT.get(r[1], "?%s" % r[1])
            r = cur.execute("select * from keys where uid=?", (uid,)).fetchone()
            if r is not None and t in KEYCLASS:
                cols = [d[0] for d in cur.description]
                k = dict(zip(cols, r))
                o["alg"] = _enum_name(enums.CryptographicAlgorithm, k["cryptographic_algorithm"])
                o["len"] = k["cryptographic_length"] or 0
                o["fmt"] = _enum_name(enums.KeyFormatType, k["key_format_type"])
                kdw = {c: k[c] for c in cols if c.startswith("_kdw") and k[c] not in (None, -1)}
                if kdw:
                    o["kdw"] = {c: (v.hex() if isinstance(v, bytes) else v) for c, v in kdw.items()}
            if t == "Certificate":
                r = cur.execute("select certificate_type from certificates where uid=?", (uid,)).fetchone()
                if r:
                    o["sub"] = _enum_name(enums.CertificateType, r[0])
            elif t == "SecretData":
                r = cur.execute("select data_type from secret_data_objects where uid=?", (uid,)).fetchone()
                if r:
                    o["sub"] = _enum_name(enums.SecretDataType, r[0])
            elif t == "OpaqueData":
                r = cur.execute("select opaque_type from opaque_objects where uid=?", (uid,)).fetchone()
                if r:
                    o["sub"] = _enum_name(enums.OpaqueDataType, r[0])
            elif t == "SplitKey":
                r = cur.execute("select _split_key_parts,_key_part_identifier,_split_key_threshold,"
                                "_split_key_method,_prime_field_size from split_keys where uid=?", (uid,)).fetchone()
                if r:
                    o["split"] = list(r)
                    o["sub"] = prime_class(r[4])
            o["names"] = [x[0] for x in cur.execute(
                "select name from managed_object_names where mo_uid=? order by id", (uid,))]
            o["groups"] = [x[0] for x in cur.execute(
                "select g.object_group from object_groups g join object_group_map m on m.object_group_id=g.id"
                " where m.managed_object_id=? order by g.id", (uid,))]
            o["appinfo"] = [[x[0], x[1]] for x in cur.execute(
                "select a.application_namespace, a.application_data from app_specific_info a join"
                " app_specific_info_map m on m.app_specific_info_id=a.id where m.managed_object_id=? order by a.id",
                (uid,))]
            objs.append(o)
        try:
            r = cur.execute("select seq from sqlite_sequence where name='managed_objects'").fetchone()
            seq = r[0] if r else 0
        except sqlite3.OperationalError:
            # no AUTOINCREMENT bookkeeping: SQLite then allocates largest live rowid + 1
            seq = max([o["uid"] for o in objs] + [0])
        return {"objs": objs, "seq": seq, "broken": broken}
    finally:
        con.close()
