"""Event traces of real KmipSession runs for TraceSession.tla (validation against SessionLoop.tla).

The events are taken from outside the package: the in-memory connection (recv / getpeercert / sendall), the scripted
SLUGS transport and the engine spy share one log (sessdrv).  A trace is the plan the harness fed plus those events."""
import json
import os
import struct

from . import common, tlc, absmap as A

common.use_repo()
from kmip.core import utils as kutils  # noqa
from kmip.core.messages import messages as kmessages  # noqa

V_OWNER = {"C12": "C12", "C17": "C17"}


def split_frames(data):
    """The stream as the framing rule sees it: complete frames, then the bytes of an incomplete one."""
    frames, pos = [], 0
    while pos + 8 <= len(data):
        ln = struct.unpack("!I", data[pos + 4:pos + 8])[0]
        if pos + 8 + ln > len(data):
            break
        frames.append(data[pos:pos + 8 + ln])
        pos += 8 + ln
    tneed = struct.unpack("!I", data[pos + 4:pos + 8])[0] if pos + 8 <= len(data) else 0
    return frames, len(data) - pos, tneed


def decoder_rejects(frame):
    """Can this frame be FULLY decoded?  The library's decoder, run in isolation, must accept it and consume all of it, and
    its framing must be consistent (rawttlv.framing_ok: the decoders read sub-streams by length and would accept a structure
    that announces more than it holds)."""
    from . import rawttlv
    if not rawttlv.framing_ok(bytes(frame)):
        return True
    try:
        m = kmessages.RequestMessage()
        st = kutils.BytearrayStream(frame)
        m.read(st)
        return st.length() > 0
    except Exception:
        return True


def classify(data, intern):
    """Class of one response as TraceSession.tla speaks about it."""
    try:
        r = A.abs_response(A.decode_response(data), intern)
    except Exception:
        return "Undecodable"
    if len(r["items"]) != 1:
        return "Items"
    it = r["items"][0]
    if it["status"] == "Success":
        return "Success"
    rs = it["reason"]
    if rs == "AuthenticationNotSuccessful":
        return "AuthFail"
    if rs in ("InvalidMessage", "ResponseTooLarge", "GeneralFailure"):
        return rs
    return "Failed"


def make(tid, cfg, data, plugs, conn, intern, eof=True):
    """cfg: {cert, eku, tlsauth}; data: the whole byte stream fed; plugs: per complete frame the plug-in kinds (or one list
    for all frames); conn: the FakeConn after the run (log, sent)."""
    frames, tail, tneed = split_frames(data)
    if plugs and not isinstance(plugs[0], (list, tuple)):
        plugs = [list(plugs)] * len(frames)
    if not plugs:
        plugs = [[]] * len(frames)
    ev = []
    last_host = None
    per_frame_engine = {}
    nsent = 0
    for e in conn.log:
        if e["e"] == "slugs":
            if e["host"] == last_host:
                continue
            last_host = e["host"]
            try:
                k = int(e["host"][5:])
            except ValueError:
                k = 0
            ev.append({"e": "slugs", "k": k})
            continue
        last_host = None if e["e"] in ("send", "engine") else last_host
        if e["e"] == "send":
            ev.append({"e": "send", "cls": classify(conn.sent[e["i"]], intern)})
            nsent += 1
        elif e["e"] == "engine":
            per_frame_engine.setdefault(nsent, e)
            ev.append({"e": "engine", "user": e["user"], "groups": e["groups"], "out": e["out"]})
        elif e["e"] == "recv":
            ev.append({"e": "recv", "n": min(int(e["n"]), 2 ** 30), "k": e["k"]})
        else:
            ev.append({"e": e["e"]})
    sends = [x["cls"] for x in ev if x["e"] == "send"]
    fr = []
    for i, f in enumerate(frames):
        if decoder_rejects(f):
            kind = "undec"
        else:
            eng = per_frame_engine.get(i)
            cls = sends[i] if i < len(sends) else ""
            if eng is None:
                kind = "ok"
            elif eng["out"] == "kmiperr":
                kind = "kmiperr"
            elif eng["out"] == "othererr":
                kind = "othererr"
            elif cls == "ResponseTooLarge":
                kind = "big"
            elif cls == "GeneralFailure":
                kind = "unenc"
            else:
                kind = "ok"
        fr.append({"len": len(f) - 8, "kind": kind, "plug": list(plugs[i]) if i < len(plugs) else []})
    return {"tid": tid, "plan": {"cfg": {"cert": cfg["cert"], "eku": cfg["eku"], "tlsauth": bool(cfg["tlsauth"])},
                                 "frames": fr, "tail": tail, "tneed": min(tneed, 2 ** 30)}, "ev": ev, "eof": bool(eof)}


def judge(run, traces, name="sess", owners=("C12", "C17"), replay=None):
    """TLC decides every trace. '@V@' clauses of the owning properties become violations, '@D@' is model drift."""
    if not traces:
        return None
    path = os.path.join(common.scratch(), "sesstrace_%s.json" % name)
    with open(path, "w") as f:
        json.dump(traces, f)
    cfg = tlc.write_cfg("TraceSession_%s.cfg" % name,
                        "SPECIFICATION TSpec\nCONSTANTS\n  MaxBuf = 4096\n  Plans = {}\nCHECK_DEADLOCK FALSE\n")
    res = tlc.run("TraceSession", cfg, env={"TRACE_FILE": path}, timeout=3000)
    run.add_tlc(res, "TraceSession(%s): %d connections, %d events" % (name, len(traces), sum(len(t["ev"]) for t in traces)))
    by = {t["tid"]: t for t in traces}
    ok = set(x["tid"] for x in res.tag("OK"))
    for v in res.tag("V"):
        t = by.get(v["tid"], {})
        for c in v["clauses"]:
            if c[:3] not in owners:
                continue
            sig = {"e": v["e"], "cfg": t.get("plan", {}).get("cfg"),
                   "kinds": [f["kind"] for f in t.get("plan", {}).get("frames", [])][:6]}
            run.violation(c, sig, {"trace": t, "at": v["i"], "extra": (replay or {}).get(v["tid"])})
    for d in res.tag("D"):
        run.note_drift({"module": "SessionLoop", "e": d["e"], "phase": d["phase"], "tid": d["tid"], "i": d["i"]})
    run.traces += len(traces)
    run.extra.setdefault("session_traces", {})[name] = {"connections": len(traces), "in_step_to_the_end": len(ok),
                                                       "events": sum(len(t["ev"]) for t in traces)}
    return res
