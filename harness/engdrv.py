"""Drive a real KmipEngine in-process along abstract requests and observe it."""
import copy
import logging
import os
import shutil
import time as _realtime

from . import common
from . import absmap as A

from kmip.core import enums, exceptions, policy as core_policy  # noqa
from kmip.services.server import engine as engine_mod  # noqa

PERM = {"AllowAll": enums.Policy.ALLOW_ALL, "AllowOwner": enums.Policy.ALLOW_OWNER,
        "DisallowAll": enums.Policy.DISALLOW_ALL}
PERM_R = {v: k for k, v in PERM.items()}


class Clock(object):
    """Logical clock standing in for the `time` module inside the engine."""

    def __init__(self, start=1000000):
        self.now = start

    def time(self):
        return float(self.now)

    def __getattr__(self, name):
        return getattr(_realtime, name)


CLOCK = Clock()
engine_mod.time = CLOCK


def section_to_engine(entries):
    out = {}
    for e in entries:
        out.setdefault(A.OTYPE[e["t"]], {})[A.OPS[e["op"]]] = PERM[e["perm"]]
    return out


def policies_to_engine(pols):
    """abstract policies (list of {name, preset: [..]|None, groups: {g: [..]}|None}) -> engine dict."""
    out = {}
    for p in pols:
        b = {}
        if p.get("preset") is not None:
            b["preset"] = section_to_engine(p["preset"])
        if p.get("groups") is not None:
            b["groups"] = {g: section_to_engine(sec) for g, sec in p["groups"].items()}
        out[p["name"]] = b
    return out


def section_from_engine(sec):
    out = []
    for t, ops in sec.items():
        for op, perm in ops.items():
            if t in A.OTYPE_R and op in A.OPS_R:
                out.append({"t": A.OTYPE_R[t], "op": A.OPS_R[op], "perm": PERM_R.get(perm, "DisallowAll")})
    return sorted(out, key=lambda e: (e["t"], e["op"]))


def builtin_policies():
    out = []
    for name, b in core_policy.policies.items():
        out.append({"name": name,
                    "preset": section_from_engine(b["preset"]) if "preset" in b else None,
                    "groups": {g: section_from_engine(s) for g, s in b["groups"].items()} if "groups" in b else None})
    return out


class LogCapture(logging.Handler):
    def __init__(self):
        logging.Handler.__init__(self, level=logging.DEBUG)
        self.records = []
        self.fmt = logging.Formatter("%(message)s")

    def emit(self, record):
        try:
            text = self.fmt.format(record)
        except Exception as e:  # formatting failure is itself visible
            text = "<format error %r>" % (e,)
        self.records.append((record.levelno, record.name, text))

    def take(self):
        r, self.records = self.records, []
        return r


class EngineDriver(object):
    """One database file, restartable engine, abstract request in -> abstract response out."""

    def __init__(self, policies=None, db=None, wire=True, intern=None, capture_logs=False):
        self.dir = common.scratch()
        self.db = db or os.path.join(self.dir, "eng%d_%d.db" % (os.getpid(), id(self)))
        self.abs_policies = policies if policies is not None else builtin_policies()
        self.wire = wire
        self.intern = intern or A.Interner()
        self.engine = None
        self.logcap = None
        self.wire_failures = []
        self.resp_wire_failures = []
        if capture_logs:
            self.logcap = LogCapture()
            root = logging.getLogger()
            root.addHandler(self.logcap)
            logging.getLogger("kmip").setLevel(logging.DEBUG)
        self.start()

    # -- lifecycle --------------------------------------------------------
    def start(self):
        self.engine = engine_mod.KmipEngine(policies=policies_to_engine(self.abs_policies),
                                            database_path=self.db)
        self.engine._logger.disabled = False
        return self.engine

    def stop(self):
        if self.engine is not None:
            try:
                self.engine._data_store.dispose()
            except Exception:
                pass
            self.engine = None

    def restart(self):
        self.stop()
        return self.start()

    def set_policies(self, pols):
        self.abs_policies = pols
        self.engine._operation_policies = policies_to_engine(pols)

    def close(self):
        self.stop()
        if self.logcap is not None:
            logging.getLogger().removeHandler(self.logcap)
        for suffix in ("", "-journal", "-wal", "-shm"):
            try:
                os.unlink(self.db + suffix)
            except OSError:
                pass

    def snapshot(self, path):
        shutil.copyfile(self.db, path)

    def load_snapshot(self, path):
        """Swap the database file under a (re)started engine."""
        self.stop()
        shutil.copyfile(path, self.db)
        self.start()

    # -- requests ---------------------------------------------------------
    def identity(self, req):
        g = req.get("groups")
        return (req.get("user"), None if g is None else list(g))

    def request(self, req, raw=False):
        """Returns the abstract response; engine exceptions become {kind: 'raised'}."""
        msg = A.build_request(req, self.intern, now=int(CLOCK.now))
        ver = tuple(req.get("ver", (1, 2)))
        kv = A.KV(ver)
        if self.wire:
            # through the real encoder and decoder; a request the decoder refuses
            # (recorded in wire_failures) is handed to the engine as built
            try:
                data = A.encode(msg) if kv is None else A.encode(msg, kv)
            except Exception as e:
                # no client can put this request on the wire under this version: not a request
                out = {"kind": "unsendable", "exc": type(e).__name__, "msg": str(e), "items": [], "count": 0,
                       "ver": list(ver), "reason": "", "msgc": ""}
                return (out, None) if raw else out
            try:
                msg = A.decode_request(data)
            except Exception as e:
                self.wire_failures.append((req, repr(e)))
        try:
            resp, maxsize, pv = self.engine.process_request(msg, self.identity(req))
        except exceptions.KmipError as e:
            out = {"kind": "raised", "exc": "KmipError", "reason": A.REASON_R.get(e.reason, ""),
                   "msg": str(e), "msgc": A.msg_class(str(e)), "items": [], "count": 0,
                   "ver": list(ver)}
            return (out, None) if raw else out
        except Exception as e:
            out = {"kind": "raised", "exc": type(e).__name__, "reason": "", "msg": str(e),
                   "msgc": "Other", "items": [], "count": 0, "ver": list(ver)}
            return (out, None) if raw else out
        if self.wire:
            rv = A.KV((pv.major, pv.minor))
            try:
                rdata = A.encode(resp) if rv is None else A.encode(resp, rv)
            except Exception as e:
                # the server cannot put its own answer on the wire
                out = A.abs_response(resp, self.intern)
                out["unenc"] = "%s: %s" % (type(e).__name__, e)
                self.resp_wire_failures.append((req, "encode " + out["unenc"]))
                return (out, None) if raw else out
            try:
                resp2 = A.decode_response(rdata)
            except Exception as e:
                # the library's own decoder cannot read what the server sent (client side, C01/C19)
                out = A.abs_response(resp, self.intern)
                out["undec"] = "%s: %s" % (type(e).__name__, e)
                out["nbytes"] = len(rdata)
                self.resp_wire_failures.append((req, "decode " + out["undec"]))
                return (out, rdata) if raw else out
            out = A.abs_response(resp2, self.intern)
            out["nbytes"] = len(rdata)
            return (out, rdata) if raw else out
        out = A.abs_response(resp, self.intern)
        return (out, None) if raw else out

    def state(self):
        return A.read_state(self.db, self.intern)

    def logs(self):
        return self.logcap.take() if self.logcap else []

    # transient fields, looked up defensively
    def placeholder(self):
        return A.to_uid(getattr(self.engine, "_id_placeholder", None))


def one(op, p=None, user="alice", groups=None, ver=(1, 2), bid="", **kw):
    """Convenience: a single-item abstract request."""
    req = {"user": user, "groups": groups, "ver": list(ver), "opt": "None",
           "items": [{"op": op, "bid": bid, "p": p or {}}]}
    req.update(kw)
    return req


class SessionDriver(EngineDriver):
    """Like EngineDriver, but every request travels over a persistent connection (one KmipSession per user, identity
    from the client certificate's common name): what comes back is what the CLIENT receives."""

    def __init__(self, *a, **kw):
        self.conns = {}
        super(SessionDriver, self).__init__(*a, **kw)

    def start(self):
        self.conns = {}
        return super(SessionDriver, self).start()

    def connection(self, user):
        from . import sessdrv as S
        if user not in self.conns:
            self.conns[user] = S.Connection(self.engine, S.make_cert(1, "client", cn=user))
        return self.conns[user]

    def send(self, req):
        """Raw exchange: (frames sent by the session, request bytes)."""
        msg = A.build_request(req, self.intern, now=int(CLOCK.now))
        kv = A.KV(tuple(req.get("ver", (1, 2))))
        data = A.encode(msg) if kv is None else A.encode(msg, kv)
        return self.connection(req.get("user")).exchange(data), data

    def request(self, req, raw=False):
        if req.get("groups") is not None:
            raise common.MachineryFailure("SessionDriver: certificate identities carry no groups")
        ver = tuple(req.get("ver", (1, 2)))
        try:
            sent, data = self.send(req)
        except Exception as e:
            out = {"kind": "unsendable", "exc": type(e).__name__, "msg": str(e), "items": [], "count": 0,
                   "ver": list(ver), "reason": "", "msgc": ""}
            return (out, None) if raw else out
        if len(sent) != 1:
            out = {"kind": "raised", "exc": "NoSingleResponse", "reason": "", "msg": "%d responses" % len(sent),
                   "msgc": "Other", "items": [], "count": 0, "ver": list(ver)}
            return (out, None) if raw else out
        try:
            resp = A.decode_response(sent[0])
        except Exception as e:
            out = {"kind": "raised", "exc": "UndecodableResponse", "reason": "", "msg": "%s: %s" % (type(e).__name__, e),
                   "msgc": "Other", "items": [], "count": 0, "ver": list(ver)}
            return (out, sent[0]) if raw else out
        out = A.abs_response(resp, self.intern)
        out["nbytes"] = len(sent[0])
        its = out.get("items", [])
        if len(its) == 1 and not its[0].get("op") and its[0].get("status") != "Success":
            # the session's form of a request-level error (what the engine raises as KmipError, or what the session itself
            # decides: Response Too Large, Invalid Message ...): one failed item without operation
            out = {"kind": "raised", "exc": "KmipError", "reason": its[0].get("reason", ""), "msg": its[0].get("msg", ""),
                   "msgc": its[0].get("mc", "") or A.msg_class(its[0].get("msg", "")), "items": [], "count": 0,
                   "ver": out.get("ver", list(ver)), "nbytes": len(sent[0])}
        return (out, sent[0]) if raw else out
