"""Child process of the C09 system-call crash leg: runs ONE operation of harness.checks.c09.operations() on the given
database file (strace kills it at the k-th write-side system call on the database or its journal)."""
import sys

from harness.checks import c09


def main():
    db, name = sys.argv[1], sys.argv[2]
    req = dict(c09.operations())[name]
    c09.E.rsa_pair()
    c09.run_op(db, req)
    return 0


if __name__ == "__main__":
    sys.exit(main())
