"""Seeded random request histories for the real engine (leg C drivers)."""
import random

from . import engdrv as D
from . import absmap as A

ALLBITS = ["ENCRYPT", "DECRYPT", "SIGN", "VERIFY", "MAC_GENERATE", "WRAP_KEY", "DERIVE_KEY", "EXPORT"]
# every other member of the usage mask enumeration: bits that grant none of the operations the server performs
RAREBITS = ["MAC_VERIFY", "UNWRAP_KEY", "CERTIFICATE_SIGN", "CRL_SIGN", "GENERATE_CRYPTOGRAM", "VALIDATE_CRYPTOGRAM",
            "TRANSLATE_ENCRYPT", "TRANSLATE_DECRYPT", "TRANSLATE_WRAP", "TRANSLATE_UNWRAP", "AUTHENTICATE", "UNRESTRICTED",
            "FPE_ENCRYPT", "FPE_DECRYPT"]
VERSIONS = [(1, 0), (1, 1), (1, 2), (1, 3), (1, 4), (2, 0)]
BADVERSIONS = [(0, 9), (1, 5), (2, 1), (3, 0)]
STORED = ["SymmetricKey", "PublicKey", "PrivateKey", "Certificate", "SecretData", "OpaqueData"]
NAMES = ["n1", "n2", "n3", "n4"]
GROUPS = ["gA", "gB"]
CODES = ["KEY_COMPROMISE", "CA_COMPROMISE", "CESSATION_OF_OPERATION", "UNSPECIFIED", "SUPERSEDED"]
ALL_ATTR_NAMES = [
    "Unique Identifier", "Name", "Object Type", "Cryptographic Algorithm", "Cryptographic Length",
    "Cryptographic Parameters", "Cryptographic Domain Parameters", "Certificate Type", "Certificate Length",
    "X.509 Certificate Identifier", "X.509 Certificate Subject", "X.509 Certificate Issuer",
    "Certificate Identifier", "Certificate Subject", "Certificate Issuer", "Digital Signature Algorithm",
    "Digest", "Operation Policy Name", "Cryptographic Usage Mask", "Lease Time", "Usage Limits", "State",
    "Initial Date", "Activation Date", "Process Start Date", "Protect Stop Date", "Deactivation Date",
    "Destroy Date", "Compromise Occurrence Date", "Compromise Date", "Revocation Reason", "Archive Date",
    "Object Group", "Fresh", "Link", "Application Specific Information", "Contact Information",
    "Last Change Date", "Custom Attribute", "Sensitive"]


def extra_policies():
    """A few user policies with preset / groups sections and missing entries."""
    T = ["SymmetricKey", "SecretData", "OpaqueData", "PublicKey", "PrivateKey", "Certificate"]
    OPS = ["Get", "GetAttributes", "GetAttributeList", "Locate", "Activate", "Revoke", "Destroy",
           "ModifyAttribute", "DeleteAttribute", "SetAttribute"]
    def sec(perm, types=T, ops=OPS):
        return [{"t": t, "op": o, "perm": perm} for t in types for o in ops]
    return [
        {"name": "open", "preset": sec("AllowAll"), "groups": None},
        {"name": "closed", "preset": sec("DisallowAll"), "groups": None},
        {"name": "grouped", "preset": sec("AllowOwner"),
         "groups": {"gA": sec("AllowAll", ops=["Get", "GetAttributes", "Locate", "GetAttributeList"]),
                    "gB": sec("AllowOwner")}},
        {"name": "groupsonly", "preset": None, "groups": {"gA": sec("AllowAll")}},
        # entries missing for some types / operations
        {"name": "partial", "preset": sec("AllowAll", types=["SymmetricKey"], ops=["Get", "Locate"])
         + sec("AllowOwner", types=["SymmetricKey"], ops=["Destroy", "Activate"]), "groups": None},
    ]


class Gen(object):
    def __init__(self, seed, users=("alice", "bob"), versions=None, policies=None, idents=None,
                 weights=None, ops=None):
        self.r = random.Random(seed)
        self.users = list(users)
        self.versions = versions or [(1, 2)]
        self.policy_names = policies or ["default"]
        self.idents = idents       # list of (user, groups) or None -> users without groups
        self.live = []             # uids believed live
        self.dead = []
        self.maxuid = 0
        self.w = weights or {}
        self.ops = ops

    # -- pools -------------------------------------------------------------
    def ident(self):
        if self.idents:
            return self.r.choice(self.idents)
        return (self.r.choice(self.users), None)

    def uid(self):
        r = self.r.random()
        if self.live and r < 0.04:
            # text that is NOT the identifier of any object, although a lenient store would read it as one
            u = self.r.choice(self.live)
            return self.r.choice(["0%d", " %d", "%d.0", "+%d", "%de0", "%d "]) % u
        if self.live and r < 0.75:
            return self.r.choice(self.live)
        if self.dead and r < 0.9:
            return self.r.choice(self.dead)
        if r < 0.95:
            return self.maxuid + 1 + self.r.randrange(3)
        return 0

    def mask(self):
        r = self.r.random()
        if r < 0.1:
            # only bits that grant none of the server's operations (among them the KMIP 2.0 "Unrestricted" flag)
            return sorted(self.r.sample(RAREBITS, self.r.randrange(1, 4)) + (["EXPORT"] if self.r.random() < 0.5 else []))
        if r < 0.2:
            return []
        if r < 0.5:
            return [self.r.choice(ALLBITS)]
        if r < 0.8:
            return list(ALLBITS)
        return sorted(self.r.sample(ALLBITS, self.r.randrange(1, 4)))

    def extra_attrs(self, otype, ver):
        out = []
        r = self.r
        n = r.choice([0, 0, 1, 1, 2, 3])
        used = set()
        for i in range(n):
            nm = r.choice(NAMES)
            if nm in used and r.random() < 0.8:
                continue
            used.add(nm)
            out.append({"name": "Name", "idx": i if r.random() < 0.9 else -1, "v": nm})
        for i in range(r.choice([0, 0, 1, 2])):
            out.append({"name": "Object Group", "idx": i, "v": r.choice(["og1", "og2"])})
        for i in range(r.choice([0, 0, 1, 2])):
            out.append({"name": "Application Specific Information", "idx": i,
                        "v": [r.choice(["ns1", "ns2"]), r.choice(["d1", "d2"])]})
        if r.random() < 0.5 and len(self.policy_names) > 0:
            out.append({"name": "Operation Policy Name", "v": r.choice(self.policy_names)})
        if r.random() < 0.2:
            out.append({"name": "Sensitive", "v": r.random() < 0.7})
        if r.random() < 0.05:
            out.append({"name": r.choice(["Contact Information", "x-custom"]), "v": "zz"})
        return out

    # -- requests ----------------------------------------------------------
    def create(self, ver):
        a = [{"name": "Cryptographic Algorithm", "v": self.r.choice(["AES", "AES", "TRIPLE_DES"])},
             {"name": "Cryptographic Length", "v": self.r.choice([128, 256, 192, 64, 100])},
             {"name": "Cryptographic Usage Mask", "v": self.mask()}] + self.extra_attrs("SymmetricKey", ver)
        if self.r.random() < 0.08:
            del a[self.r.randrange(3)]
        return ("Create", {"otype": "SymmetricKey" if self.r.random() < 0.95 else "SecretData", "attrs": a})

    def register(self, ver):
        t = self.r.choice(STORED)
        obj = {"type": t, "val": self.r.choice(["k16", "k32", "pw"])}
        if t == "SymmetricKey":
            obj.update(alg="AES", len=128 if obj["val"] == "k16" else 256, fmt="RAW")
            if obj["val"] == "pw":
                obj["val"] = "k16"
        elif t in ("PublicKey", "PrivateKey", "SplitKey") and self.r.random() < 0.3:
            # a key of another kind whose material would do as an AES key: kind checks must refuse it
            obj.update(alg="AES", len=128, fmt="RAW", val="k16")
        elif t in ("PublicKey", "PrivateKey"):
            obj.update(alg="RSA", len=1024, fmt="PKCS_1" if t == "PublicKey" else "PKCS_8",
                       val="rsapub" if t == "PublicKey" else "rsapriv")
        if t == "SplitKey" and self.r.random() < 0.3:
            # a prime field size (a Big Integer): small, or beyond 64 bits
            obj.update(prime=A.SMALL_PRIME if self.r.random() < 0.5 else A.BIG_PRIME, smethod="POLYNOMIAL_SHARING_PRIME_FIELD")
        if "alg" in obj and self.r.random() < 0.06:
            # the key block's optional fields: algorithm / length left out
            obj.pop(self.r.choice(["alg", "len"]))
        attrs = self.extra_attrs(t, ver)
        if t != "OpaqueData" and self.r.random() < 0.85:
            attrs.insert(0, {"name": "Cryptographic Usage Mask", "v": self.mask()})
        return ("Register", {"otype": t, "attrs": attrs, "obj": obj})

    def ckp(self, ver):
        common = [{"name": "Cryptographic Algorithm", "v": "RSA"}, {"name": "Cryptographic Length", "v": 1024}]
        priv = [{"name": "Cryptographic Usage Mask", "v": self.r.choice([["SIGN"], [], ["SIGN", "DERIVE_KEY"]])}]
        pub = [{"name": "Cryptographic Usage Mask", "v": self.r.choice([["VERIFY"], []])}]
        if self.r.random() < 0.4:
            priv.append({"name": "Name", "idx": 0, "v": self.r.choice(NAMES)})
        k = self.r.random()
        if k < 0.12:      # private template rejected after the public key was set up
            priv += [{"name": "Name", "idx": 1, "v": "dup"}, {"name": "Name", "idx": 2, "v": "dup"}]
        elif k < 0.2:
            pub += [{"name": "Name", "idx": 0, "v": "dup"}, {"name": "Name", "idx": 1, "v": "dup"}]
        elif k < 0.25:
            priv.append({"name": "Contact Information", "v": "me"})
        elif k < 0.3:
            priv.append({"name": "Cryptographic Length", "v": 2048})
        if self.r.random() < 0.3:
            common.append({"name": "Operation Policy Name", "v": self.r.choice(self.policy_names)})
        return ("CreateKeyPair", {"common": common, "priv": priv, "pub": pub})

    def locate(self, ver):
        fs = []
        r = self.r
        for _ in range(r.choice([0, 0, 1, 1, 2, 3])):
            k = r.randrange(13)
            if k == 0:
                fs.append({"name": "Name", "v": r.choice(NAMES)})
            elif k == 1:
                fs.append({"name": "State", "v": r.choice(["PreActive", "Active", "Deactivated", "Compromised"])})
            elif k == 2:
                fs.append({"name": "Object Type", "v": r.choice(STORED)})
            elif k == 3:
                fs.append({"name": "Cryptographic Algorithm", "v": r.choice(["AES", "RSA"])})
            elif k == 4:
                fs.append({"name": "Cryptographic Length", "v": r.choice([128, 256, 1024])})
            elif k == 5:
                fs.append({"name": "Cryptographic Usage Mask", "v": self.mask()[:2]})
            elif k == 6:
                fs.append({"name": "Operation Policy Name", "v": r.choice(self.policy_names)})
            elif k == 7:
                fs.append({"name": "Object Group", "v": r.choice(["og1", "og2"])})
            elif k == 8:
                fs.append({"name": "Application Specific Information", "v": [r.choice(["ns1", "ns2"]), r.choice(["d1", "d2"])]})
            elif k == 9:
                fs.append({"name": "Certificate Type", "v": "X_509"})
            elif k == 10:
                fs.append({"name": "Unique Identifier", "v": str(self.uid())})
            elif k == 11:
                fs.append({"name": "Sensitive", "v": r.random() < 0.5})      # under every version: before 1.4 it must be refused
            else:
                fs.append({"name": "Initial Date", "v": int(D.CLOCK.now) - r.randrange(0, 12) if r.random() < 0.92
                           else r.choice([0, 253402300800, 10 ** 17, 2 ** 31 - 1])})      # also dates far outside the calendar
        p = {"filters": fs}
        if r.random() < 0.35:
            p["offset"] = r.randrange(0, 4) if r.random() < 0.9 else r.choice([-2, -3])      # (-1 stands for "absent")
        if r.random() < 0.35:
            p["max"] = r.randrange(0, 4) if r.random() < 0.9 else r.choice([-2, -3])
        return ("Locate", p)

    def attr_op(self, ver):
        r = self.r
        u = self.uid()
        v2 = tuple(ver) >= (2, 0)
        name = r.choice(["Name", "Name", "Object Group", "Application Specific Information", "Sensitive",
                         "Operation Policy Name", "Cryptographic Usage Mask", "State", "Cryptographic Length",
                         "Cryptographic Algorithm", "Initial Date", "Object Type", "Unique Identifier",
                         "Contact Information", "Activation Date"])
        def val(n):
            return {"Name": r.choice(NAMES), "Object Group": r.choice(["og1", "og2", "og3"]),
                    "Application Specific Information": [r.choice(["ns1", "ns2"]), r.choice(["d1", "d2", "d3"])],
                    "Sensitive": r.random() < 0.5, "Operation Policy Name": r.choice(self.policy_names + ["public"]),
                    "Cryptographic Usage Mask": self.mask(), "State": "Active", "Cryptographic Length": 256,
                    "Cryptographic Algorithm": "AES", "Initial Date": 5, "Object Type": "SecretData",
                    "Unique Identifier": "77", "Contact Information": "me", "Activation Date": 7}[n]
        k = r.random()
        if k < 0.4:
            if v2:
                cur = {"name": name, "v": val(name)} if r.random() < 0.7 else None
                return ("ModifyAttribute", {"uid": u, "cur": cur, "new": {"name": name, "v": val(name)}})
            idx = r.choice([-1, 0, 0, 1, 2, 5])
            return ("ModifyAttribute", {"uid": u, "attr": {"name": name, "idx": idx, "v": val(name)}})
        if k < 0.8:
            if v2:
                if r.random() < 0.6:
                    return ("DeleteAttribute", {"uid": u, "cur": {"name": name, "v": val(name)}, "ref": None})
                return ("DeleteAttribute", {"uid": u, "cur": None, "ref": name if r.random() < 0.9 else None})
            return ("DeleteAttribute", {"uid": u, "name": name, "idx": r.choice([-99, 0, 0, 1, 2, 5])})
        return ("SetAttribute", {"uid": u, "new": {"name": name, "v": val(name)}})

    def simple(self, op):
        u = self.uid()
        if op == "Revoke":
            return (op, {"uid": u, "code": self.r.choice(CODES) if self.r.random() < 0.95 else None})
        if op in ("Encrypt", "Decrypt"):
            return (op, {"uid": u, "cp": {"alg": "AES", "mode": "CBC", "pad": "PKCS5"} if self.r.random() < 0.9 else None,
                         "data": "00" * 16, "iv": "00" * 16})
        if op == "Sign":
            return (op, {"uid": u, "cp": {"pad": "PSS", "dsa": "SHA256_WITH_RSA_ENCRYPTION"}, "data": "0011"})
        if op == "SignatureVerify":
            return (op, {"uid": u, "cp": {"pad": "PSS", "dsa": "SHA256_WITH_RSA_ENCRYPTION"}, "data": "0011", "sig": "00" * 128})
        if op == "MAC":
            return (op, {"uid": u, "cp": {"alg": "HMAC_SHA256"} if self.r.random() < 0.8 else None,
                         "data": "0011" if self.r.random() < 0.9 else None})
        if op == "Get":
            p = {"uid": u}
            k = self.r.random()
            if k < 0.25:
                p["wrap"] = {"kuid": self.uid(), "mode": "NIST_KEY_WRAP"}
                if self.r.random() < 0.15:
                    p["wrap"]["nocp"] = True          # key information without cryptographic parameters
            elif k < 0.3:
                p["fmt"] = self.r.choice(["RAW", "PKCS_1"])
            return (op, p)
        if op == "GetAttributes":
            names = []
            if self.r.random() < 0.3:
                names = self.r.sample(ALL_ATTR_NAMES, 3)
            return (op, {"uid": u, "names": names})
        if op == "DeriveKey":
            return (op, {"otype": self.r.choice(["SymmetricKey", "SecretData"]), "uids": [u],
                         "method": "HMAC", "dp": {"cp": {"hash": "SHA_256"}, "data": "0011"},
                         "attrs": [{"name": "Cryptographic Algorithm", "v": "AES"},
                                   {"name": "Cryptographic Length", "v": 128},
                                   {"name": "Cryptographic Usage Mask", "v": self.mask()}]})
        if op == "Query":
            return (op, {})
        if op == "DiscoverVersions":
            return (op, {"versions": self.r.sample(VERSIONS + BADVERSIONS, self.r.randrange(0, 4))})
        return (op, {"uid": u})

    def item(self, ver):
        ops = self.ops or ["Create", "Register", "CreateKeyPair", "Activate", "Revoke", "Destroy", "Get",
                           "GetAttributes", "GetAttributeList", "Locate", "Encrypt", "Decrypt", "Sign",
                           "SignatureVerify", "MAC", "Attr", "DeriveKey", "Query", "DiscoverVersions", "Rekey"]
        ws = [self.w.get(o, 1.0) for o in ops]
        op = self.r.choices(ops, ws)[0]
        if op == "Create":
            return self.create(ver)
        if op == "Register":
            return self.register(ver)
        if op == "CreateKeyPair":
            return self.ckp(ver)
        if op == "Locate":
            return self.locate(ver)
        if op == "Attr":
            return self.attr_op(ver)
        return self.simple(op)

    def request(self, batch_p=0.25):
        user, groups = self.ident()
        ver = self.r.choice(self.versions)
        n = 1
        if self.r.random() < batch_p:
            n = self.r.randrange(2, 5)
        items = []
        for k in range(n):
            op, p = self.item(ver)
            if k > 0 and "uid" in p and self.r.random() < 0.5:
                p["uid"] = 0          # address the object created earlier in this batch
            bid = "b%d" % k if (n > 1 and self.r.random() < 0.93) or self.r.random() < 0.2 else ""
            items.append({"op": op, "bid": bid, "p": p})
        opt = self.r.choices(["None", "Stop", "Continue", "Undo"], [4, 2, 4, 0.3])[0]
        req = {"user": user, "groups": groups, "ver": list(ver), "opt": opt, "items": items}
        k = self.r.random()
        if k < 0.03:
            req["ts"] = self.r.choice([0, -5, -100, 50])
        elif k < 0.05:
            req["async"] = True
        return req

    def observe(self, res, state):
        """update the pools from the real state."""
        live = [o["uid"] for o in state["objs"]]
        for u in self.live:
            if u not in live and u not in self.dead:
                self.dead.append(u)
        self.live = live
        self.maxuid = max([self.maxuid, state["seq"]] + live)
