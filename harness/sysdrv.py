"""The whole system on loopback: a real KmipServer (configuration file -> TLS socket -> KmipSession threads -> KmipEngine,
policy directory monitor process) in a child process, real ProxyKmipClient objects over real TLS in this one.

Python 3.12 has no ssl.wrap_socket (the two failing tests of the baseline): the harness supplies an equivalent built on
SSLContext - in the harness's processes only, nothing is written to /repo.  SLUGS is scripted by replacing requests.get in
the server process; what each host answers is read from a JSON file the parent may rewrite between requests."""
import datetime
import json
import multiprocessing
import os
import signal
import socket
import ssl
import sys
import time

from . import common

common.use_repo()

from cryptography import x509  # noqa
from cryptography.hazmat.primitives import hashes, serialization  # noqa
from cryptography.hazmat.primitives.asymmetric import ec  # noqa
from cryptography.x509.oid import NameOID, ExtendedKeyUsageOID  # noqa


def install_wrap_socket():
    if hasattr(ssl, "wrap_socket"):
        return

    def wrap_socket(sock, keyfile=None, certfile=None, server_side=False, cert_reqs=ssl.CERT_NONE,
                    ssl_version=None, ca_certs=None, do_handshake_on_connect=True,
                    suppress_ragged_eofs=True, ciphers=None):
        ctx = ssl.SSLContext(ssl.PROTOCOL_TLS_SERVER if server_side else ssl.PROTOCOL_TLS_CLIENT)
        ctx.check_hostname = False
        ctx.verify_mode = cert_reqs
        if certfile:
            ctx.load_cert_chain(certfile, keyfile)
        if ca_certs:
            ctx.load_verify_locations(ca_certs)
        if ciphers:
            try:
                ctx.set_ciphers(ciphers)
            except ssl.SSLError:
                pass                       # TLS 1.3 suites are negotiated regardless
        return ctx.wrap_socket(sock, server_side=server_side, do_handshake_on_connect=do_handshake_on_connect,
                               suppress_ragged_eofs=suppress_ragged_eofs)
    ssl.wrap_socket = wrap_socket


# ---------------------------------------------------------------- certificates

def _name(cns, org="verif"):
    attrs = [x509.NameAttribute(NameOID.ORGANIZATION_NAME, org)]
    for n in cns:
        attrs.append(x509.NameAttribute(NameOID.COMMON_NAME, n))
    return x509.Name(attrs)


def make_pki(d):
    """CA, server certificate, and a function issuing client certificates (PEM files under d)."""
    os.makedirs(d, exist_ok=True)
    cak = ec.generate_private_key(ec.SECP256R1())
    can = _name(["verif-ca"])
    now = datetime.datetime(2020, 1, 1)
    ca = (x509.CertificateBuilder().subject_name(can).issuer_name(can).public_key(cak.public_key()).serial_number(1)
          .not_valid_before(now).not_valid_after(datetime.datetime(2040, 1, 1))
          .add_extension(x509.BasicConstraints(ca=True, path_length=None), critical=True).sign(cak, hashes.SHA256()))
    open(os.path.join(d, "ca.pem"), "wb").write(ca.public_bytes(serialization.Encoding.PEM))
    serial = [10]

    def issue(fname, cns, eku):
        k = ec.generate_private_key(ec.SECP256R1())
        serial[0] += 1
        b = (x509.CertificateBuilder().subject_name(_name(cns)).issuer_name(can).public_key(k.public_key())
             .serial_number(serial[0]).not_valid_before(now).not_valid_after(datetime.datetime(2040, 1, 1)))
        if eku == "client":
            b = b.add_extension(x509.ExtendedKeyUsage([ExtendedKeyUsageOID.CLIENT_AUTH]), critical=False)
        elif eku == "server":
            b = b.add_extension(x509.ExtendedKeyUsage([ExtendedKeyUsageOID.SERVER_AUTH]), critical=False)
        elif eku == "other":
            b = b.add_extension(x509.ExtendedKeyUsage([ExtendedKeyUsageOID.CODE_SIGNING]), critical=False)
        elif eku == "lookalike":
            b = b.add_extension(x509.ExtendedKeyUsage([x509.ObjectIdentifier(o) for o in
                                                       ("1.3.6.1.5.5.7.3.21", "1.3.6.1.5.5.7.3.20", "1.3.6.1.5.5.7.3.1")]), critical=False)
        elif eku == "any":
            b = b.add_extension(x509.ExtendedKeyUsage([x509.ObjectIdentifier("2.5.29.37.0"), ExtendedKeyUsageOID.CODE_SIGNING]), critical=False)
        if fname == "server":
            b = b.add_extension(x509.SubjectAlternativeName([x509.DNSName("localhost")]), critical=False)
        c = b.sign(cak, hashes.SHA256())
        cp, kp = os.path.join(d, fname + ".pem"), os.path.join(d, fname + ".key")
        open(cp, "wb").write(c.public_bytes(serialization.Encoding.PEM))
        open(kp, "wb").write(k.private_bytes(serialization.Encoding.PEM, serialization.PrivateFormat.TraditionalOpenSSL,
                                              serialization.NoEncryption()))
        return cp, kp
    issue("server", ["localhost"], "server")
    return issue


# ---------------------------------------------------------------- the server process

def free_port():
    s = socket.socket()
    s.bind(("127.0.0.1", 0))
    p = s.getsockname()[1]
    s.close()
    return p


def _listening(port):
    """Is some socket of this machine listening on the TCP port (read from /proc, so that no stray connection is made)?"""
    want = "%04X" % port
    for f in ("/proc/net/tcp", "/proc/net/tcp6"):
        try:
            for line in open(f).readlines()[1:]:
                c = line.split()
                if c[3] == "0A" and c[1].rsplit(":", 1)[1] == want:
                    return True
        except (OSError, IndexError):
            pass
    return False


def _server_main(conf, logp, slugs_file, ready):
    # own session / process group (so that the whole family - server, policy monitor, manager - can be removed at once) and
    # no share in the check's standard streams (a process left behind must never keep the check's output pipe open)
    try:
        os.setsid()
    except OSError:
        pass
    try:
        fd = os.open(os.devnull, os.O_RDWR)
        for k in (0, 1, 2):
            os.dup2(fd, k)
    except OSError:
        pass
    install_wrap_socket()
    import logging
    from kmip.services.server import server as server_mod
    from kmip.services.server.auth import slugs as slugs_mod

    def fake_get(url, timeout=None, **kw):
        try:
            behaviour = json.load(open(slugs_file))
        except Exception:
            behaviour = {}
        host = url.split("/")[2]
        kind = behaviour.get(host, "unreachable")
        is_groups = url.rstrip("/").endswith("/groups")

        class R(object):
            status_code = 200

            def json(self_inner):
                return {"groups": ["grp-" + host]}
        r = R()
        if kind == "unreachable":
            raise IOError("connection refused")
        if kind == "user404" and not is_groups:
            r.status_code = 404
        if kind == "groups404" and is_groups:
            r.status_code = 404
        if kind == "user500" and not is_groups:
            r.status_code = 500
        if kind == "all403":
            r.status_code = 403
        if kind == "badjson" and is_groups:
            def bad():
                raise ValueError("No JSON object could be decoded")
            r.json = bad
        return r
    slugs_mod.requests.get = fake_get
    srv = server_mod.KmipServer(config_path=conf, log_path=logp, live_policies=True)
    srv._logger.setLevel(logging.INFO)
    try:
        srv.start()
        ready.set()
        srv.serve()
    finally:
        try:
            srv.stop()
        except Exception:
            pass


class System(object):
    """One configured server + its files.  settings: enable_tls_client_auth (bool), plugins: [(section name, enabled, host)]."""

    def __init__(self, root, tls_client_auth=True, plugins=(), issue=None):
        install_wrap_socket()
        self.root = root
        os.makedirs(root, exist_ok=True)
        self.pki = os.path.join(os.path.dirname(root), "pki") if issue else os.path.join(root, "pki")
        self.issue = issue or make_pki(self.pki)
        self.policy_dir = os.path.join(root, "policies")
        os.makedirs(self.policy_dir, exist_ok=True)
        self.port = free_port()
        self.db = os.path.join(root, "pykmip.db")
        self.slugs_file = os.path.join(root, "slugs.json")
        json.dump({}, open(self.slugs_file, "w"))
        self.conf = os.path.join(root, "server.conf")
        lines = ["[server]", "hostname=127.0.0.1", "port=%d" % self.port,
                 "certificate_path=%s" % os.path.join(self.pki, "server.pem"), "key_path=%s" % os.path.join(self.pki, "server.key"),
                 "ca_path=%s" % os.path.join(self.pki, "ca.pem"), "auth_suite=TLS1.2", "policy_path=%s" % self.policy_dir,
                 "enable_tls_client_auth=%s" % ("True" if tls_client_auth else "False"),
                 "tls_cipher_suites=", "logging_level=INFO", "database_path=%s" % self.db]
        for (name, enabled, host) in plugins:
            lines += ["", "[%s]" % name, "enabled=%s" % ("True" if enabled else "False"), "url=http://%s/" % host]
        open(self.conf, "w").write("\n".join(lines) + "\n")
        self.proc = None

    def set_slugs(self, behaviour):
        tmp = self.slugs_file + ".tmp"
        json.dump(behaviour, open(tmp, "w"))
        os.replace(tmp, self.slugs_file)

    def start(self, timeout=60):
        ctx = multiprocessing.get_context("fork")
        ready = ctx.Event()
        self.proc = ctx.Process(target=_server_main, args=(self.conf, os.path.join(self.root, "server.log"), self.slugs_file, ready))
        self.proc.daemon = False
        self.proc.start()
        if not ready.wait(timeout):
            self.stop()
            raise common.MachineryFailure("the KmipServer child did not come up: %s" % self.log_tail())
        # ready is set after KmipServer.start(); the socket starts listening in serve(), a moment later
        t0 = time.time()
        while not _listening(self.port):
            if time.time() - t0 > timeout or not self.proc.is_alive():
                self.stop()
                raise common.MachineryFailure("the KmipServer child does not listen: %s" % self.log_tail())
            time.sleep(0.02)
        return self

    def log_tail(self, n=12):
        try:
            return "".join(open(os.path.join(self.root, "server.log")).readlines()[-n:])
        except OSError:
            return ""

    def stop(self):
        if self.proc is not None and self.proc.is_alive():
            os.kill(self.proc.pid, signal.SIGTERM)
            try:                          # wake the accept() call so that the serve loop sees the flag at once
                socket.create_connection(("127.0.0.1", self.port), timeout=2).close()
            except OSError:
                pass
            self.proc.join(15)
        if self.proc is not None:
            # whatever is left of the family (the server itself if it did not stop, its monitor and manager processes)
            try:
                os.killpg(self.proc.pid, signal.SIGKILL)
            except (OSError, ProcessLookupError):
                pass
            self.proc.join(5)
        self.proc = None

    def client(self, cert, key, ver=None, username=None, password=None):
        from kmip.pie import client as pie_client
        from kmip.core import enums
        conf = os.path.join(self.root, "client.conf")
        if not os.path.exists(conf):
            open(conf, "w").write("[client]\nhost=127.0.0.1\nport=%d\n" % self.port)
        kw = {}
        if ver is not None:
            kw["kmip_version"] = {(1, 0): enums.KMIPVersion.KMIP_1_0, (1, 1): enums.KMIPVersion.KMIP_1_1, (1, 2): enums.KMIPVersion.KMIP_1_2,
                                  (1, 3): enums.KMIPVersion.KMIP_1_3, (1, 4): enums.KMIPVersion.KMIP_1_4,
                                  (2, 0): enums.KMIPVersion.KMIP_2_0}[tuple(ver)]
        return pie_client.ProxyKmipClient(hostname="127.0.0.1", port=self.port, cert=cert, key=key,
                                          ca=os.path.join(self.pki, "ca.pem"), ssl_version="PROTOCOL_TLS",
                                          username=username, password=password, config="client", config_file=conf, **kw)
