from .. import schemabind as B, schemagen as G  # noqa

objects = B.objects

# B.WRAP[(cls, field)] = lambda plain_value: object        constructor takes a primitive object instead of a plain value
# B.KW[(cls, field)] = "keyword"                           constructor keyword differs from the field name
# B.GET[(cls, field)] = "attribute"                        attribute to read back differs from the field name
# B.BUILD[cls] = lambda kwargs, val: object                the generic cls(**kwargs) cannot build the object
# G.UNIONS[(cls, field)] = [class names]                   candidate classes of a union field
# G.FIELD_POOL[(cls, field)] = [abstract values] | f(ver)  values of a field when the kind's pool does not fit
# G.HOOKS[cls] = lambda gen, val, ver, depth: val          consistency between fields of a generated value

B.WRAP.update({
    ("ExtensionInformation", "extension_name"): lambda v: objects.ExtensionName(v),
    ("ExtensionInformation", "extension_tag"): lambda v: objects.ExtensionTag(v),
    ("ExtensionInformation", "extension_type"): lambda v: objects.ExtensionType(v),
})


G.FIELD_POOL[("QueryResponsePayload", "protection_storage_masks")] = [G.num(x) for x in (1, 2, 3, 0x200, 0x3FFF)]
