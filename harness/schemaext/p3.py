from .. import schemabind as B, schemagen as G  # noqa

# B.WRAP[(cls, field)] = lambda plain_value: object        constructor takes a primitive object instead of a plain value
# B.KW[(cls, field)] = "keyword"                           constructor keyword differs from the field name
# B.GET[(cls, field)] = "attribute"                        attribute to read back differs from the field name
# B.BUILD[cls] = lambda kwargs, val: object                the generic cls(**kwargs) cannot build the object
# G.UNIONS[(cls, field)] = [class names]                   candidate classes of a union field
# G.FIELD_POOL[(cls, field)] = [abstract values] | f(ver)  values of a field when the kind's pool does not fit
# G.HOOKS[cls] = lambda gen, val, ver, depth: val          consistency between fields of a generated value

# Attribute operations (Get Attributes, Get Attribute List, Modify / Set / Delete Attribute).
#
# Two payload classes have ONE constructor argument whose encoding depends on the KMIP version:
#     GetAttributesRequestPayload.attribute_names      1.x Attribute Name text strings | 2.0 Attribute Reference enumerations
#     GetAttributeListResponsePayload.attribute_names  (same)
# The schema states the two shapes as two fields gated by version (attribute_names / attribute_references).  The
# binding maps both onto the one argument: BUILD turns the 2.0 field's value into the names the caller passes, B.GET
# computes the 2.0 field from the decoded object's public attribute_names.  The name <-> tag correspondence used is the
# schema's own AttrRule table (SchemaBase.tla), not the library's conversion table.
# (GetAttributesResponsePayload.attributes - Attribute structures under 1.x, one Attributes structure under 2.0 - is
# kind "attrs".)

from kmip.core import enums, objects  # noqa: E402
from kmip.core.messages.payloads import get_attributes, get_attribute_list  # noqa: E402


# The standard attribute names of KMIP 2.0 by tag identifier (section 4 / the tag table of the specification), pinned
# against the unchanged tree.  AttrRule (SchemaBase.tla) covers the 33 attributes whose VALUES the library implements; an
# attribute REFERENCE only needs the name, so the reference fields range over all of these.
STD_ATTRIBUTE_NAMES = {
    'ACTIVATION_DATE': 'Activation Date',
    'ALTERNATIVE_NAME': 'Alternative Name',
    'ALWAYS_SENSITIVE': 'Always Sensitive',
    'APPLICATION_SPECIFIC_INFORMATION': 'Application Specific Information',
    'ARCHIVE_DATE': 'Archive Date',
    'ATTRIBUTE': 'Attribute',
    'CERTIFICATE_IDENTIFIER': 'Certificate Identifier',
    'CERTIFICATE_ISSUER': 'Certificate Issuer',
    'CERTIFICATE_ISSUER_C': 'Certificate Issuer C',
    'CERTIFICATE_ISSUER_CN': 'Certificate Issuer CN',
    'CERTIFICATE_ISSUER_DC': 'Certificate Issuer DC',
    'CERTIFICATE_ISSUER_DN_QUALIFIER': 'Certificate Issuer DN Qualifier',
    'CERTIFICATE_ISSUER_EMAIL': 'Certificate Issuer Email',
    'CERTIFICATE_ISSUER_L': 'Certificate Issuer L',
    'CERTIFICATE_ISSUER_O': 'Certificate Issuer O',
    'CERTIFICATE_ISSUER_OU': 'Certificate Issuer OU',
    'CERTIFICATE_ISSUER_SERIAL_NUMBER': 'Certificate Issuer Serial Number',
    'CERTIFICATE_ISSUER_ST': 'Certificate Issuer ST',
    'CERTIFICATE_ISSUER_TITLE': 'Certificate Issuer Title',
    'CERTIFICATE_ISSUER_UID': 'Certificate Issuer UID',
    'CERTIFICATE_LENGTH': 'Certificate Length',
    'CERTIFICATE_SUBJECT': 'Certificate Subject',
    'CERTIFICATE_SUBJECT_C': 'Certificate Subject C',
    'CERTIFICATE_SUBJECT_CN': 'Certificate Subject CN',
    'CERTIFICATE_SUBJECT_DC': 'Certificate Subject DC',
    'CERTIFICATE_SUBJECT_DN_QUALIFIER': 'Certificate Subject DN Qualifier',
    'CERTIFICATE_SUBJECT_EMAIL': 'Certificate Subject Email',
    'CERTIFICATE_SUBJECT_L': 'Certificate Subject L',
    'CERTIFICATE_SUBJECT_O': 'Certificate Subject O',
    'CERTIFICATE_SUBJECT_OU': 'Certificate Subject OU',
    'CERTIFICATE_SUBJECT_SERIAL_NUMBER': 'Certificate Subject Serial Number',
    'CERTIFICATE_SUBJECT_ST': 'Certificate Subject ST',
    'CERTIFICATE_SUBJECT_TITLE': 'Certificate Subject Title',
    'CERTIFICATE_SUBJECT_UID': 'Certificate Subject UID',
    'CERTIFICATE_TYPE': 'Certificate Type',
    'COMMENT': 'Comment',
    'COMPROMISE_DATE': 'Compromise Date',
    'COMPROMISE_OCCURRENCE_DATE': 'Compromise Occurrence Date',
    'CONTACT_INFORMATION': 'Contact Information',
    'CRYPTOGRAPHIC_ALGORITHM': 'Cryptographic Algorithm',
    'CRYPTOGRAPHIC_DOMAIN_PARAMETERS': 'Cryptographic Domain Parameters',
    'CRYPTOGRAPHIC_LENGTH': 'Cryptographic Length',
    'CRYPTOGRAPHIC_PARAMETERS': 'Cryptographic Parameters',
    'CRYPTOGRAPHIC_USAGE_MASK': 'Cryptographic Usage Mask',
    'CUSTOM_ATTRIBUTE': 'Custom Attribute',
    'DEACTIVATION_DATE': 'Deactivation Date',
    'DESCRIPTION': 'Description',
    'DESTROY_DATE': 'Destroy Date',
    'DIGEST': 'Digest',
    'DIGITAL_SIGNATURE_ALGORITHM': 'Digital Signature Algorithm',
    'EXTRACTABLE': 'Extractable',
    'FRESH': 'Fresh',
    'INITIAL_DATE': 'Initial Date',
    'KEY_FORMAT_TYPE': 'Key Format Type',
    'KEY_VALUE_LOCATION': 'Key Value Location',
    'KEY_VALUE_PRESENT': 'Key Value Present',
    'LAST_CHANGE_DATE': 'Last Change Date',
    'LEASE_TIME': 'Lease Time',
    'LINK': 'Link',
    'NAME': 'Name',
    'NEVER_EXTRACTABLE': 'Never Extractable',
    'NIST_KEY_TYPE': 'NIST Key Type',
    'OBJECT_GROUP': 'Object Group',
    'OBJECT_TYPE': 'Object Type',
    'OPAQUE_DATA_TYPE': 'Opaque Data Type',
    'OPERATION_POLICY_NAME': 'Operation Policy Name',
    'ORIGINAL_CREATION_DATE': 'Original Creation Date',
    'PKCS12_FRIENDLY_NAME': 'PKCS#12 Friendly Name',
    'PROCESS_START_DATE': 'Process Start Date',
    'PROTECT_STOP_DATE': 'Protect Stop Date',
    'PROTECTION_LEVEL': 'Protection Level',
    'PROTECTION_PERIOD': 'Protection Period',
    'PROTECTION_STORAGE_MASK': 'Protection Storage Mask',
    'QUANTUM_SAFE': 'Quantum Safe',
    'RANDOM_NUMBER_GENERATOR': 'Random Number Generator',
    'REVOCATION_REASON': 'Revocation Reason',
    'SENSITIVE': 'Sensitive',
    'SHORT_UNIQUE_IDENTIFIER': 'Short Unique Identifier',
    'STATE': 'State',
    'UNIQUE_IDENTIFIER': 'Unique Identifier',
    'USAGE_LIMITS': 'Usage Limits',
    'X_509_CERTIFICATE_IDENTIFIER': 'X.509 Certificate Identifier',
    'X_509_CERTIFICATE_ISSUER': 'X.509 Certificate Issuer',
    'X_509_CERTIFICATE_SUBJECT': 'X.509 Certificate Subject',
}
_STD_BY_NAME = {v: k for k, v in STD_ATTRIBUTE_NAMES.items()}


def _name_of_tag(tag):
    """Attribute name of a Tags member per AttrRule, else per the standard name table."""
    n = B.attr_name_by_tag(tag) or STD_ATTRIBUTE_NAMES.get(tag.name)
    if n is None:
        raise ValueError("no attribute with tag %s" % tag.name)
    return n


def _tags_of_names(names):
    """Tags members of attribute names; names without a standard tag have no 2.0 enumeration form and are left out of
    the view (a value that had them then fails the round trip comparison, as it should)."""
    rules = B.S()["attr"]
    out = []
    for n in (names or []):
        if n in rules:
            out.append(enums.Tags[rules[n]["t"]])
        elif n in _STD_BY_NAME:
            out.append(enums.Tags[_STD_BY_NAME[n]])
    return out or None


def _names_build(pyc):
    def build(kwargs, val):
        refs = kwargs.pop("attribute_references", None)
        if refs is not None:
            kwargs["attribute_names"] = [_name_of_tag(t) for t in refs]
        return pyc(**kwargs)
    return build


B.GET[("GetAttributesRequestPayload", "attribute_references")] = lambda o: _tags_of_names(o.attribute_names)
B.GET[("GetAttributeListResponsePayload", "attribute_references")] = lambda o: _tags_of_names(o.attribute_names)
B.BUILD["GetAttributesRequestPayload"] = _names_build(get_attributes.GetAttributesRequestPayload)
B.BUILD["GetAttributeListResponsePayload"] = _names_build(get_attribute_list.GetAttributeListResponsePayload)


# --- generator -----------------------------------------------------------------

def _std_names(ver):
    return sorted(n for n, r in B.S()["attr"].items() if r["lo"] <= ver <= r["hi"])


def _name_pool(ver):
    """1.x attribute names: the standard names of the version, custom names, boundary text."""
    names = _std_names(ver) + ["x-custom", "y-Vendor Attribute", "x-" + "n" * 30, "", "a", "é", "日本語"]
    return [list(n.encode("utf-8")) for n in names]


def _ref_pool(ver):
    """2.0 attribute references (enumeration form): the tags of the standard attributes of the version."""
    tags = B.S()["tag"]
    have = set(B.S()["attr"][n]["t"] for n in _std_names(ver))
    rest = [t for t in sorted(STD_ATTRIBUTE_NAMES) if t not in have and t in tags
            and t not in set(r["t"] for r in B.S()["attr"].values())]       # (names AttrRule gates by version stay gated)
    return [G.num(tags[B.S()["attr"][n]["t"]]) for n in _std_names(ver)] + [G.num(tags[t]) for t in rest]


def _distinct(v, field):
    # "the same Attribute Name SHALL NOT be present more than once in a request" (and the library's setter drops
    # duplicates): generated lists have distinct elements
    if field in v:
        seen, out = set(), []
        for e in v[field]:
            k = repr(e)
            if k not in seen:
                seen.add(k)
                out.append(e)
        v[field] = out
    return v


def _names_hook(g, v, ver, depth):
    return _distinct(_distinct(v, "attribute_names"), "attribute_references")


for _c in ("GetAttributesRequestPayload", "GetAttributeListResponsePayload"):
    G.FIELD_POOL[(_c, "attribute_names")] = _name_pool
    G.FIELD_POOL[(_c, "attribute_references")] = _ref_pool
    G.HOOKS[_c] = _names_hook


# --- GetAttributesResponsePayload ---------------------------------------------------

def _get_attributes_response_hook(g, v, ver, depth):
    # KMIP 2.0: the library cannot encode the payload with an empty attribute list (known, pinned by a unit test of the
    # library); the list is generated with at least one attribute
    if ver >= 20 and not v.get("attributes"):
        v["attributes"] = [g.attribute(ver, depth, index=False) for _ in range(g.r.randrange(1, 4))]
    return v


G.HOOKS["GetAttributesResponsePayload"] = _get_attributes_response_hook


# --- DeleteAttributeRequestPayload ----------------------------------------------------

def _delete_attribute_request_hook(g, v, ver, depth):
    # KMIP 2.0: Current Attribute or Attribute Reference identifies the attribute to delete; one of them is present
    if ver >= 20 and "current_attribute" not in v and "attribute_reference" not in v:
        c, n = g.r.choice([("CurrentAttribute", "current_attribute"), ("AttributeReference", "attribute_reference")])
        v[n] = g.obj(c, ver, depth + 1)
    return v


G.HOOKS["DeleteAttributeRequestPayload"] = _delete_attribute_request_hook
G.FIELD_POOL[("DeleteAttributeRequestPayload", "attribute_name")] = _name_pool
G.FIELD_POOL[("DeleteAttributeRequestPayload", "attribute_index")] = [G.num(x) for x in (0, 1, 2, 7, 255, 2 ** 31 - 1)]
