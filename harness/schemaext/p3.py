from .. import schemabind as B, schemagen as G  # noqa

# B.WRAP[(cls, field)] = lambda plain_value: object        constructor takes a primitive object instead of a plain value
# B.KW[(cls, field)] = "keyword"                           constructor keyword differs from the field name
# B.GET[(cls, field)] = "attribute"                        attribute to read back differs from the field name
# B.BUILD[cls] = lambda kwargs, val: object                the generic cls(**kwargs) cannot build the object
# G.UNIONS[(cls, field)] = [class names]                   candidate classes of a union field
# G.FIELD_POOL[(cls, field)] = [abstract values] | f(ver)  values of a field when the kind's pool does not fit
# G.HOOKS[cls] = lambda gen, val, ver, depth: val          consistency between fields of a generated value

# Attribute operations (Get Attributes, Get Attribute List, Modify / Set / Delete Attribute).
#
# Two payload classes have ONE constructor argument whose encoding depends on the KMIP version:
#     GetAttributesRequestPayload.attribute_names      1.x Attribute Name text strings | 2.0 Attribute Reference enumerations
#     GetAttributeListResponsePayload.attribute_names  (same)
# The schema states the two shapes as two fields gated by version (attribute_names / attribute_references).  The
# binding maps both onto the one argument: BUILD turns the 2.0 field's value into the names the caller passes, B.GET
# computes the 2.0 field from the decoded object's public attribute_names.  The name <-> tag correspondence used is the
# schema's own AttrRule table (SchemaBase.tla), not the library's conversion table.
# (GetAttributesResponsePayload.attributes - Attribute structures under 1.x, one Attributes structure under 2.0 - is
# kind "attrs".)

from kmip.core import enums, objects  # noqa: E402
from kmip.core.messages.payloads import get_attributes, get_attribute_list  # noqa: E402


def _name_of_tag(tag):
    """Attribute name of a Tags member per AttrRule."""
    n = B.attr_name_by_tag(tag)
    if n is None:
        raise ValueError("no attribute with tag %s in AttrRule" % tag.name)
    return n


def _tags_of_names(names):
    """Tags members of attribute names per AttrRule; names AttrRule does not know have no 2.0 enumeration form and
    are left out of the view (a value that had them then fails the round trip comparison, as it should)."""
    rules = B.S()["attr"]
    out = [enums.Tags[rules[n]["t"]] for n in (names or []) if n in rules]
    return out or None


def _names_build(pyc):
    def build(kwargs, val):
        refs = kwargs.pop("attribute_references", None)
        if refs is not None:
            kwargs["attribute_names"] = [_name_of_tag(t) for t in refs]
        return pyc(**kwargs)
    return build


B.GET[("GetAttributesRequestPayload", "attribute_references")] = lambda o: _tags_of_names(o.attribute_names)
B.GET[("GetAttributeListResponsePayload", "attribute_references")] = lambda o: _tags_of_names(o.attribute_names)
B.BUILD["GetAttributesRequestPayload"] = _names_build(get_attributes.GetAttributesRequestPayload)
B.BUILD["GetAttributeListResponsePayload"] = _names_build(get_attribute_list.GetAttributeListResponsePayload)


# --- generator -----------------------------------------------------------------

def _std_names(ver):
    return sorted(n for n, r in B.S()["attr"].items() if r["lo"] <= ver <= r["hi"])


def _name_pool(ver):
    """1.x attribute names: the standard names of the version, custom names, boundary text."""
    names = _std_names(ver) + ["x-custom", "y-Vendor Attribute", "x-" + "n" * 30, "", "a", "é", "日本語"]
    return [list(n.encode("utf-8")) for n in names]


def _ref_pool(ver):
    """2.0 attribute references (enumeration form): the tags of the standard attributes of the version."""
    tags = B.S()["tag"]
    return [G.num(tags[B.S()["attr"][n]["t"]]) for n in _std_names(ver)]


def _distinct(v, field):
    # "the same Attribute Name SHALL NOT be present more than once in a request" (and the library's setter drops
    # duplicates): generated lists have distinct elements
    if field in v:
        seen, out = set(), []
        for e in v[field]:
            k = repr(e)
            if k not in seen:
                seen.add(k)
                out.append(e)
        v[field] = out
    return v


def _names_hook(g, v, ver, depth):
    return _distinct(_distinct(v, "attribute_names"), "attribute_references")


for _c in ("GetAttributesRequestPayload", "GetAttributeListResponsePayload"):
    G.FIELD_POOL[(_c, "attribute_names")] = _name_pool
    G.FIELD_POOL[(_c, "attribute_references")] = _ref_pool
    G.HOOKS[_c] = _names_hook


# --- GetAttributesResponsePayload ---------------------------------------------------

def _get_attributes_response_hook(g, v, ver, depth):
    # KMIP 2.0: the library cannot encode the payload with an empty attribute list (known, pinned by a unit test of the
    # library); the list is generated with at least one attribute
    if ver >= 20 and not v.get("attributes"):
        v["attributes"] = [g.attribute(ver, depth, index=False) for _ in range(g.r.randrange(1, 4))]
    return v


G.HOOKS["GetAttributesResponsePayload"] = _get_attributes_response_hook


# --- DeleteAttributeRequestPayload ----------------------------------------------------

def _delete_attribute_request_hook(g, v, ver, depth):
    # KMIP 2.0: Current Attribute or Attribute Reference identifies the attribute to delete; one of them is present
    if ver >= 20 and "current_attribute" not in v and "attribute_reference" not in v:
        c, n = g.r.choice([("CurrentAttribute", "current_attribute"), ("AttributeReference", "attribute_reference")])
        v[n] = g.obj(c, ver, depth + 1)
    return v


G.HOOKS["DeleteAttributeRequestPayload"] = _delete_attribute_request_hook
G.FIELD_POOL[("DeleteAttributeRequestPayload", "attribute_name")] = _name_pool
G.FIELD_POOL[("DeleteAttributeRequestPayload", "attribute_index")] = [G.num(x) for x in (0, 1, 2, 7, 255, 2 ** 31 - 1)]
