from .. import schemabind as B, schemagen as G  # noqa

# B.WRAP[(cls, field)] = lambda plain_value: object        constructor takes a primitive object instead of a plain value
# B.KW[(cls, field)] = "keyword"                           constructor keyword differs from the field name
# B.GET[(cls, field)] = "attribute"                        attribute to read back differs from the field name
# B.BUILD[cls] = lambda kwargs, val: object                the generic cls(**kwargs) cannot build the object
# G.UNIONS[(cls, field)] = [class names]                   candidate classes of a union field
# G.FIELD_POOL[(cls, field)] = [abstract values] | f(ver)  values of a field when the kind's pool does not fit
# G.HOOKS[cls] = lambda gen, val, ver, depth: val          consistency between fields of a generated value

from kmip.core import attributes, enums, misc, objects, primitives  # noqa: E402

T = enums.Tags

# MAC payloads take primitive objects
B.WRAP[("MACRequestPayload", "unique_identifier")] = lambda v: attributes.UniqueIdentifier(v)
B.WRAP[("MACRequestPayload", "data")] = lambda v: objects.Data(v)
B.WRAP[("MACResponsePayload", "unique_identifier")] = lambda v: attributes.UniqueIdentifier(v)
B.WRAP[("MACResponsePayload", "mac_data")] = lambda v: objects.MACData(v)

# RekeyKeyPair request takes primitive objects
B.WRAP[("RekeyKeyPairRequestPayload", "private_key_uuid")] = lambda v: attributes.PrivateKeyUniqueIdentifier(v)
B.WRAP[("RekeyKeyPairRequestPayload", "offset")] = lambda v: misc.Offset(v)
# RekeyKeyPair response: constructor keywords *_uuid (plain strings), properties *_unique_identifier
B.KW[("RekeyKeyPairResponsePayload", "private_key_unique_identifier")] = "private_key_uuid"
B.KW[("RekeyKeyPairResponsePayload", "public_key_unique_identifier")] = "public_key_uuid"
