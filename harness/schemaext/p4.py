from .. import schemabind as B, schemagen as G  # noqa

# B.WRAP[(cls, field)] = lambda plain_value: object        constructor takes a primitive object instead of a plain value
# B.KW[(cls, field)] = "keyword"                           constructor keyword differs from the field name
# B.GET[(cls, field)] = "attribute"                        attribute to read back differs from the field name
# B.BUILD[cls] = lambda kwargs, val: object                the generic cls(**kwargs) cannot build the object
# G.UNIONS[(cls, field)] = [class names]                   candidate classes of a union field
# G.FIELD_POOL[(cls, field)] = [abstract values] | f(ver)  values of a field when the kind's pool does not fit
# G.HOOKS[cls] = lambda gen, val, ver, depth: val          consistency between fields of a generated value

from kmip.core import enums, objects  # noqa: E402


def _retag_masks(fields):
    """ProtectionStorageMasks takes its tag as a constructor argument; the generic construction of a struct field
    cannot pass the field's tag, so the payload builder re-creates the structure the way a caller would."""
    def build(cls):
        def b(kwargs, val):
            for name, tag in fields.items():
                o = kwargs.get(name)
                if o is not None:
                    kwargs[name] = objects.ProtectionStorageMasks(
                        protection_storage_masks=o.protection_storage_masks, tag=tag)
            return B.pyclass(cls)(**kwargs)
        return b
    return build


B.BUILD["CreateKeyPairRequestPayload"] = _retag_masks({
    "common_protection_storage_masks": enums.Tags.COMMON_PROTECTION_STORAGE_MASKS,
    "private_protection_storage_masks": enums.Tags.PRIVATE_PROTECTION_STORAGE_MASKS,
    "public_protection_storage_masks": enums.Tags.PUBLIC_PROTECTION_STORAGE_MASKS,
})("CreateKeyPairRequestPayload")

# Register: one managed object whose class is named by object_type
MANAGED = {"Certificate": enums.ObjectType.CERTIFICATE, "SymmetricKey": enums.ObjectType.SYMMETRIC_KEY,
           "PublicKey": enums.ObjectType.PUBLIC_KEY, "PrivateKey": enums.ObjectType.PRIVATE_KEY,
           "SplitKey": enums.ObjectType.SPLIT_KEY, "Template": enums.ObjectType.TEMPLATE,
           "SecretData": enums.ObjectType.SECRET_DATA, "OpaqueObject": enums.ObjectType.OPAQUE_DATA}
G.UNIONS[("RegisterRequestPayload", "managed_object")] = sorted(MANAGED)


def _register(g, v, ver, depth):
    """object_type and managed_object agree: a fixed / drawn object type that has a class defined under the version
    decides the class of the object, otherwise the object decides the type."""
    by_type = {t.value: c for c, t in MANAGED.items() if G.class_live(c, ver)}
    want = by_type.get(G.unnum(v["object_type"]))
    if want is not None and v["managed_object"]["_k"] != want:
        v["managed_object"] = g.obj(want, ver, depth + 1)
    v["object_type"] = G.num(MANAGED[v["managed_object"]["_k"]].value)
    return v


G.HOOKS["RegisterRequestPayload"] = _register
