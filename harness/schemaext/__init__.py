"""Per-group extensions of the C01 binding and generator: how a caller builds objects of the classes of
SchemaObjects / SchemaPayloads1..3 (schemabind.WRAP / KW / GET / BUILD) and the consistency hooks, union
candidates and field pools the generator needs (schemagen.HOOKS / UNIONS / FIELD_POOL)."""
import importlib

for _m in ("objects", "p1", "p2", "p3", "p4"):
    importlib.import_module("harness.schemaext." + _m)
