from .. import schemabind as B, schemagen as G  # noqa

# B.WRAP[(cls, field)] = lambda plain_value: object        constructor takes a primitive object instead of a plain value
# B.KW[(cls, field)] = "keyword"                           constructor keyword differs from the field name
# B.GET[(cls, field)] = "attribute"                        attribute to read back differs from the field name
# B.BUILD[cls] = lambda kwargs, val: object                the generic cls(**kwargs) cannot build the object
# G.UNIONS[(cls, field)] = [class names]                   candidate classes of a union field
# G.FIELD_POOL[(cls, field)] = [abstract values] | f(ver)  values of a field when the kind's pool does not fit
# G.HOOKS[cls] = lambda gen, val, ver, depth: val          consistency between fields of a generated value

from kmip.core import attributes, enums, objects, primitives, secrets, misc  # noqa: E402

T = enums.Tags


def _uid(v):
    return attributes.UniqueIdentifier(v)


for _c in ("ActivateRequestPayload", "ActivateResponsePayload", "RevokeRequestPayload", "RevokeResponsePayload",
           "DestroyRequestPayload", "DestroyResponsePayload"):
    B.WRAP[(_c, "unique_identifier")] = _uid

B.WRAP[("RevokeRequestPayload", "compromise_occurrence_date")] = \
    lambda v: primitives.DateTime(v, tag=T.COMPROMISE_OCCURRENCE_DATE)


# --- Get: the object type names the class of the managed object
MANAGED = {"Certificate": 1, "SymmetricKey": 2, "PublicKey": 3, "PrivateKey": 4, "SplitKey": 5, "Template": 6,
           "SecretData": 7, "OpaqueObject": 8}
G.UNIONS[("GetResponsePayload", "secret")] = sorted(MANAGED)


def _get_response(g, v, ver, depth):
    v["object_type"] = G.num(MANAGED[v["secret"]["_k"]])
    return v


G.HOOKS["GetResponsePayload"] = _get_response


# --- Locate: Storage Status Mask is a mask of the bits the version defines (Online 1, Archival 2; 2.0: Destroyed 4)
G.FIELD_POOL[("LocateRequestPayload", "storage_status_mask")] = \
    lambda ver: [G.num(x) for x in (range(8) if ver >= 20 else range(4))]
