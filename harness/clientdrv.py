"""A real ProxyKmipClient / KMIPProxy wired to a real KmipSession + KmipEngine in one process."""
from . import common, sessdrv as S

common.use_repo()
from kmip.core import enums  # noqa
from kmip.pie import client as pie_client  # noqa
from kmip.services import kmip_protocol  # noqa


class PipeSocket(object):
    """The socket object behind KMIPProtocol. sendall() hands one complete request to a real session
    (fresh KmipSession object per request on the same engine); recv() plays the response back in
    the pieces of `plan` (None = whatever is asked for). `tamper` may rewrite / truncate a response."""

    def __init__(self, engine, cert=None, tls_client_auth=True, plan=None, tamper=None, responder=None):
        self.engine = engine
        self.cert = cert if cert is not None else S.make_cert(1, "client")
        self.tls_client_auth = tls_client_auth
        self.plan = plan
        self.tamper = tamper
        self.responder = responder          # scripted server: bytes -> bytes
        self.out = b""
        self.pos = 0
        self.requests = []
        self.responses = []
        self.escaped = []
        self.log = []                 # socket events in order (TraceClient.tla)

    def sendall(self, data):
        data = bytes(data)
        self.log.append({"e": "send"})
        self.requests.append(data)
        if self.responder is not None:
            resp = self.responder(data)
        else:
            conn = S.FakeConn(data, cert=self.cert)
            self.escaped += S.run_session(self.engine, conn, tls_client_auth=self.tls_client_auth)
            resp = b"".join(conn.sent)
        self.responses.append(resp)
        if self.tamper is not None:
            resp = self.tamper(resp)
        self.out += resp

    def send(self, data):
        self.sendall(data)
        return len(data)

    def recv(self, n):
        if self.pos >= len(self.out):
            self.log.append({"e": "recv", "n": min(int(n), 2 ** 30), "k": 0})
            return b""
        k = n
        if self.plan:
            k = min(n, max(1, self.plan[0]))
            if self.plan[0] <= k:
                self.plan.pop(0)
            else:
                self.plan[0] -= k
        chunk = self.out[self.pos:self.pos + k]
        self.pos += len(chunk)
        self.log.append({"e": "recv", "n": min(int(n), 2 ** 30), "k": len(chunk)})
        return chunk

    def close(self):
        pass

    def shutdown(self, how):
        pass

    def settimeout(self, t):
        pass


KV = {(1, 0): enums.KMIPVersion.KMIP_1_0, (1, 1): enums.KMIPVersion.KMIP_1_1, (1, 2): enums.KMIPVersion.KMIP_1_2,
      (1, 3): enums.KMIPVersion.KMIP_1_3, (1, 4): enums.KMIPVersion.KMIP_1_4, (2, 0): enums.KMIPVersion.KMIP_2_0}


def make_client(sock, ver=(1, 2), **kw):
    c = pie_client.ProxyKmipClient(kmip_version=KV[tuple(ver)], **kw)
    c.proxy.protocol = kmip_protocol.KMIPProtocol(sock)
    c.proxy.socket = sock
    c._is_open = True
    return c
