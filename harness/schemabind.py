"""Binding between the abstract values of spec/KmipSchema.tla and kmip.core objects (C01).

The schema itself (classes, fields, kinds, versions) is read from the TLA+ modules
through TLC (export()); nothing about field order, tags or version gating is stated
here.  This file only says how a Python caller builds an object of each class from
plain values (constructor keyword = field name unless overridden) and how the
public attributes of a decoded object are read back.
"""
import enum
import importlib
import inspect
import json
import os
import pkgutil

from . import common, tlc

common.use_repo()
from kmip.core import enums, primitives, objects, attributes, secrets, misc, utils as kutils  # noqa
from kmip.core.messages import contents, messages  # noqa
from kmip.core.factories import attribute_values as avf  # noqa
import kmip.core.messages.payloads as payloads_pkg  # noqa

VERS = {10: enums.KMIPVersion.KMIP_1_0, 11: enums.KMIPVersion.KMIP_1_1, 12: enums.KMIPVersion.KMIP_1_2,
        13: enums.KMIPVersion.KMIP_1_3, 14: enums.KMIPVersion.KMIP_1_4, 20: enums.KMIPVersion.KMIP_2_0}
PRIM_KINDS = {"int", "enum", "mask", "long", "bigint", "bool", "text", "bytes", "date", "interval"}

_schema = None


def export(force=False):
    """Schema, ClassTag, ClassSince, AttrRule, Tag as JSON, printed by TLC from the TLA+ modules."""
    global _schema
    if _schema is not None and not force:
        return _schema
    mod = os.path.join(common.scratch(), "ExportSchema.tla")
    with open(mod, "w") as f:
        f.write("""---- MODULE ExportSchema ----
EXTENDS KmipSchema, Json
VARIABLE x
Init == x = 0 /\\ PrintT("@S@" \\o ToJson([schema |-> Schema, classtag |-> ClassTag, since |-> ClassSince,
                                          attr |-> AttrRule, tag |-> Tag]))
Next == UNCHANGED x
====
""")
    cfg = tlc.write_cfg("ExportSchema.cfg", "INIT Init\nNEXT Next\nCHECK_DEADLOCK FALSE\n")
    res = tlc.run("ExportSchema", cfg, workers=1, moddir=common.scratch(), timeout=300)
    got = res.tag("S")
    if len(got) != 1:
        raise common.MachineryFailure("schema export failed: %s" % res.out[-2000:])
    _schema = got[0]
    # ToJson turns sequences into arrays; fields are objects already
    return _schema


def S():
    return export()


# ---------------------------------------------------------------------------
# python classes by name

_classes = {}


def pyclass(name):
    if not _classes:
        mods = [objects, attributes, secrets, misc, contents, messages]
        for m in pkgutil.iter_modules(payloads_pkg.__path__):
            mods.append(importlib.import_module("kmip.core.messages.payloads." + m.name))
        for m in mods:
            for n, c in inspect.getmembers(m, inspect.isclass):
                if c.__module__ == m.__name__:
                    _classes.setdefault(n, c)
    return _classes[name]


def enum_class(name):
    return getattr(enums, name)


# ---------------------------------------------------------------------------
# abstract <-> python for primitives

def num(n):
    n = int(n)
    a = abs(n)
    return {"s": 1 if n < 0 else 0, "m": list(a.to_bytes((a.bit_length() + 7) // 8, "big"))}


def unnum(v):
    a = int.from_bytes(bytes(v["m"]), "big")
    return -a if v["s"] else a


def prim_to_py(kind, of, v):
    if kind in ("int", "mask", "long", "bigint", "date", "interval"):
        return unnum(v)
    if kind == "enum":
        return enum_class(of)(unnum(v))
    if kind == "bool":
        return bool(v)
    if kind == "text":
        return bytes(v).decode("utf-8")
    if kind == "bytes":
        return bytes(v)
    raise ValueError(kind)


class Untyped(Exception):
    pass


def prim_from_py(kind, of, x):
    """Abstract value of what a getter returned; Untyped if it is not a value of the kind."""
    if isinstance(x, primitives.Base) and not isinstance(x, primitives.Struct):
        x = x.value
    if kind == "enum":
        if isinstance(x, enum.Enum):
            if not isinstance(x, enum_class(of)):
                raise Untyped("enumeration %s where %s is expected" % (type(x).__name__, of))
            return num(x.value)
        raise Untyped("%r where an enumeration value is expected" % (x,))
    if kind == "mask" and isinstance(x, (list, tuple)):
        m = 0
        for e in x:
            m |= e.value
        return num(m)
    if kind in ("int", "mask", "long", "bigint", "date", "interval"):
        if isinstance(x, bool) or not isinstance(x, int):
            raise Untyped("%r where a number is expected" % (x,))
        return num(x)
    if kind == "bool":
        if not isinstance(x, bool):
            raise Untyped("%r where a boolean is expected" % (x,))
        return x
    if kind == "text":
        if not isinstance(x, str):
            raise Untyped("%r where text is expected" % (x,))
        return list(x.encode("utf-8"))
    if kind == "bytes":
        if not isinstance(x, (bytes, bytearray)):
            raise Untyped("%r where a byte string is expected" % (x,))
        return list(bytes(x))
    raise Untyped(kind)


# ---------------------------------------------------------------------------
# construction

T = enums.Tags

# (class, field) -> wrapper for classes whose constructors take primitive objects
WRAP = {
    ("Attribute", "attribute_name"): lambda v: objects.Attribute.AttributeName(v),
    ("Attribute", "attribute_index"): lambda v: objects.Attribute.AttributeIndex(v),
    ("Name", "name_value"): lambda v: attributes.Name.NameValue(v),
    ("Name", "name_type"): lambda v: attributes.Name.NameType(v),
    ("Digest", "hashing_algorithm"): lambda v: attributes.HashingAlgorithm(v),
    ("Digest", "digest_value"): lambda v: attributes.DigestValue(v),
    ("Digest", "key_format_type"): lambda v: misc.KeyFormatType(v),
    ("KeyBlock", "key_format_type"): lambda v: misc.KeyFormatType(v),
    ("KeyBlock", "key_compression_type"): lambda v: objects.KeyBlock.KeyCompressionType(v),
    ("KeyBlock", "cryptographic_algorithm"): lambda v: attributes.CryptographicAlgorithm(v),
    ("KeyBlock", "cryptographic_length"): lambda v: attributes.CryptographicLength(v),
    ("KeyValue", "key_material"): lambda v: objects.KeyMaterial(v),
    ("Certificate", "certificate_type"): lambda v: v,
    ("Certificate", "certificate_value"): lambda v: v,
    ("SecretData", "secret_data_type"): lambda v: secrets.SecretData.SecretDataType(v),
    ("OpaqueObject", "opaque_data_type"): lambda v: secrets.OpaqueObject.OpaqueDataType(v),
    ("OpaqueObject", "opaque_data_value"): lambda v: secrets.OpaqueObject.OpaqueDataValue(v),
    ("RequestHeader", "maximum_response_size"): lambda v: contents.MaximumResponseSize(v),
    ("RequestHeader", "asynchronous_indicator"): lambda v: contents.AsynchronousIndicator(v),
    ("RequestHeader", "batch_error_cont_option"): lambda v: contents.BatchErrorContinuationOption(v),
    ("RequestHeader", "batch_order_option"): lambda v: contents.BatchOrderOption(v),
    ("RequestHeader", "time_stamp"): lambda v: contents.TimeStamp(v),
    ("RequestHeader", "batch_count"): lambda v: contents.BatchCount(v),
    ("ResponseHeader", "time_stamp"): lambda v: contents.TimeStamp(v),
    ("ResponseHeader", "batch_count"): lambda v: contents.BatchCount(v),
    ("ResponseHeader", "server_correlation_value"): lambda v: contents.ServerCorrelationValue(v),
    ("RequestBatchItem", "operation"): lambda v: contents.Operation(v),
    ("RequestBatchItem", "unique_batch_item_id"): lambda v: contents.UniqueBatchItemID(v),
    ("ResponseBatchItem", "operation"): lambda v: contents.Operation(v),
    ("ResponseBatchItem", "unique_batch_item_id"): lambda v: contents.UniqueBatchItemID(v),
    ("ResponseBatchItem", "result_status"): lambda v: contents.ResultStatus(v),
    ("ResponseBatchItem", "result_reason"): lambda v: contents.ResultReason(v),
    ("ResponseBatchItem", "result_message"): lambda v: contents.ResultMessage(v),
    ("ResponseBatchItem", "async_correlation_value"): lambda v: contents.AsynchronousCorrelationValue(v),
}
# constructor keyword where it differs from the field name
KW = {
    ("RevocationReason", "revocation_code"): "code",
    ("RevocationReason", "revocation_message"): "message",
}
# attribute to read back where it differs from the field name, or callable(obj) computing the field from public attributes
GET = {}
# class -> callable(kwargs, val) -> object, for classes the generic path cannot build
BUILD = {}
TMPL_CLASS = {"TEMPLATE_ATTRIBUTE": "TemplateAttribute", "COMMON_TEMPLATE_ATTRIBUTE": "CommonTemplateAttribute",
              "PRIVATE_KEY_TEMPLATE_ATTRIBUTE": "PrivateKeyTemplateAttribute",
              "PUBLIC_KEY_TEMPLATE_ATTRIBUTE": "PublicKeyTemplateAttribute"}

_factory = avf.AttributeValueFactory()


def rule_of(name):
    r = S()["attr"].get(name)
    if r is None:
        return {"k": "text", "of": "", "t": "CUSTOM_ATTRIBUTE", "lo": 10, "hi": 14}
    return r


def attr_value_object(name, v, by_tag):
    """The value object a caller puts into an attribute named `name`: what AttributeValueFactory gives for
    the name (the route AttributeFactory.create_attribute takes); under KMIP 2.0 the same object carries the
    attribute's own tag (as convert_template_attribute_to_attributes does)."""
    r = rule_of(name)
    if r["k"] == "struct":
        o = construct(r["of"], v)
    else:
        py = prim_to_py(r["k"], r["of"], v)
        if name not in S()["attr"]:
            o = attributes.CustomAttribute(py)
        elif r["k"] == "mask":
            o = attributes.CryptographicUsageMask(py)
        else:
            o = _factory.create_attribute_value(enums.AttributeType(name), py)
    if by_tag:
        o.tag = T[r["t"]]
    return o


def conv(cls, f, v):
    k = f["k"]
    if k == "struct":
        return construct(f["of"], v)
    if k == "attrs":
        return construct("Attribute", v)
    if k == "union":
        return construct(v["_k"], v)
    if k == "attrval":
        return attr_value_object(v["_name"], v["v"], False)
    if k == "attr2":
        return attr_value_object(v["_name"], v["v"], True)
    if k == "tmpl":
        return construct(TMPL_CLASS.get(f["t"], "TemplateAttribute"), v, schema_cls="TemplateAttribute")
    py = prim_to_py(k, f["of"], v)
    w = WRAP.get((cls, f["n"]))
    return w(py) if w else py


def construct(cls, val, schema_cls=None):
    """Build the library object for abstract value `val` the way a caller would."""
    scls = schema_cls or cls
    kwargs = {}
    for f in S()["schema"][scls]:
        if f["n"] not in val:
            continue
        v = val[f["n"]]
        x = [conv(scls, f, e) for e in v] if f["c"] in "*+" else conv(scls, f, v)
        kwargs[KW.get((scls, f["n"]), f["n"])] = x
    b = BUILD.get(cls)
    if b:
        return b(kwargs, val)
    return pyclass(cls)(**kwargs)


# ---------------------------------------------------------------------------
# projection of a (decoded) object back to an abstract value

_tag2attr = None


def attr_name_by_tag(tag):
    global _tag2attr
    if _tag2attr is None:
        _tag2attr = {r["t"]: n for n, r in S()["attr"].items()}
    return _tag2attr.get(tag.name)


def unconv(cls, f, x, holder=None):
    k = f["k"]
    if k == "struct":
        return project(f["of"], x)
    if k == "attrs":
        return project("Attribute", x)
    if k == "union":
        n = type(x).__name__
        if n not in S()["schema"]:
            raise Untyped("object of class %s in a union field" % n)
        return project(n, x)
    if k == "attrval":
        name = holder.attribute_name.value
        r = rule_of(name)
        return {"_name": name, "v": unconv(cls, dict(f, k=r["k"], of=r["of"]), x)}
    if k == "attr2":
        name = attr_name_by_tag(x.tag)
        if name is None:
            raise Untyped("attribute with tag %s" % x.tag.name)
        r = rule_of(name)
        return {"_name": name, "v": unconv(cls, dict(f, k=r["k"], of=r["of"]), x)}
    if k == "tmpl":
        return project("TemplateAttribute", x)
    return prim_from_py(k, f["of"], x)


def project(cls, obj):
    if obj is None or isinstance(obj, (int, str, bytes, bool, list, dict, enum.Enum)):
        raise Untyped("%r where an object of class %s is expected" % (obj, cls))
    out = {"_k": cls}
    for f in S()["schema"][cls]:
        name = GET.get((cls, f["n"]), f["n"])
        if callable(name):
            x = name(obj)           # a view computed from the object's public attributes
        else:
            if not hasattr(obj, name):
                raise Untyped("decoded %s object has no attribute %s" % (cls, name))
            x = getattr(obj, name)
        if x is None:
            continue
        if f["c"] in "*+":
            if not isinstance(x, (list, tuple)):
                raise Untyped("%s.%s is %r, not a list" % (cls, name, x))
            if len(x) == 0:
                continue
            out[f["n"]] = [unconv(cls, f, e, obj) for e in x]
        else:
            out[f["n"]] = unconv(cls, f, x, obj)
    return out


# ---------------------------------------------------------------------------
# encode / decode

def encode(obj, ver):
    s = kutils.BytearrayStream()
    obj.write(s, kmip_version=VERS[ver])
    return bytes(s.buffer)


def fresh(obj):
    c = type(obj)
    try:
        params = inspect.signature(c.__init__).parameters
    except (TypeError, ValueError):
        params = {}
    if "tag" in params and hasattr(obj, "tag"):
        return c(tag=obj.tag)
    return c()


def decode(obj_like, data, ver):
    o = fresh(obj_like)
    o.read(kutils.BytearrayStream(data), kmip_version=VERS[ver])
    return o


def has_eq(obj):
    return type(obj).__eq__ is not object.__eq__
