"""A TTLV encoding as a tree, independent of the library: parse, rewrite a node, serialise with the lengths recomputed.
Used to build well-formed messages the library's own writer refuses to produce (e.g. transparent key material)."""
import struct

STRUCT, INT, LONG, BIGINT, ENUM, BOOL, TEXT, BYTES, DATE, INTERVAL = 1, 2, 3, 4, 5, 6, 7, 8, 9, 10


def parse(data):
    """bytes -> list of nodes [tag (int), type (int), value]; value = list of nodes for a structure, raw bytes otherwise."""
    out, i = [], 0
    while i + 8 <= len(data):
        tag = int.from_bytes(data[i:i + 3], "big")
        typ = data[i + 3]
        ln = struct.unpack(">I", data[i + 4:i + 8])[0]
        body = data[i + 8:i + 8 + ln]
        out.append([tag, typ, parse(body) if typ == STRUCT else bytes(body)])
        i += 8 + ln + ((8 - ln % 8) % 8 if typ != STRUCT else 0)
    return out


def serialise(nodes):
    out = b""
    for tag, typ, val in nodes:
        body = serialise(val) if typ == STRUCT else bytes(val)
        out += tag.to_bytes(3, "big") + bytes([typ]) + struct.pack(">I", len(body)) + body
        if typ != STRUCT:
            out += b"\x00" * ((8 - len(body) % 8) % 8)
    return out


def rewrite(nodes, tag, fn):
    """Apply fn(node) -> node to every node carrying `tag` (depth first); returns the number of nodes rewritten."""
    n = 0
    for k, node in enumerate(nodes):
        if node[0] == tag:
            nodes[k] = fn(node)
            n += 1
        elif node[1] == STRUCT:
            n += rewrite(node[2], tag, fn)
    return n


FIXED = {INT: 4, LONG: 8, ENUM: 4, BOOL: 8, DATE: 8, INTERVAL: 4}


def framing_ok(data):
    """The framing half of the TTLV definition (TTLV.tla WellFormed without the value rules), written independently of the
    library and of the server: known item types, mandated lengths of the fixed-size types, every item inside its parent, a
    structure filled exactly by its children, one item spanning the whole frame."""
    def walk(pos, end):
        while pos < end:
            if end - pos < 8:
                return False
            typ = data[pos + 3]
            ln = struct.unpack(">I", data[pos + 4:pos + 8])[0]
            if typ < STRUCT or typ > INTERVAL:
                return False
            if typ in FIXED and ln != FIXED[typ]:
                return False
            if typ == STRUCT:
                if pos + 8 + ln > end or not walk(pos + 8, pos + 8 + ln):
                    return False
                pos += 8 + ln
            else:
                pad = (8 - ln % 8) % 8
                if pos + 8 + ln + pad > end:
                    return False
                pos += 8 + ln + pad
        return pos == end
    try:
        if len(data) < 8 or 8 + struct.unpack(">I", data[4:8])[0] != len(data):
            return False
        return walk(0, len(data))
    except RecursionError:
        return False
