"""Generic --replay: re-execute the concrete case a violation record holds, on the current tree, and print what happens.

Engine-level records carry the request sequence (abstract requests as the drivers build them) and the policies; session-level
records carry the byte frames; the codec check has its own replay (c01.replay).  Records of the remaining kinds (crash
experiments, schedules, policy-file event sequences, client rows, log records) are printed as they are, with the command that
regenerates them (the drivers are deterministic in VERIF_SEED)."""
import json

from . import common


def _engine(rp):
    from . import engdrv as D, engcheck as E, enggen as G
    pols = rp.get("pols")
    if pols in (None, "builtin"):
        pols = D.builtin_policies()
    elif isinstance(pols, list) and pols and isinstance(pols[0], dict) and "hasPreset" in pols[0]:
        # the record holds the policies in the specification's normal form; the drivers' named policy sets are a superset
        names = set(p.get("name") for p in pols)
        pols = [p for p in D.builtin_policies() + G.extra_policies() if p["name"] in names]
    drv = D.EngineDriver(policies=pols, intern=E.new_interner())
    try:
        for i, req in enumerate(rp["requests"], 1):
            if req.get("restart"):
                drv.restart()
                print("step %d: engine restarted on the same database" % i)
                continue
            try:
                res = drv.request(req)
            except Exception as e:
                print("step %d: the request cannot be rebuilt (%s: %s)" % (i, type(e).__name__, e))
                continue
            items = [(it.get("op"), it.get("status"), it.get("reason"), it.get("uids") or it.get("pl")) for it in res.get("items", [])]
            print("step %d: %s ver=%s -> %s %s" % (i, [it["op"] for it in req.get("items", [])], req.get("ver"),
                                                    res.get("kind"), common.jdump(items)[:600]))
        print("store at the end:", common.jdump(drv.state())[:1500])
    finally:
        drv.close()
    return 0


def _frames(frames_hex):
    from . import engdrv as D, engcheck as E, sessdrv as S, sesstrace as ST
    drv = D.EngineDriver(intern=E.new_interner())
    try:
        data = b"".join(bytes.fromhex(f) for f in frames_hex)
        conn = S.FakeConn(data, cert=S.make_cert(1, "client"))
        spy = S.EngineSpy(drv.engine, log=conn.log)
        esc = S.run_session(spy, conn)
        print("%d frames sent on one connection; %d answers: %s; engine entered %d times; escaped: %s" % (
            len(frames_hex), len(conn.sent), [ST.classify(x, drv.intern) for x in conn.sent], len(spy.calls), esc))
    finally:
        drv.close()
    return 0


def replay(pid, path):
    with open(path) as f:
        d = json.load(f)
    rp = d.get("replay") or {}
    print("property %s clause %s signature %s (seed %s)" % (d.get("property"), d.get("clause"), common.jdump(d.get("signature")), d.get("seed")))
    if isinstance(rp, dict) and isinstance(rp.get("requests"), list) and rp["requests"]:
        return _engine(rp)
    if isinstance(rp, dict) and isinstance(rp.get("frames"), list) and rp["frames"] and isinstance(rp["frames"][0], str):
        return _frames(rp["frames"])
    if isinstance(rp, dict) and isinstance(rp.get("request"), str):
        return _frames([rp["request"]])
    print(json.dumps(rp, indent=1, default=str)[:6000])
    print("(this kind of record is not re-executed case by case; regenerate it with: VERIF_SEED=%s ./check %s --tier quick)" % (d.get("seed", 0), pid))
    return 0
