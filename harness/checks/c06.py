"""C06 - cryptographic operations compute what they claim."""
import multiprocessing
import random

from .. import common, tlc, absmap as A, engdrv as D, engcheck as E, cryptoref as R

ALLBITS = ["ENCRYPT", "DECRYPT", "SIGN", "VERIFY", "MAC_GENERATE", "WRAP_KEY", "DERIVE_KEY"]
KEYSIZES = {"AES": [16, 24, 32], "TRIPLE_DES": [24, 16], "CAMELLIA": [16, 32], "BLOWFISH": [16], "CAST5": [16], "IDEA": [16], "RC4": [16],
            "RSA": [16], "HMAC_SHA256": [16], "NONE": [16]}


def item(res):
    return res["items"][0] if res.get("items") else {"status": res.get("kind"), "reason": res.get("reason"), "pl": None, "msg": res.get("msg")}


class Srv(object):
    def __init__(self):
        self.intern = A.Interner()
        self.drv = D.EngineDriver(intern=self.intern)
        self.keys = {}

    def key(self, nbytes, label="AES", otype="SymmetricKey", seed=1):
        k = (nbytes, label, otype, seed)
        if k not in self.keys:
            val = bytes((i * 29 + seed * 13 + nbytes) % 256 for i in range(nbytes))
            tok = "key%d_%s_%d" % (nbytes, label, seed)
            self.intern.define(tok, val)
            obj = {"type": otype, "val": tok}
            if otype == "SymmetricKey":
                obj.update(alg=label if label in ("AES", "TRIPLE_DES", "CAMELLIA", "BLOWFISH", "CAST5", "IDEA", "RC4") else "AES",
                           len=nbytes * 8, fmt="RAW")
            elif otype in ("PublicKey", "PrivateKey", "SplitKey"):
                obj.update(alg="AES", len=nbytes * 8, fmt="RAW")          # raw material in a key block of another kind
            attrs = [{"name": "Cryptographic Usage Mask", "v": ALLBITS}] if otype != "OpaqueData" else []
            r = item(self.drv.request(D.one("Register", {"otype": otype, "attrs": attrs, "obj": obj}, ver=(1, 4))))
            if r["status"] != "Success":
                raise common.MachineryFailure("cannot register test key: %s" % r)
            u = r["pl"]["uid"]
            self.drv.request(D.one("Activate", {"uid": u}))
            self.keys[k] = (u, val)
        return self.keys[k]

    def close(self):
        self.drv.close()


def _enc_rows(args):
    rows, seed, ndata = args
    common.scratch()
    rnd = random.Random(seed)
    s = Srv()
    out = []
    try:
        for rec in rows:
            p = rec["p"]
            alg = p["alg"]
            sizes = KEYSIZES.get(alg, [16])
            nb = sizes[rnd.randrange(len(sizes))]
            uid, key = s.key(nb, alg if alg in KEYSIZES and alg not in ("RSA", "HMAC_SHA256", "NONE") else "AES")
            bs = R.block_bytes(alg) if alg in ("AES", "TRIPLE_DES", "CAMELLIA", "BLOWFISH", "CAST5", "IDEA", "RC4") else 16
            ivlen = 12 if p["mode"] == "GCM" else max(bs, 8)
            iv = None if p["iv"] == "absent" else (bytes(range(7, 7 + ivlen)) if p["iv"] == "block" else b"\x01\x02\x03")
            aad = b"associated-data" if p["aad"] else None
            taglen = p["taglen"] or None
            lens = rnd.sample([0, 1, bs - 1, bs, bs + 1, 100], ndata)
            if p["mode"] == "GCM" and 0 not in lens:
                lens.append(0)          # the empty message: authentication is all an AEAD mode does for it
            for dl in lens:
                data = bytes((i * 7 + dl) % 256 for i in range(dl))
                cp = {"alg": None if alg == "NONE" else alg, "mode": None if p["mode"] == "NONE" else p["mode"],
                      "pad": None if p["pad"] == "NONE" else p["pad"], "taglen": taglen}
                req = {"uid": uid, "cp": cp, "data": data.hex(), "iv": iv.hex() if iv is not None else None,
                       "aad": aad.hex() if aad is not None else None}
                r = item(s.drv.request(D.one("Encrypt", req, ver=(1, 4))))
                o = {"row": rec, "keylen": nb, "datalen": dl, "status": r["status"], "reason": r["reason"], "bad": []}
                spec = rec["enc"]
                if spec["kind"] == "asymmetric":
                    out.append(o)
                    continue
                if r["reason"] == "GeneralFailure":
                    o["bad"].append("C06_internal_error")
                if spec["kind"] == "refuse":
                    if r["status"] == "Success":
                        o["bad"].append("C06_accepts_what_must_be_refused")
                    out.append(o)
                    continue
                # a term: evaluate it with the reference
                used_iv = iv
                got_iv = bytes.fromhex(r["pl"]["iv"]) if r["status"] == "Success" and r["pl"].get("iv") else None
                if spec.get("returnsIV") and r["status"] == "Success":
                    # (its length is the server's choice - 12 or 16 bytes are both nonces GCM takes; an IV the cipher cannot
                    # use shows below, where the reference refuses it)
                    if not got_iv:
                        o["bad"].append("C06_generated_iv_missing_or_wrong_length")
                    used_iv = got_iv
                elif r["status"] == "Success" and got_iv is not None and not spec.get("returnsIV"):
                    o["bad"].append("C06_iv_returned_although_supplied")
                try:
                    ref_ct, ref_tag = R.encrypt(alg, p["mode"], key, used_iv, data, padm=cp["pad"], aad=aad, taglen=taglen)
                    ref_ok = True
                except Exception as e:
                    ref_ok = False
                    o["ref_refuses"] = "%s" % type(e).__name__
                if not ref_ok:
                    if r["status"] == "Success":
                        o["bad"].append("C06_accepts_what_the_cipher_refuses")
                    out.append(o)
                    continue
                if r["status"] != "Success":
                    # the property speaks about what the server ACCEPTS: a refusal is noted, not alarmed
                    o["refused_valid"] = True
                    out.append(o)
                    continue
                ct = bytes.fromhex(r["pl"]["data"])
                tag = bytes.fromhex(r["pl"]["tag"]) if r["pl"].get("tag") else None
                if ct != ref_ct:
                    o["bad"].append("C06_ciphertext_differs_from_reference")
                if (tag or None) != (ref_tag or None):
                    o["bad"].append("C06_tag_differs_from_reference")
                # Decrypt inverts Encrypt
                dreq = {"uid": uid, "cp": cp, "data": ct.hex(), "iv": used_iv.hex() if used_iv is not None else None,
                        "aad": aad.hex() if aad is not None else None, "tag": tag.hex() if tag else None}
                d = item(s.drv.request(D.one("Decrypt", dreq, ver=(1, 4))))
                if d["status"] != "Success" or bytes.fromhex(d["pl"]["data"]) != data:
                    o["bad"].append("C06_decrypt_does_not_invert")
                if d["reason"] == "GeneralFailure":
                    o["bad"].append("C06_internal_error")
                if p["mode"] == "GCM" and tag:
                    for what in ("ct", "tag", "aad"):
                        t = dict(dreq)
                        if what == "ct" and len(ct) == 0:
                            continue
                        if what == "ct":
                            t["data"] = (bytes([ct[0] ^ 1]) + ct[1:]).hex()
                        elif what == "tag":
                            t["tag"] = (bytes([tag[0] ^ 1]) + tag[1:]).hex()
                        else:
                            if aad is None:
                                continue
                            t["aad"] = (aad + b"x").hex()
                        dd = item(s.drv.request(D.one("Decrypt", t, ver=(1, 4))))
                        if dd["status"] == "Success":
                            o["bad"].append("C06_gcm_accepts_modified_" + what)
                        if dd["reason"] == "GeneralFailure":
                            o["bad"].append("C06_internal_error")
                out.append(o)
    finally:
        s.close()
    return out


def other_rows(run, rows, quick):
    s = Srv()
    n = 0
    try:
        uid, key = s.key(32, "AES")
        suid, secret = s.key(20, "secret", otype="SecretData", seed=3)
        suid2, secret2 = s.key(24, "secret", otype="SecretData", seed=4)      # a second base object: the derivation data when none is given
        msgs = [b"", b"a", b"0123456789abcdef", b"0123456789abcdefX", bytes(range(200))]
        pubder = E.rsa_pair()["pub"]
        pubder = pubder + b"\x00" * ((8 - len(pubder) % 8) % 8) if False else pubder
        s.intern.define("rsapub_as_sym", pubder)
        rr = item(s.drv.request(D.one("Register", {"otype": "SymmetricKey", "attrs": [{"name": "Cryptographic Usage Mask", "v": ALLBITS}],
                                                   "obj": {"type": "SymmetricKey", "val": "rsapub_as_sym", "alg": "AES", "len": len(pubder) * 8, "fmt": "RAW"}}, ver=(1, 4))))
        if rr["status"] != "Success":
            raise common.MachineryFailure("cannot register the RSA-bytes symmetric key: %s" % rr)
        rsasym = rr["pl"]["uid"]
        s.drv.request(D.one("Activate", {"uid": rsasym}))
        for rec in rows:
            if rec["k"] == "mac":
                alg = rec["alg"]
                for nb in ([16, 24, 32] if alg in ("AES", "CAMELLIA") else [24, 16] if alg == "TRIPLE_DES" else [16, 20]):
                    ku, kv = s.key(nb, "AES" if alg.startswith("HMAC") or alg in ("RSA", "NONE") else alg, seed=2)
                    for m in msgs[1:]:
                        r = item(s.drv.request(D.one("MAC", {"uid": ku, "cp": {"alg": None if alg == "NONE" else alg}, "data": m.hex()}, ver=(1, 4))))
                        n += 1
                        sig = {"k": "mac", "alg": alg, "keylen": nb}
                        run.case(("mac", alg, nb, len(m), r["status"], r["reason"]))
                        if r["reason"] == "GeneralFailure":
                            run.violation("C06_internal_error", sig, {"row": rec, "response": r})
                        spec = rec["out"]
                        if alg == "NONE":
                            continue          # the key's own algorithm (AES) is then used
                        if spec["kind"] == "refuse":
                            if r["status"] == "Success":
                                run.violation("C06_accepts_what_must_be_refused", sig, {"row": rec, "response": r})
                            continue
                        try:
                            want = R.hmac(alg, kv, m) if alg.startswith("HMAC") else R.cmac(alg, kv, m)
                        except Exception:
                            want = None
                        if want is None:
                            if r["status"] == "Success":
                                run.violation("C06_accepts_what_the_cipher_refuses", sig, {"row": rec, "response": r})
                        elif r["status"] != "Success":
                            run.note_drift({"what": ["refuses a combination the reference computes"], "sig": sig, "reason": r["reason"]})
                        elif bytes.fromhex(r["pl"]["mac"]) != want:
                            run.violation("C06_mac_differs_from_reference", sig, {"row": rec, "got": r["pl"]["mac"], "want": want.hex()})
            elif rec["k"] == "derive":
                d = rec["d"]
                if d["method"] == "ENCRYPT":
                    continue
                data, salt = b"derivation-data", b"NaCl-salt"
                for (otype, nbytes) in [("SymmetricKey", 16), ("SecretData", 32)]:
                    dp = {"cp": {"hash": None if d["hash"] == "NONE" else d["hash"]},
                          "data": data.hex() if d["hasdata"] else None, "salt": salt.hex() if d["hassalt"] else None,
                          "iter": 7 if d["hasiter"] else None}
                    req = {"otype": otype, "uids": [suid], "method": d["method"], "dp": dp,
                           "attrs": [{"name": "Cryptographic Length", "v": nbytes * 8}, {"name": "Cryptographic Usage Mask", "v": ["ENCRYPT"]}] +
                                    ([{"name": "Cryptographic Algorithm", "v": "AES"}] if otype == "SymmetricKey" else [])}
                    r = item(s.drv.request(D.one("DeriveKey", req, ver=(1, 4))))
                    n += 1
                    sig = {"k": "derive", "method": d["method"], "hash": d["hash"], "data": d["hasdata"], "salt": d["hassalt"], "iter": d["hasiter"]}
                    run.case(("derive", common.jdump(sig), otype, r["status"], r["reason"]))
                    if r["reason"] == "GeneralFailure":
                        run.violation("C06_internal_error", sig, {"row": rec, "response": r})
                        continue
                    spec = rec["out"]
                    if spec["kind"] == "refuse":
                        if r["status"] == "Success":
                            run.violation("C06_accepts_what_must_be_refused", sig, {"row": rec, "response": r})
                        continue
                    t = spec["t"][0]
                    try:
                        if t == "Hkdf":
                            want = R.hkdf(d["hash"], secret, salt if d["hassalt"] else None, data if d["hasdata"] else None, nbytes)
                        elif t == "Hash":
                            want = R.digest(d["hash"], secret)
                            want = want[:nbytes] if len(want) >= nbytes else None
                        elif t == "Pbkdf2":
                            want = R.pbkdf2(d["hash"], secret, salt, 7, nbytes)
                        else:
                            want = R.kbkdf_counter(d["hash"], secret, data if d["hasdata"] else None, nbytes)
                    except Exception:
                        want = None
                    if want is None:
                        if r["status"] == "Success":
                            run.violation("C06_accepts_what_the_reference_refuses", sig, {"row": rec, "response": r})
                        continue
                    if r["status"] != "Success":
                        run.note_drift({"what": ["refuses a combination the reference computes"], "sig": sig, "reason": r["reason"]})
                        continue
                    g = item(s.drv.request(D.one("Get", {"uid": r["pl"]["uid"]})))
                    got = s.intern.val(g["pl"]["obj"]["val"])
                    if got != want:
                        run.violation("C06_derived_key_differs_from_reference", sig, {"row": rec, "got": got.hex(), "want": want.hex()})
                    if len(got) != nbytes:
                        run.violation("C06_derived_length", sig, {"row": rec, "got": len(got), "want": nbytes})
                    # without explicit derivation data, a second base object (a Secret Data) supplies it: the first object is
                    # the key, the second the data - also when the first one is a Secret Data itself
                    if not d["hasdata"] and t not in ("Hash", "Pbkdf2"):
                        req2 = dict(req, uids=[suid, suid2])
                        r2 = item(s.drv.request(D.one("DeriveKey", req2, ver=(1, 4))))
                        n += 1
                        run.case(("derive-two-objects", common.jdump(sig), otype, r2["status"], r2["reason"]))
                        if r2["status"] == "Success":
                            try:
                                want2 = R.hkdf(d["hash"], secret, salt if d["hassalt"] else None, secret2, nbytes) if t == "Hkdf" \
                                    else R.kbkdf_counter(d["hash"], secret, secret2, nbytes)
                            except Exception:
                                want2 = None
                            g2 = item(s.drv.request(D.one("Get", {"uid": r2["pl"]["uid"]})))
                            got2 = s.intern.val(g2["pl"]["obj"]["val"])
                            if want2 is not None and got2 != want2:
                                run.violation("C06_derived_key_differs_from_reference", dict(sig, two_objects=True),
                                              {"row": rec, "base_objects": "[Secret Data (key), Secret Data (derivation data)]",
                                               "got": got2.hex(), "want": want2.hex()})
            elif rec["k"] == "asym":
                # the asymmetric branch of Encrypt / Decrypt, reached with the parameters alone (the key is a symmetric
                # key object, the only kind these operations accept): every padding x hash must end in a specific refusal
                d = rec["d"]
                cp = {"alg": "RSA", "pad": None if d["pad"] == "absent" else d["pad"], "hash": None if d["hash"] == "NONE" else d["hash"]}
                for op in ("Encrypt", "Decrypt"):
                    r = item(s.drv.request(D.one(op, {"uid": uid, "cp": cp, "data": "00" * 16}, ver=(1, 4))))
                    n += 1
                    sig = {"k": "asym-" + op.lower(), "pad": d["pad"], "hash": d["hash"]}
                    run.case(("asym", op, d["pad"], d["hash"], r["status"], r["reason"]))
                    if r["reason"] == "GeneralFailure":
                        run.violation("C06_internal_error", sig, {"row": rec, "response": r})
                    elif r["status"] == "Success":
                        run.violation("C06_accepts_what_must_be_refused", sig, {"row": rec, "response": r})
                    # ... and with a symmetric key object whose bytes happen to BE an RSA public key (any byte string is
                    # accepted as symmetric key material): the backend then really computes - or refuses - RSA; whatever it
                    # does, the answer is a specific one (data too long for the modulus, ciphertext of the wrong length ...)
                    for dl in (1, 16, 200):
                        r2 = item(s.drv.request(D.one(op, {"uid": rsasym, "cp": cp, "data": "5a" * dl}, ver=(1, 4))))
                        n += 1
                        run.case(("asym-rsabytes", op, d["pad"], d["hash"], dl, r2["status"], r2["reason"]))
                        if r2["reason"] == "GeneralFailure":
                            run.violation("C06_internal_error", dict(sig, k=sig["k"] + "-rsabytes", datalen=dl), {"row": rec, "response": r2})
            elif rec["k"] == "wrap" and rec.get("t", "SymmetricKey") != "SymmetricKey":
                # the other kinds of object asked for wrapped: key blocks of other kinds are wrapped like a key, objects
                # without a key block are refused
                for nb in (16, 24):
                    tu, tv = s.key(nb, "other", otype=rec["t"], seed=7)
                    wu, wv = s.key(32, "AES", seed=6)
                    r = item(s.drv.request(D.one("Get", {"uid": tu, "wrap": {"kuid": wu, "mode": None if rec["mode"] == "NONE" else rec["mode"]}})))
                    n += 1
                    sig = {"k": "wrap", "mode": rec["mode"], "t": rec["t"]}
                    run.case(("wrap", rec["mode"], rec["t"], nb, r["status"], r["reason"]))
                    if r["reason"] == "GeneralFailure":
                        run.violation("C06_internal_error", sig, {"row": rec, "response": r})
                    elif rec["out"]["kind"] == "refuse":
                        if r["status"] == "Success":
                            run.violation("C06_accepts_what_must_be_refused", sig, {"row": rec, "response": r})
                    elif r["status"] != "Success":
                        run.note_drift({"what": ["refuses a combination the reference computes"], "sig": sig, "reason": r["reason"]})
                    else:
                        got = s.intern.val(r["pl"]["obj"]["val"])
                        if got != R.rfc3394_wrap(wv, tv):
                            run.violation("C06_wrapped_key_differs_from_rfc3394", sig, {"got": got.hex(), "want": R.rfc3394_wrap(wv, tv).hex()})
                        g = item(s.drv.request(D.one("Get", {"uid": tu})))
                        if s.intern.val(g["pl"]["obj"]["val"]) != tv:
                            run.violation("C06_wrapping_altered_the_stored_key", sig, {"row": rec})
            elif rec["k"] == "wrap":
                for nb in (16, 24, 32):
                    tu, tv = s.key(nb, "AES", seed=5)
                    for kb in (16, 32):
                        wu, wv = s.key(kb, "AES", seed=6)
                        r = item(s.drv.request(D.one("Get", {"uid": tu, "wrap": {"kuid": wu, "mode": None if rec["mode"] == "NONE" else rec["mode"]}})))
                        n += 1
                        sig = {"k": "wrap", "mode": rec["mode"]}
                        run.case(("wrap", rec["mode"], nb, kb, r["status"], r["reason"]))
                        if r["reason"] == "GeneralFailure":
                            run.violation("C06_internal_error", sig, {"row": rec, "response": r})
                        elif rec["out"]["kind"] == "refuse":
                            if r["status"] == "Success":
                                run.violation("C06_accepts_what_must_be_refused", sig, {"row": rec, "response": r})
                        elif r["status"] != "Success":
                            run.note_drift({"what": ["refuses a combination the reference computes"], "sig": sig, "reason": r["reason"]})
                        else:
                            got = s.intern.val(r["pl"]["obj"]["val"])
                            want = R.rfc3394_wrap(wv, tv)
                            if got != want:
                                run.violation("C06_wrapped_key_differs_from_rfc3394", sig, {"got": got.hex(), "want": want.hex()})
                            # wrapping must not alter the key: not for later items of the same batch (same
                            # unit of work), not after a later item commits, not for later requests
                            pre = item(s.drv.request(D.one("Create", {"otype": "SymmetricKey", "attrs": [
                                {"name": "Cryptographic Algorithm", "v": "AES"}, {"name": "Cryptographic Length", "v": 128},
                                {"name": "Cryptographic Usage Mask", "v": ["ENCRYPT"]}]})))["pl"]["uid"]
                            wspec = {"kuid": wu, "mode": rec["mode"]}
                            b = s.drv.request({"user": "alice", "groups": None, "ver": [1, 2], "opt": "Continue", "items": [
                                {"op": "Get", "bid": "1", "p": {"uid": tu, "wrap": wspec}},
                                {"op": "Get", "bid": "2", "p": {"uid": tu}},
                                {"op": "Get", "bid": "3", "p": {"uid": tu, "wrap": wspec}},
                                {"op": "Activate", "bid": "4", "p": {"uid": pre}}]})
                            vals = [s.intern.val(i["pl"]["obj"]["val"]) if i["status"] == "Success" and i["pl"].get("obj") else None for i in b["items"][:3]]
                            g = item(s.drv.request(D.one("Get", {"uid": tu})))
                            after = s.intern.val(g["pl"]["obj"]["val"])
                            if vals != [want, tv, want] or after != tv:
                                run.violation("C06_wrapping_altered_the_stored_key", sig,
                                              {"row": rec, "batch_values": [v.hex() if v else None for v in vals],
                                               "expected": [want.hex(), tv.hex(), want.hex()], "later_get": after.hex()})
    finally:
        s.close()
    run.traces += n
    run.extra["mac_derive_wrap_requests"] = n


def signatures(run, quick, rows=()):
    """rows: the k = "sign" rows of CryptoTerms.tla (padding x digital signature algorithm x algorithm x hash over the
    complete enumerations, each mapped to a refusal or to the signature term)."""
    from cryptography.hazmat.primitives import hashes, serialization
    from cryptography.hazmat.primitives.asymmetric import padding as apad
    s = Srv()
    n = 0
    try:
        pairs = []
        for _ in range(2):
            r = item(s.drv.request(D.one("CreateKeyPair", {
                "common": [{"name": "Cryptographic Algorithm", "v": "RSA"}, {"name": "Cryptographic Length", "v": 1024}],
                "priv": [{"name": "Cryptographic Usage Mask", "v": ["SIGN"]}], "pub": [{"name": "Cryptographic Usage Mask", "v": ["VERIFY"]}]})))
            if r["status"] != "Success":
                raise common.MachineryFailure("CreateKeyPair failed: %s" % r)
            prv, pub = r["pl"]["priv"], r["pl"]["pub"]
            s.drv.request(D.one("Activate", {"uid": prv}))
            s.drv.request(D.one("Activate", {"uid": pub}))
            g = item(s.drv.request(D.one("Get", {"uid": pub})))
            pubder = s.intern.val(g["pl"]["obj"]["val"])
            gp = item(s.drv.request(D.one("Get", {"uid": prv})))
            prvder = s.intern.val(gp["pl"]["obj"]["val"])
            pairs.append((prv, pub, pubder, prvder))
        if pairs[0][2] == pairs[1][2] or pairs[0][3] == pairs[1][3]:
            run.violation("C06_key_pair_not_fresh", {"k": "createkeypair"}, {"what": "two CreateKeyPair calls returned the same key"})
        try:
            pk = serialization.load_der_public_key(pairs[0][2])
        except Exception:
            pk = serialization.load_pem_public_key(pairs[0][2])
        if pk.key_size != 1024:
            run.violation("C06_generated_length", {"k": "createkeypair"}, {"key_size": pk.key_size})
        hmap = {"SHA_256": hashes.SHA256, "SHA_1": hashes.SHA1, "SHA_512": hashes.SHA512, "SHA_224": hashes.SHA224,
                "SHA_384": hashes.SHA384, "MD5": hashes.MD5}
        msgs = [b"", b"message", bytes(range(256)) * 3]
        cases = []
        for rec in rows:
            d, out = rec["d"], rec["out"]
            cp = {"pad": None if d["pad"] == "absent" else d["pad"], "dsa": None if d["dsa"] == "NONE" else d["dsa"],
                  "alg": None if d["alg"] == "NONE" else d["alg"], "hash": None if d["hash"] == "NONE" else d["hash"]}
            cp = {k: v for k, v in cp.items() if v is not None}
            if out["kind"] == "term":
                cases.append((cp, hmap[out["t"][2]], out["t"][1]))
            else:
                cases.append((cp, None, None))
        if not cases:
            raise common.MachineryFailure("no signature rows from CryptoTerms.tla")
        rnd = random.Random(common.SEED * 7 + 1)
        for cp, hcls, padm in cases:
            # every row with one message; the rows the server computes with all of them (quick: a third of the refused rows)
            for m in (msgs if hcls is not None else [rnd.choice(msgs)]):
                if quick and hcls is None and rnd.random() < 0.6:
                    continue
                sig = {"k": "sign", "pad": cp.get("pad"), "dsa": cp.get("dsa"), "hash": cp.get("hash"), "alg": cp.get("alg")}
                r = item(s.drv.request(D.one("Sign", {"uid": pairs[0][0], "cp": cp, "data": m.hex()}, ver=(1, 4))))
                n += 1
                run.case(("sign", common.jdump(sig), len(m), r["status"], r["reason"]))
                if r["reason"] == "GeneralFailure":
                    run.violation("C06_internal_error", sig, {"response": r})
                    continue
                if hcls is None:
                    if r["status"] == "Success":
                        run.violation("C06_accepts_what_must_be_refused", sig, {"response": r})
                    v = item(s.drv.request(D.one("SignatureVerify", {"uid": pairs[0][1], "cp": cp, "data": m.hex(), "sig": "00" * 128}, ver=(1, 4))))
                    if v["reason"] == "GeneralFailure":
                        run.violation("C06_internal_error", dict(sig, k="verify"), {"response": v})
                    continue
                if r["status"] != "Success":
                    run.note_drift({"what": ["refuses a combination the reference computes"], "sig": sig, "reason": r["reason"]})
                    continue
                sg = bytes.fromhex(r["pl"]["sig"])
                # independent verification of what Sign produced
                try:
                    pk.verify(sg, m, apad.PSS(mgf=apad.MGF1(hcls()), salt_length=apad.PSS.MAX_LENGTH) if padm == "PSS" else apad.PKCS1v15(), hcls())
                except Exception as e:
                    run.violation("C06_signature_not_valid_by_reference", sig, {"error": repr(e)})

                def verify(pub, data, sgn):
                    v = item(s.drv.request(D.one("SignatureVerify", {"uid": pub, "cp": cp, "data": data.hex(), "sig": sgn.hex()}, ver=(1, 4))))
                    if v["reason"] == "GeneralFailure":
                        run.violation("C06_internal_error", dict(sig, k="verify"), {"response": v})
                    return v["pl"]["valid"] if v["status"] == "Success" else v["status"]
                n += 4
                if verify(pairs[0][1], m, sg) != "VALID":
                    run.violation("C06_verify_rejects_own_signature", sig, {})
                if verify(pairs[0][1], m + b"x", sg) == "VALID":
                    run.violation("C06_verify_accepts_other_message", sig, {})
                if verify(pairs[1][1], m, sg) == "VALID":
                    run.violation("C06_verify_accepts_other_key", sig, {})
                if verify(pairs[0][1], m, bytes([sg[0] ^ 1]) + sg[1:]) == "VALID":
                    run.violation("C06_verify_accepts_modified_signature", sig, {})
        # a private key that cannot produce the requested signature (an EC key under RSA parameters): a specific refusal
        from cryptography.hazmat.primitives.asymmetric import ec
        ecder = ec.generate_private_key(ec.SECP256R1()).private_bytes(serialization.Encoding.DER, serialization.PrivateFormat.PKCS8,
                                                                      serialization.NoEncryption())
        s.intern.define("ecpriv", ecder)
        rr = item(s.drv.request(D.one("Register", {"otype": "PrivateKey", "attrs": [{"name": "Cryptographic Usage Mask", "v": ["SIGN"]}],
                                                   "obj": {"type": "PrivateKey", "val": "ecpriv", "alg": "EC", "len": 256, "fmt": "PKCS_8"}}, ver=(1, 4))))
        if rr["status"] == "Success":
            s.drv.request(D.one("Activate", {"uid": rr["pl"]["uid"]}))
            for cp in ({"pad": "PSS", "dsa": "SHA256_WITH_RSA_ENCRYPTION"}, {"pad": "PKCS1v15", "alg": "RSA", "hash": "SHA_512"}):
                r = item(s.drv.request(D.one("Sign", {"uid": rr["pl"]["uid"], "cp": cp, "data": "0011"}, ver=(1, 4))))
                n += 1
                sig = {"k": "sign-eckey", "pad": cp.get("pad"), "dsa": cp.get("dsa"), "hash": cp.get("hash")}
                run.case(("sign", common.jdump(sig), r["status"], r["reason"]))
                if r["reason"] == "GeneralFailure":
                    run.violation("C06_internal_error", sig, {"response": r})
                elif r["status"] == "Success":
                    run.violation("C06_accepts_what_must_be_refused", sig, {"response": r})
        # generated symmetric keys: requested length, fresh on every call
        seen = set()
        for ln in (128, 192, 256):
            for _ in range(12 if quick else 40):
                r = item(s.drv.request(D.one("Create", {"otype": "SymmetricKey", "attrs": [
                    {"name": "Cryptographic Algorithm", "v": "AES"}, {"name": "Cryptographic Length", "v": ln},
                    {"name": "Cryptographic Usage Mask", "v": ["ENCRYPT"]}]})))
                g = item(s.drv.request(D.one("Get", {"uid": r["pl"]["uid"]})))
                v = s.intern.val(g["pl"]["obj"]["val"])
                n += 1
                if len(v) * 8 != ln:
                    run.violation("C06_generated_length", {"k": "create", "len": ln}, {"got": len(v) * 8})
                if v in seen or len(set(v)) < 4:
                    run.violation("C06_generated_key_not_fresh", {"k": "create", "len": ln}, {"value": v.hex()})
                seen.add(v)
    finally:
        s.close()
    run.traces += n
    run.extra["signature_and_generation_requests"] = n


def check(run, tier):
    quick = tier == "quick"
    if not R.selftest():
        raise common.MachineryFailure("reference implementations fail their published vectors")
    run.rule = ("CryptoTerms.tla maps every parameter tuple of the menu (9 algorithms x 8 modes x 4 paddings x IV absent/block/short x "
                "AAD x tag length; 13 MAC algorithms; 7 derivation methods x 6 hashes x data/salt/iterations present or not; 3 key-wrap "
                "modes) to a refusal or to the term the operation must compute, and TLC checks the algebraic law Decrypt o Encrypt = id "
                "on the terms; every row is executed through real Encrypt / Decrypt / MAC / DeriveKey / Get-with-wrapping requests "
                "on a real engine with several key sizes and message lengths {0, 1, block-1, block, block+1, 100}, the term is "
                "evaluated with reference implementations (hashlib/hmac, raw cipher primitives, RFC 4493 / 5869 / 3394 / SP 800-108 "
                "written in the harness and checked against published vectors) and compared byte for byte; GCM tamper tests; "
                "Sign/SignatureVerify over padding x digital-signature-algorithm / hash pairs with independent verification, other "
                "message / key / modified signature; generated keys have the requested length and are fresh. "
                "distinct = distinct (row, key size, data length, outcome).")
    cfg = tlc.write_cfg("CryptoTerms.cfg", "SPECIFICATION Spec\nINVARIANT Laws\nINVARIANT Emit\nCHECK_DEADLOCK FALSE\n")
    res = tlc.run("CryptoTerms", cfg, workers=1, allow_violation=True)
    run.add_tlc(res, "CryptoTerms: parameter menu + algebraic laws")
    if res.violated:
        raise common.MachineryFailure("CryptoTerms.tla violates %s" % res.violated)
    rows = res.tag("ROW")
    if len(rows) != res.distinct:
        raise common.MachineryFailure("CryptoTerms: %d rows for %d states" % (len(rows), res.distinct))
    enc = [r for r in rows if r["k"] == "enc"]
    rest = [r for r in rows if r["k"] != "enc"]
    n = common.NCPU
    with multiprocessing.Pool(n) as pool:
        outs = pool.map(_enc_rows, [(enc[i::n], common.SEED * 17 + i, 4 if quick else 6) for i in range(n)])
    nrun = 0
    for out in outs:
        for o in out:
            nrun += 1
            p = o["row"]["p"]
            sig = {"k": "enc", "alg": p["alg"], "mode": p["mode"], "pad": p["pad"], "iv": p["iv"], "aad": p["aad"], "taglen": p["taglen"]}
            run.case(("enc", common.jdump(sig), o["keylen"], o["datalen"], o["status"], o["reason"]))
            if o.get("refused_valid"):
                run.note_drift({"what": ["refuses a combination the reference computes"], "alg": p["alg"], "mode": p["mode"], "reason": o["reason"]})
            for c in sorted(set(o["bad"])):
                run.violation(c, sig, {"row": o["row"], "key_bytes": o["keylen"], "data_bytes": o["datalen"], "status": o["status"],
                                       "reason": o["reason"], "reference": o.get("ref_refuses")})
            if nrun % 1500 == 7:
                run.sample({"row": p, "prescribed": o["row"]["enc"], "observed": [o["status"], o["reason"]]})
    run.traces += nrun
    run.extra["encrypt_decrypt_cases"] = nrun
    other_rows(run, [r for r in rest if r["k"] != "sign"], quick)
    signatures(run, quick, [r for r in rest if r["k"] == "sign"])
    run.assumptions += ["arithmetic of the primitives is decided by the reference implementations (trusted base: hashlib, hmac, the raw "
                        "cipher primitives of `cryptography` called directly, RFC 4493/5869/3394/SP 800-108 code in harness/cryptoref.py "
                        "checked against published vectors); TLA+ decides plumbing and refusals",
                        "freshness can only be refuted: distinctness over the generated sample"]
