"""C02 - everything emitted is spec-conformant TTLV; responses follow the envelope."""
import multiprocessing
import random

from .. import sesstrace as ST
from .. import common, tlc, absmap as A, engdrv as D, engcheck as E, sessdrv as S, ttlvcheck as TV, enggen as G

common.use_repo()
from kmip.core import enums, primitives, utils as kutils  # noqa
from kmip.core.messages import messages as kmessages  # noqa


def enc(obj):
    s = kutils.BytearrayStream()
    obj.write(s)
    return bytes(s.buffer)


def prim_records():
    """Primitive encodings against the specification's own encoder (TTLV.tla Enc / IntVal / ...)."""
    recs = []
    T = enums.Tags
    def num(n, width):
        return {"neg": n < 0, "mag": list(abs(n).to_bytes(width, "big"))}
    for v in [0, 1, -1, 127, 128, 255, 256, -128, -129, 2 ** 31 - 1, -2 ** 31, 65535, -65536, 1000000]:
        recs.append(("Integer(%d)" % v, primitives.Integer(v, T.BATCH_COUNT), dict(tag=T.BATCH_COUNT.value, typ=2, **num(v, 4))))
    for v in [0, 1, -1, 2 ** 31, -2 ** 31 - 1, 2 ** 63 - 1, -2 ** 63, 2 ** 32, 1234567890123]:
        recs.append(("LongInteger(%d)" % v, primitives.LongInteger(v, T.USAGE_LIMITS_COUNT), dict(tag=T.USAGE_LIMITS_COUNT.value, typ=3, **num(v, 8))))
    for v in [0, 1, -1, 255, 256, -256, 2 ** 63 - 1, 2 ** 63, 2 ** 64 - 1, 2 ** 64, -2 ** 63, -2 ** 63 - 1, 2 ** 127, -2 ** 127,
              2 ** 255 - 19, -(2 ** 200), 2 ** 1024 - 105, 2 ** 2048 - 1, 2 ** 2047, -1000]:
        w = max(1, (abs(v).bit_length() + 8) // 8)
        recs.append(("BigInteger(%d bits)" % v.bit_length(), primitives.BigInteger(v, T.PRIME_FIELD_SIZE),
                     dict(tag=T.PRIME_FIELD_SIZE.value, typ=4, neg=v < 0, mag=list(abs(v).to_bytes(w, "big")))))
    for e in [enums.ObjectType.CERTIFICATE, enums.ObjectType.OPAQUE_DATA, enums.ResultReason.GENERAL_FAILURE,
              enums.CryptographicAlgorithm.AES, enums.Operation.SET_ATTRIBUTE]:
        recs.append(("Enumeration(%s)" % e.name, primitives.Enumeration(type(e), e, T.OBJECT_TYPE),
                     dict(tag=T.OBJECT_TYPE.value, typ=5, **num(e.value, 4))))
    for v in [True, False]:
        recs.append(("Boolean(%s)" % v, primitives.Boolean(v, T.SENSITIVE), dict(tag=T.SENSITIVE.value, typ=6, neg=v, mag=[])))
    for s in ["", "a", "abcdefg", "abcdefgh", "abcdefghi", "x" * 15, "x" * 16, "x" * 17, "x" * 255, "name with spaces", "\x7f~"]:
        recs.append(("TextString(len %d)" % len(s), primitives.TextString(s, T.NAME_VALUE),
                     dict(tag=T.NAME_VALUE.value, typ=7, neg=False, mag=list(s.encode("utf-8")))))
    for n in [0, 1, 7, 8, 9, 15, 16, 17, 31, 32, 33, 256]:
        b = bytes((i * 73 + 5) % 256 for i in range(n))
        recs.append(("ByteString(len %d)" % n, primitives.ByteString(b, T.KEY_MATERIAL),
                     dict(tag=T.KEY_MATERIAL.value, typ=8, neg=False, mag=list(b))))
    for v in [0, 1, 1000000000, 2 ** 31, 2 ** 40, 253402300799]:
        recs.append(("DateTime(%d)" % v, primitives.DateTime(v, T.TIME_STAMP), dict(tag=T.TIME_STAMP.value, typ=9, **num(v, 8))))
    for v in [0, 1, 86400, 2 ** 31 - 1, 2 ** 31, 2 ** 32 - 1]:
        recs.append(("Interval(%d)" % v, primitives.Interval(v, T.LEASE_TIME), dict(tag=T.LEASE_TIME.value, typ=10, **num(v, 4))))
    out, unencodable = [], []
    for name, obj, prim in recs:
        try:
            out.append({"id": "prim:" + name, "kind": "prim", "bytes": enc(obj), "prim": prim})
        except Exception as e:
            unencodable.append((name, "%s: %s" % (type(e).__name__, e)))
    return out, unencodable


def _traffic(args):
    """Real traffic through a real session: requests of random histories (all versions), undecodable
    frames, unauthenticated connections, size-limited requests."""
    wid, seed, nreq = args
    common.scratch()
    S.bound_rsa()          # damaged frames may ask for absurd RSA key sizes
    r = random.Random(seed)
    drv = D.EngineDriver(intern=E.new_interner())
    cert = S.make_cert(1, "client")
    recs = []
    try:
        gen = G.Gen(seed, users=("alice",), versions=G.VERSIONS + [(3, 0)])
        conn = S.FakeConn(b"", cert=cert)
        k = 0
        for i in range(nreq):
            D.CLOCK.now += 1
            req = gen.request(0.3)
            if r.random() < 0.1:
                req["maxsize"] = r.choice([8, 64, 200, 400, 100000])
            try:
                msg = A.build_request(req, drv.intern, now=int(D.CLOCK.now))
                kv = A.KV(tuple(req["ver"]))
                data = A.encode(msg) if kv is None else A.encode(msg, kv)
            except Exception:
                continue
            damaged = r.random() < 0.1
            if damaged:               # damage the body, keep the framing
                b = bytearray(data)
                b[r.randrange(8, len(b))] ^= 1 << r.randrange(8)
                data = bytes(b)
            try:
                m = kmessages.RequestMessage()
                m.read(kutils.BytearrayStream(data))
                decoded = not ST.decoder_rejects(data)     # fully decodable: consistent framing, everything consumed
            except Exception:
                decoded = False
            c = S.FakeConn(data, cert=cert if r.random() < 0.95 else None)
            esc = S.run_session(drv.engine, c, tls_client_auth=True)
            gen.observe(None, drv.state())
            recs.append({"id": "w%d:req%d" % (wid, i), "kind": "any", "bytes": data} if not damaged else None)
            # the version the request states ON THE WIRE (a damaged frame that still decodes may state another one)
            pv = m.request_header.protocol_version if decoded else None
            wire = (pv.major, pv.minor) if pv is not None else None
            ver = wire[0] * 10 + wire[1] if wire else -1
            for j, resp in enumerate(c.sent):
                recs.append({"id": "w%d:resp%d.%d" % (wid, i, j), "kind": "response", "bytes": resp,
                             "reqver": ver if (decoded and c.cert is not None and wire in G.VERSIONS) else -1})
            if len(c.sent) != 1 or esc:
                recs.append({"id": "w%d:noresp%d" % (wid, i), "kind": "missing", "bytes": b"", "what": "%d responses, escaped %s" % (len(c.sent), esc),
                             "request": data.hex()})
    finally:
        drv.close()
    return [x for x in recs if x]


def check(run, tier):
    quick = tier == "quick"
    run.rule = ("TTLV.tla is an independent definition of the wire format (encoder of abstract trees with two's complement on byte "
                "sequences, recursive-descent recogniser; lemmas Parse(Enc(t)) = t etc. checked by TLC on a bounded universe of "
                "trees). Bound to the code by validating bytes the implementation emits: (1) primitive encodings at boundary values "
                "(sign/width boundaries, lengths 0..17 mod 8, 64-bit-aligned big integers) must equal Enc of the intended value; "
                "(2) every request the client side encodes and every response a real KmipSession sends over random histories in all "
                "versions (successes, every error class, undecodable frames, unauthenticated connections, size-limited requests) "
                "must be well-formed, canonical TTLV; every response must satisfy KmipEnvelope.tla and echo the request's version "
                "when the server decoded the request. distinct = distinct (kind, outcome, length) records.")
    cfg = tlc.write_cfg("MC_TTLV.cfg", "SPECIFICATION Spec\nINVARIANT RoundTrip\nINVARIANT Numbers\nINVARIANT Rejects\nCHECK_DEADLOCK FALSE\n")
    res = tlc.run("MC_TTLV", cfg, allow_violation=True)
    run.add_tlc(res, "MC_TTLV: Parse/Enc lemmas on bounded trees")
    if res.violated:
        raise common.MachineryFailure("TTLV.tla lemmas fail: %s" % res.violated)
    prims, unenc = prim_records()
    for name, why in unenc:
        run.violation("C02_primitive_unencodable", {"prim": name.split("(")[0], "why": why.split(":")[0]}, {"primitive": name, "error": why})
    S.make_cert(1, "client")
    E.rsa_pair()
    n = common.NCPU
    nreq = 500 if quick else 2500
    with multiprocessing.Pool(n) as pool:
        outs = pool.map(_traffic, [(i, common.SEED * 101 + i, nreq) for i in range(n)])
    recs = list(prims)
    for o in outs:
        for rec in o:
            if rec["kind"] == "missing":
                run.violation("C02_no_single_response", {"what": rec["what"][:40]}, rec)
            else:
                recs.append(rec)
    fails, r2 = TV.validate(recs, name="c02")
    run.add_tlc(r2, "TraceTTLV(c02): %d byte strings, %d bytes" % (len(recs), sum(len(x["bytes"]) for x in recs)))
    by = {x["id"]: x for x in recs}
    for rid, fl in fails.items():
        x = by[rid]
        run.violation("C02_" + ("primitive" if x["kind"] == "prim" else "response" if x["kind"] == "response" else "bytes"),
                      {"fails": sorted(fl)[:2], "what": rid.split(":")[1].split("(")[0] if x["kind"] == "prim" else x["kind"]},
                      {"id": rid, "bytes": x["bytes"].hex(), "fails": fl, "reqver": x.get("reqver")})
    run.traces += len(recs)
    for x in recs:
        run.case((x["kind"], len(x["bytes"]) % 64, x["id"] in fails))
    run.extra["byte_strings_validated"] = len(recs)
    run.extra["primitive_encodings"] = len(prims)
    run.sample({"primitive": prims[3]["id"], "bytes": prims[3]["bytes"].hex()})
    run.sample({"response": recs[-1]["bytes"].hex()[:160]})
