"""C17 - no request is evaluated before the client's identity is established."""
import multiprocessing

from .. import common, tlc, absmap as A, engdrv as D, engcheck as E, sessdrv as S

LEVEL = "model_checking"
# "lookalike": extended key usages whose dotted OIDs merely resemble clientAuth (1.3.6.1.5.5.7.3.2)
EKU = {"absent": "absent", "other": "other", "client": "client",
       "lookalike": ["1.3.6.1.5.5.7.3.21", "1.3.6.1.5.5.7.3.20", "1.3.6.1.5.5.7.3.1"]}


def plugin_settings(plugins):
    settings, behaviour = [], {}
    for k, kind in enumerate(plugins, 1):
        host = "slugs%d" % k
        if kind == "unsupported":
            settings.append(("auth:ldap%d" % k, {"enabled": "True", "url": "http://%s/" % host}))
        elif kind == "disabled":
            settings.append(("auth:slugs%d" % k, {"enabled": "False", "url": "http://%s/" % host}))
        else:
            settings.append(("auth:slugs%d" % k, {"enabled": "True", "url": "http://%s/" % host}))
            behaviour[host] = kind
    return settings, behaviour


def _rows(chunk):
    common.scratch()
    drv = D.EngineDriver(intern=E.new_interner())
    out = []
    try:
        intern = drv.intern
        req = D.one("Create", {"otype": "SymmetricKey", "attrs": [
            {"name": "Cryptographic Algorithm", "v": "AES"}, {"name": "Cryptographic Length", "v": 128},
            {"name": "Cryptographic Usage Mask", "v": ["ENCRYPT"]}]})
        valid = A.encode(A.build_request(req, intern), A.KV((1, 2)))
        bad = valid[:40] + b"\xff\xff\xff" + valid[43:]
        bad = bad[:8] + bad[8:]                                   # same frame length, corrupted body
        for row in chunk:
            cfg = row["cfg"]
            cert = None if cfg["cert"] == "absent" else S.make_cert({"cn0": 0, "cn1": 1, "cn2": 2}[cfg["cert"]], EKU[cfg["eku"]])
            settings, behaviour = plugin_settings(cfg["plugins"])
            spy = S.EngineSpy(drv.engine)
            conn = S.FakeConn(valid if cfg["req"] == "valid" else bad, cert=cert)
            before = drv.state()
            escaped = S.run_session(spy, conn, tls_client_auth=cfg["tlsauth"], auth_settings=settings,
                                    slugs=S.Slugs(behaviour))
            after = drv.state()
            reason, status, ver = "", "", None
            nresp = len(conn.sent)
            if nresp >= 1:
                try:
                    r = A.abs_response(A.decode_response(conn.sent[0]), intern)
                    it = r["items"][0]
                    reason, status, ver = it["reason"], it["status"], r["ver"]
                except Exception as e:
                    reason = "undecodable response: %r" % (e,)
            ident = spy.calls[0] if spy.calls else None
            out.append({"cfg": cfg, "called": len(spy.calls), "user": ident[0] if ident else "",
                        "groups": (list(ident[1]) if ident[1] is not None else ["-nogroups-"]) if ident else ["-nogroups-"],
                        "reason": reason, "status": status, "nresp": nresp, "escaped": escaped, "ver": ver,
                        "changed": len(after["objs"]) != len(before["objs"]) or after["seq"] != before["seq"]})
    finally:
        drv.close()
    return out


def check(run, tier):
    quick = tier == "quick"
    maxp = 2 if quick else 3
    run.rule = ("TLC enumerates the full product certificate {absent, 0/1/2 common names} x EKU {absent, without, with clientAuth} x "
                "enable_tls_client_auth x plugin lists of length <= %d over {disabled, unsupported name, enabled x {ok, user 404, "
                "groups 404, unreachable, bad JSON}} x request {valid, undecodable}; Session.tla's message loop (SessionOutcome) is "
                "checked against the property's own definition (Established / EstablishedGroups); every enumerated row is then run "
                "on a real KmipSession (real DER certificates, scripted SLUGS, real engine behind a spy) and the observed entry / "
                "identity / response / store are judged by the same predicates. distinct = rows executed." % maxp)
    run.exhaustive = True
    cfg = tlc.write_cfg("MC_C17.cfg", "SPECIFICATION Spec\nCONSTANT MaxPlugins = %d\nINVARIANT Holds\nINVARIANT Emit\nCHECK_DEADLOCK FALSE\n" % maxp)
    res = tlc.run("MC_C17", cfg, workers=1, allow_violation=True, timeout=1800)
    run.add_tlc(res, "MC_C17 plugins<=%d" % maxp)
    if res.violated:
        raise common.MachineryFailure("Session.tla: the modelled message loop violates C17: %s" % res.violated)
    rows = res.tag("ROW")
    if len(rows) != res.distinct:
        raise common.MachineryFailure("MC_C17: %d rows printed for %d configurations" % (len(rows), res.distinct))
    # certificates are generated once, before forking
    for ncn in (0, 1, 2):
        for eku in EKU.values():
            S.make_cert(ncn, eku)
    n = common.NCPU
    chunks = [rows[i::n] for i in range(n)]
    with multiprocessing.Pool(n) as pool:
        outs = pool.map(_rows, chunks)
    by = {}
    for row in rows:
        by[common.jdump(row["cfg"])] = row
    nrun = 0
    for out in outs:
        for o in out:
            nrun += 1
            row = by[common.jdump(o["cfg"])]
            cfg = o["cfg"]
            est = row["established"]
            want_groups = row["groups"]
            sig = {"cert": cfg["cert"], "eku": cfg["eku"], "tlsauth": cfg["tlsauth"], "plugins": cfg["plugins"], "req": cfg["req"]}
            bad = []
            if o["called"]:
                if not (est and cfg["req"] == "valid"):
                    bad.append("C17_entry")
                elif o["user"] != "alice" or o["groups"] != want_groups:
                    bad.append("C17_identity")
                if o["called"] > 1:
                    bad.append("C17_entered_twice")
            if not est:
                if o["called"] or o["changed"]:
                    bad.append("C17_refusal")
                if cfg["req"] == "valid" and o["reason"] != "AuthenticationNotSuccessful":
                    bad.append("C17_reason")
            if est and cfg["req"] == "valid" and not o["called"]:
                run.note_drift({"what": ["established-but-not-served"], "cfg": sig, "reason": o["reason"]})
            if o["nresp"] != 1 or o["escaped"]:
                bad.append("C17_one_response")
            m = row["out"]
            if bool(o["called"]) != m["called"] or (m["reason"] and o["reason"] != m["reason"]):
                run.note_drift({"what": ["outcome"], "cfg": sig, "observed": [o["called"], o["reason"]],
                                "model": [m["called"], m["reason"]]})
            for c in bad:
                run.violation(c, sig, {"configuration": cfg, "observed": o, "prescribed": {"established": est, "groups": want_groups}})
            run.case(common.jdump(sig))
            if nrun % 997 == 1:
                run.sample({"configuration": cfg, "observed": {k: o[k] for k in ("called", "user", "groups", "reason", "changed")}})
    run.traces += nrun
    run.extra["rows_executed_on_real_session"] = nrun
    run.assumptions.append("SLUGS outcomes modelled: ok, user 404, groups 404, unreachable, groups body not JSON (other HTTP statuses are outside the menu)")
