"""C17 - no request is evaluated before the client's identity is established."""
import multiprocessing
import os

from .. import common, tlc, absmap as A, engdrv as D, engcheck as E, sessdrv as S, sesstrace as ST

LEVEL = "model_checking"
# "lookalike": extended key usages whose dotted OIDs merely resemble clientAuth (1.3.6.1.5.5.7.3.2)
EKU = {"absent": "absent", "other": "other", "client": "client",
       "lookalike": ["1.3.6.1.5.5.7.3.21", "1.3.6.1.5.5.7.3.20", "1.3.6.1.5.5.7.3.1"],
       "any": ["2.5.29.37.0", "1.3.6.1.5.5.7.3.1"]}


def plugin_settings(plugins):
    settings, behaviour = [], {}
    for k, kind in enumerate(plugins, 1):
        host = "slugs%d" % k
        if kind == "unsupported":
            settings.append(("auth:ldap%d" % k, {"enabled": "True", "url": "http://%s/" % host}))
        elif kind == "disabled":
            settings.append(("auth:slugs%d" % k, {"enabled": "False", "url": "http://%s/" % host}))
        else:
            settings.append(("auth:slugs%d" % k, {"enabled": "True", "url": "http://%s/" % host}))
            behaviour[host] = kind
    return settings, behaviour


def _rows(chunk):
    common.scratch()
    drv = D.EngineDriver(intern=E.new_interner())
    out = []
    try:
        intern = drv.intern
        req = D.one("Create", {"otype": "SymmetricKey", "attrs": [
            {"name": "Cryptographic Algorithm", "v": "AES"}, {"name": "Cryptographic Length", "v": 128},
            {"name": "Cryptographic Usage Mask", "v": ["ENCRYPT"]}]})
        valid = A.encode(A.build_request(req, intern), A.KV((1, 2)))
        bad = valid[:40] + b"\xff\xff\xff" + valid[43:]
        bad = bad[:8] + bad[8:]                                   # same frame length, corrupted body
        for row in chunk:
            cfg = row["cfg"]
            cert = None if cfg["cert"] == "absent" else S.make_cert({"cn0": 0, "cn1": 1, "cn2": 2}[cfg["cert"]], EKU[cfg["eku"]])
            settings, behaviour = plugin_settings(cfg["plugins"])
            data = valid if cfg["req"] == "valid" else bad
            conn = S.FakeConn(data, cert=cert)
            spy = S.EngineSpy(drv.engine, log=conn.log)
            before = drv.state()
            escaped = S.run_session(spy, conn, tls_client_auth=cfg["tlsauth"], auth_settings=settings,
                                    slugs=S.Slugs(behaviour, log=conn.log))
            after = drv.state()
            trace = ST.make("r%d" % row["n"], cfg, data, cfg["plugins"], conn, intern)
            reason, status, ver = "", "", None
            nresp = len(conn.sent)
            if nresp >= 1:
                try:
                    r = A.abs_response(A.decode_response(conn.sent[0]), intern)
                    it = r["items"][0]
                    reason, status, ver = it["reason"], it["status"], r["ver"]
                except Exception as e:
                    reason = "undecodable response: %r" % (e,)
            ident = spy.calls[0] if spy.calls else None
            out.append({"cfg": cfg, "called": len(spy.calls), "user": ident[0] if ident else "",
                        "groups": (list(ident[1]) if ident[1] is not None else ["-nogroups-"]) if ident else ["-nogroups-"],
                        "reason": reason, "status": status, "nresp": nresp, "escaped": escaped, "ver": ver, "trace": trace,
                        "changed": len(after["objs"]) != len(before["objs"]) or after["seq"] != before["seq"]})
    finally:
        drv.close()
    return out


def _seq_rows(chunk):
    """Sequences of requests over ONE connection (one persistent KmipSession) while the scripted SLUGS services change
    their answers between the requests."""
    from kmip.services.server.auth import slugs as slugs_mod
    common.scratch()
    drv = D.EngineDriver(intern=E.new_interner())
    out = []
    try:
        req = D.one("Create", {"otype": "SymmetricKey", "attrs": [
            {"name": "Cryptographic Algorithm", "v": "AES"}, {"name": "Cryptographic Length", "v": 128},
            {"name": "Cryptographic Usage Mask", "v": ["ENCRYPT"]}]})
        valid = A.encode(A.build_request(req, drv.intern), A.KV((1, 2)))
        cert = S.make_cert(1, EKU["client"])
        for seq in chunk:
            settings, behaviour = plugin_settings(seq[0]["cfg"]["plugins"])
            slugs = S.Slugs(dict(behaviour))
            spy = S.EngineSpy(drv.engine)
            conn = S.Connection(spy, cert, tls_client_auth=True, auth_settings=settings)
            spy.log = slugs.log = conn.conn.log
            old = slugs_mod.requests.get
            slugs_mod.requests.get = slugs
            obs = []
            try:
                for row in seq:
                    _, b = plugin_settings(row["cfg"]["plugins"])
                    slugs.behaviour.clear()
                    slugs.behaviour.update(b)
                    n0 = len(spy.calls)
                    before = drv.state()
                    sent = conn.exchange(valid)
                    after = drv.state()
                    reason = ""
                    if len(sent) >= 1:
                        try:
                            reason = A.abs_response(A.decode_response(sent[0]), drv.intern)["items"][0]["reason"]
                        except Exception as e:
                            reason = "undecodable response: %r" % (e,)
                    ident = spy.calls[n0] if len(spy.calls) > n0 else None
                    obs.append({"called": len(spy.calls) - n0, "user": ident[0] if ident else "",
                                "groups": (list(ident[1]) if ident[1] is not None else ["-nogroups-"]) if ident else ["-nogroups-"],
                                "reason": reason, "nresp": len(sent), "escaped": list(conn.escaped),
                                "changed": len(after["objs"]) != len(before["objs"]) or after["seq"] != before["seq"]})
            finally:
                slugs_mod.requests.get = old
            trace = ST.make("s%d" % seq[0]["n"], {"cert": "cn1", "eku": "client", "tlsauth": True}, valid * len(seq),
                            [r["cfg"]["plugins"] for r in seq], conn.conn, drv.intern, eof=False)
            out.append({"seq": seq, "obs": obs, "trace": trace})
    finally:
        drv.close()
    return out


def sequences(run, quick):
    cfg = tlc.write_cfg("MC_C17Seq.cfg", "SPECIFICATION SeqSpec\nCONSTANT SeqLen = 2\nINVARIANT SeqHolds\nINVARIANT SeqEmit\nCHECK_DEADLOCK FALSE\n")
    res = tlc.run("MC_C17Seq", cfg, workers=1, allow_violation=True, timeout=1800)
    run.add_tlc(res, "MC_C17Seq: pairs of requests on one connection, plugin answers changing in between")
    if res.violated:
        raise common.MachineryFailure("Session.tla: the modelled message loop violates C17 on sequences: %s" % res.violated)
    seqs = res.tag("SEQ")
    if len(seqs) != res.distinct:
        raise common.MachineryFailure("MC_C17Seq: %d rows printed for %d sequences" % (len(seqs), res.distinct))
    for i, q in enumerate(seqs):
        q[0]["n"] = i
    if quick:
        # all single-plugin pairs, every 5th two-plugin pair
        seqs = [q for i, q in enumerate(seqs) if len(q[0]["cfg"]["plugins"]) == 1 or i % 5 == 0]
    n = common.NCPU
    with multiprocessing.Pool(n) as pool:
        outs = pool.map(_seq_rows, [seqs[i::n] for i in range(n)])
    nrun = 0
    ST.judge(run, [o["trace"] for out in outs for o in out], name="c17seq", owners=("C17",))
    for out in outs:
        for o in out:
            for i, (row, ob) in enumerate(zip(o["seq"], o["obs"])):
                nrun += 1
                est, want = row["established"], row["groups"]
                sig = {"seq": [r["cfg"]["plugins"] for r in o["seq"]], "request": i + 1}
                bad = []
                if ob["called"]:
                    if not est:
                        bad.append("C17_entry")
                    elif ob["user"] != "alice" or ob["groups"] != want:
                        bad.append("C17_identity")
                    if ob["called"] > 1:
                        bad.append("C17_entered_twice")
                if not est:
                    if ob["called"] or ob["changed"]:
                        bad.append("C17_refusal")
                    if ob["reason"] != "AuthenticationNotSuccessful":
                        bad.append("C17_reason")
                if est and not ob["called"]:
                    run.note_drift({"what": ["established-but-not-served"], "cfg": sig, "reason": ob["reason"]})
                if ob["nresp"] != 1 or ob["escaped"]:
                    bad.append("C17_one_response")
                for c in bad:
                    run.violation(c, sig, {"sequence": [r["cfg"] for r in o["seq"]], "request": i + 1, "observed": o["obs"],
                                           "prescribed": {"established": est, "groups": want}})
                run.case(common.jdump(sig))
    run.traces += nrun
    run.extra["requests_in_sequences_on_real_session"] = nrun


# ---------------------------------------------------------------- the whole system

CFG_KIND = {"disabled": "disabled", "unsupported": "unsupported"}


def _system_group(args):
    """One configured KmipServer (configuration file -> TLS -> sessions -> engine) and the rows that share its configuration."""
    import sqlite3
    import shutil
    from .. import sysdrv
    gid, tlsauth, kinds, rows, pki, certs = args
    common.scratch()
    sysdrv.install_wrap_socket()
    from kmip.core import enums
    from kmip.pie import exceptions as pexc
    root = os.path.join(common.scratch(), "sys%d" % gid)
    plugins = []
    for k, ck in enumerate(kinds, 1):
        if ck == "unsupported":
            plugins.append(("auth:ldap%d" % k, True, "slugs%d" % k))
        else:
            plugins.append(("auth:slugs%d" % k, ck == "enabled", "slugs%d" % k))
    sysm = sysdrv.System(root, tls_client_auth=tlsauth, plugins=plugins, issue=lambda *a: None)
    sysm.pki = pki
    # rewrite the configuration with the shared PKI paths
    txt = open(sysm.conf).read().replace(os.path.join(os.path.dirname(root), "pki"), pki)
    open(sysm.conf, "w").write(txt)
    out = []
    try:
        sysm.start()
        for row in rows:
            cfg = row["cfg"]
            sysm.set_slugs({"slugs%d" % k: kind for k, kind in enumerate(cfg["plugins"], 1) if kind not in ("disabled", "unsupported")})
            cert, key = certs.get("%s/%s" % (cfg["cert"], cfg["eku"]), (None, None))
            before = _owners(sysm.db)
            obs = {"outcome": "", "detail": ""}
            try:
                cl = sysm.client(cert, key)
                cl.open()
                try:
                    uid = cl.create(enums.CryptographicAlgorithm.AES, 128)
                    obs = {"outcome": "served", "detail": str(uid)}
                finally:
                    cl.close()
            except pexc.KmipOperationFailure as e:
                obs = {"outcome": "refused", "detail": getattr(e.reason, "name", str(e.reason))}
            except Exception as e:
                obs = {"outcome": "transport", "detail": "%s: %s" % (type(e).__name__, str(e)[:80])}
            after = _owners(sysm.db)
            new = [o for u, o in after.items() if u not in before]
            out.append({"n": row["n"], "cfg": cfg, "obs": obs, "new_owners": new})
    finally:
        sysm.stop()
        shutil.rmtree(root, ignore_errors=True)
    return out


def _owners(db):
    import sqlite3
    for _ in range(20):
        try:
            con = sqlite3.connect("file:%s?mode=ro" % db, uri=True, timeout=10)
            try:
                return dict(con.execute("select uid, owner from managed_objects").fetchall())
            finally:
                con.close()
        except sqlite3.OperationalError:
            import time
            time.sleep(0.1)
    return {}


def system_rows(run, rows, quick):
    """The same rows end to end: the configuration FILE decides what the sessions are created with (enable_tls_client_auth,
    the [auth:*] blocks in file order), a real TLS handshake delivers the certificate, a real client sends the request."""
    import os
    from .. import sysdrv
    rows = [r for r in rows if r["cfg"]["req"] == "valid"]
    if quick:
        rows = [r for i, r in enumerate(rows) if len(r["cfg"]["plugins"]) <= 1 or i % 9 == 0]
    pki = os.path.join(common.scratch(), "pki")
    issue = sysdrv.make_pki(pki)
    certs = {}
    for cert, cns in (("cn0", []), ("cn1", ["alice"]), ("cn2", ["alice", "alice2"])):
        for eku in ("absent", "other", "lookalike", "any", "client"):
            certs["%s/%s" % (cert, eku)] = issue("%s_%s" % (cert, eku), cns, eku)
    groups = {}
    for r in rows:
        kinds = tuple(CFG_KIND.get(k, "enabled") for k in r["cfg"]["plugins"])
        groups.setdefault((r["cfg"]["tlsauth"], kinds), []).append(r)
    tasks = [(i, tls, kinds, rs, pki, certs) for i, ((tls, kinds), rs) in enumerate(sorted(groups.items(), key=lambda x: repr(x[0])))]
    import concurrent.futures
    # (workers that start server processes of their own: a multiprocessing.Pool's daemonic workers may not have children)
    with concurrent.futures.ProcessPoolExecutor(max_workers=min(common.NCPU, 8)) as pool:
        outs = list(pool.map(_system_group, tasks))
    by = {r["n"]: r for r in rows}
    n = 0
    for out in outs:
        for o in out:
            n += 1
            row = by[o["n"]]
            cfg, est = o["cfg"], row["established"]
            sig = {"level": "system", "cert": cfg["cert"], "eku": cfg["eku"], "tlsauth": cfg["tlsauth"], "plugins": cfg["plugins"]}
            bad = []
            served = o["obs"]["outcome"] == "served"
            if served or o["new_owners"]:
                if not est:
                    bad.append("C17_entry")
                elif any(w != "alice" for w in o["new_owners"]):
                    bad.append("C17_identity")
            if not est and cfg["cert"] != "absent" and o["obs"]["outcome"] == "refused" and o["obs"]["detail"] != "AUTHENTICATION_NOT_SUCCESSFUL":
                bad.append("C17_reason")
            # (OpenSSL itself refuses a client certificate whose extended key usage excludes client authentication, whatever
            # enable_tls_client_auth says: such rows end in the handshake)
            tls_purpose = o["obs"]["outcome"] == "transport" and cfg["eku"] in ("other", "lookalike", "any")
            if est and not served and not tls_purpose:
                run.note_drift({"what": ["established-but-not-served (system)"], "cfg": sig, "observed": o["obs"]})
            for c in bad:
                run.violation(c, sig, {"configuration": cfg, "observed": o, "prescribed": {"established": est}})
            run.case(("system", common.jdump(sig)))
    run.traces += n
    run.extra["rows_executed_on_the_whole_system"] = {"rows": n, "servers_started": len(tasks)}


def check(run, tier):
    quick = tier == "quick"
    maxp = 2 if quick else 3
    run.rule = ("TLC enumerates the full product certificate {absent, 0/1/2 common names} x EKU {absent, without, with clientAuth} x "
                "enable_tls_client_auth x plugin lists of length <= %d over {disabled, unsupported name, enabled x {ok, user 404, "
                "groups 404, unreachable, bad JSON}} x request {valid, undecodable}; Session.tla's message loop (SessionOutcome) is "
                "checked against the property's own definition (Established / EstablishedGroups); every enumerated row is then run "
                "on a real KmipSession (real DER certificates, scripted SLUGS, real engine behind a spy) and the observed entry / "
                "identity / response / store are judged by the same predicates. distinct = rows executed." % maxp)
    run.exhaustive = True
    cfg = tlc.write_cfg("MC_C17.cfg", "SPECIFICATION Spec\nCONSTANT MaxPlugins = %d\nINVARIANT Holds\nINVARIANT Emit\nCHECK_DEADLOCK FALSE\n" % maxp)
    res = tlc.run("MC_C17", cfg, workers=1, allow_violation=True, timeout=1800)
    run.add_tlc(res, "MC_C17 plugins<=%d" % maxp)
    if res.violated:
        raise common.MachineryFailure("Session.tla: the modelled message loop violates C17: %s" % res.violated)
    rows = res.tag("ROW")
    if len(rows) != res.distinct:
        raise common.MachineryFailure("MC_C17: %d rows printed for %d configurations" % (len(rows), res.distinct))
    for i, row in enumerate(rows):
        row["n"] = i
    # certificates are generated once, before forking
    for ncn in (0, 1, 2):
        for eku in EKU.values():
            S.make_cert(ncn, eku)
    n = common.NCPU
    chunks = [rows[i::n] for i in range(n)]
    with multiprocessing.Pool(n) as pool:
        outs = pool.map(_rows, chunks)
    by = {}
    for row in rows:
        by[common.jdump(row["cfg"])] = row
    nrun = 0
    # every run as an event trace against the small-step session machine (SessionLoop.tla)
    ST.judge(run, [o["trace"] for out in outs for o in out], name="c17", owners=("C17",))
    for out in outs:
        for o in out:
            nrun += 1
            row = by[common.jdump(o["cfg"])]
            cfg = o["cfg"]
            est = row["established"]
            want_groups = row["groups"]
            sig = {"cert": cfg["cert"], "eku": cfg["eku"], "tlsauth": cfg["tlsauth"], "plugins": cfg["plugins"], "req": cfg["req"]}
            bad = []
            if o["called"]:
                if not (est and cfg["req"] == "valid"):
                    bad.append("C17_entry")
                elif o["user"] != "alice" or o["groups"] != want_groups:
                    bad.append("C17_identity")
                if o["called"] > 1:
                    bad.append("C17_entered_twice")
            if not est:
                if o["called"] or o["changed"]:
                    bad.append("C17_refusal")
                if cfg["req"] == "valid" and o["reason"] != "AuthenticationNotSuccessful":
                    bad.append("C17_reason")
            if est and cfg["req"] == "valid" and not o["called"]:
                run.note_drift({"what": ["established-but-not-served"], "cfg": sig, "reason": o["reason"]})
            if o["nresp"] != 1 or o["escaped"]:
                bad.append("C17_one_response")
            m = row["out"]
            if bool(o["called"]) != m["called"] or (m["reason"] and o["reason"] != m["reason"]):
                run.note_drift({"what": ["outcome"], "cfg": sig, "observed": [o["called"], o["reason"]],
                                "model": [m["called"], m["reason"]]})
            for c in bad:
                run.violation(c, sig, {"configuration": cfg, "observed": o, "prescribed": {"established": est, "groups": want_groups}})
            run.case(common.jdump(sig))
            if nrun % 997 == 1:
                run.sample({"configuration": cfg, "observed": {k: o[k] for k in ("called", "user", "groups", "reason", "changed")}})
    run.traces += nrun
    run.extra["rows_executed_on_real_session"] = nrun
    system_rows(run, rows, quick)
    sequences(run, quick)
    run.assumptions.append("SLUGS outcomes modelled: ok, user 404, groups 404, unreachable, groups body not JSON (other HTTP statuses are outside the menu)")
