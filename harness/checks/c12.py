"""C12 - the session answers any bytes safely, once, and keeps going."""
import multiprocessing
import os
import random
import struct

from .. import common, tlc, absmap as A, engdrv as D, engcheck as E, sessdrv as S, ttlvcheck as TV, enggen as G, sesstrace as ST

common.use_repo()
from kmip.core import utils as kutils  # noqa
from kmip.core.messages import messages as kmessages  # noqa


# ---------------------------------------------------------------- concrete frames

def mkframes(intern):
    cre = D.one("Create", {"otype": "SymmetricKey", "attrs": [
        {"name": "Cryptographic Algorithm", "v": "AES"}, {"name": "Cryptographic Length", "v": 128},
        {"name": "Cryptographic Usage Mask", "v": ["ENCRYPT"]}]})
    valid = A.encode(A.build_request(cre, intern), A.KV((1, 2)))
    refused = A.encode(A.build_request(D.one("Get", {"uid": 424242}), intern), A.KV((1, 2)))
    toolarge = A.encode(A.build_request(D.one("Query", {}, maxsize=16), intern), A.KV((1, 2)))
    bad = bytearray(valid)
    bad[11] = 0x0C                      # type byte of the request header: not a TTLV type
    return {"valid": valid, "refused": refused, "toolarge": toolarge, "undecodable": bytes(bad)}


CLIENT_CFG = {"cert": "cn1", "eku": "client", "tlsauth": True}


def cut_plan(frame, cut):
    h, b = cut
    n = len(frame) - 8
    plan = [8] if h == 0 else [h, 8 - h]
    if b == 0:
        plan += [n]
    elif b == 1:
        plan += [1, n - 1]
    elif b == 2:
        plan += [n // 2, n - n // 2]
    else:
        plan += [n - 1, 1]
    return plan


def classify(data, intern):
    """One response -> the class the model speaks about."""
    try:
        r = A.abs_response(A.decode_response(data), intern)
    except Exception as e:
        return "Undecodable(%s)" % type(e).__name__, None
    if len(r["items"]) != 1:
        return "Items%d" % len(r["items"]), r
    it = r["items"][0]
    if it["status"] == "Success":
        return "Success", r
    if it["reason"] in ("InvalidMessage", "ResponseTooLarge"):
        return it["reason"], r
    return "EngineError", r


def _plans(chunk):
    common.scratch()
    drv = D.EngineDriver(intern=E.new_interner())
    cert = S.make_cert(1, "client")
    out = []
    try:
        fr = mkframes(drv.intern)
        for rec in chunk:
            plan = rec["plan"]
            data, chunks = b"", []
            for f in plan["frames"]:
                b = fr[f["kind"]]
                data += b
                chunks += cut_plan(b, f["cut"])
            if plan["end"] == 1:
                data += fr["valid"][:3]
                chunks += [3]
            elif plan["end"] == 2:
                data += fr["valid"][:40]
                chunks += [8, 32]
            conn = S.FakeConn(data, cert=cert, plan=chunks)
            spy = S.EngineSpy(drv.engine, log=conn.log)
            before = drv.state()
            escaped = S.run_session(spy, conn)
            after = drv.state()
            trace = ST.make("p%d" % rec["n"], CLIENT_CFG, data, [], conn, drv.intern)
            kinds = [classify(x, drv.intern)[0] for x in conn.sent]
            nvalid = sum(1 for f in plan["frames"] if f["kind"] == "valid")
            out.append({"plan": plan, "sent": kinds, "calls": len(spy.calls), "escaped": escaped,
                        "created": len(after["objs"]) - len(before["objs"]), "nvalid": nvalid, "trace": trace,
                        "raw": [x.hex() for x in conn.sent[:3]]})
    finally:
        drv.close()
    return out


# ---------------------------------------------------------------- mutation corpus

def items(buf, pos=0, end=None, depth=0, out=None):
    """A tolerant tokenizer: (offset, tag, type, length, depth) for every item header it can reach."""
    out = [] if out is None else out
    end = len(buf) if end is None else end
    while pos + 8 <= end and len(out) < 400:
        tag = int.from_bytes(buf[pos:pos + 3], "big")
        typ = buf[pos + 3]
        ln = int.from_bytes(buf[pos + 4:pos + 8], "big")
        out.append((pos, tag, typ, ln, depth))
        if typ == 1 and pos + 8 + ln <= end:
            items(buf, pos + 8, pos + 8 + ln, depth + 1, out)
        pos += 8 + ln + ((8 - ln % 8) % 8)
    return out


def reframe(body_msg):
    """Keep the connection framing intact: the first 8 bytes announce exactly what follows."""
    if len(body_msg) < 8:
        body_msg = body_msg + b"\x00" * (8 - len(body_msg))
    return body_msg[:4] + struct.pack("!I", len(body_msg) - 8) + body_msg[8:]


def mutate(msg, r):
    b = bytearray(msg)
    its = items(msg)
    k = r.randrange(16)
    pos, tag, typ, ln, depth = r.choice(its)
    if k == 0:        # truncate at an item boundary
        b = b[:max(8, pos)]
    elif k == 1:      # length games
        b[pos + 4:pos + 8] = struct.pack("!I", r.choice([0, 1, 3, 7, max(0, ln - 8), ln + 8, ln + 1, 0x7FFFFFFF, 0x80000000, 0xFFFFFFFF]))
    elif k == 2:      # type byte
        b[pos + 3] = r.choice([0, 1, 2, 3, 4, 5, 6, 7, 8, 9, 10, 11, 12, 255])
    elif k == 3:      # tag
        b[pos:pos + 3] = r.choice([b"\x42\x00\x00", b"\x42\xff\xff", b"\x00\x00\x00", b"\x54\x00\x01",
                                   (tag + 1).to_bytes(3, "big"), (tag ^ 0x40).to_bytes(3, "big")])
    elif k == 4:      # non-zero padding / value flip
        if typ != 1 and ln > 0:
            q = pos + 8 + r.randrange(ln + ((8 - ln % 8) % 8))
            if q < len(b):
                b[q] ^= r.choice([1, 0x80, 0xFF])
    elif k == 5:      # duplicate an item
        e = pos + 8 + ln + ((8 - ln % 8) % 8)
        b = b[:e] + b[pos:e] + b[e:]
    elif k == 6:      # drop an item
        e = pos + 8 + ln + ((8 - ln % 8) % 8)
        if pos > 0:
            b = b[:pos] + b[e:]
    elif k == 7:      # swap two sibling items
        sib = [x for x in its if x[4] == depth and x[0] != pos]
        if sib:
            p2 = r.choice(sib)[0]
            a, c = sorted([pos, p2])
            ia = next(x for x in its if x[0] == a)
            ic = next(x for x in its if x[0] == c)
            ea = a + 8 + ia[3] + ((8 - ia[3] % 8) % 8)
            ec = c + 8 + ic[3] + ((8 - ic[3] % 8) % 8)
            if ea <= c:
                b = b[:a] + b[c:ec] + b[ea:c] + b[a:ea] + b[ec:]
    elif k == 8:      # inflate the batch count
        for (p, t, ty, l, d) in its:
            if t == 0x42000D and ty == 2:
                b[p + 8:p + 12] = struct.pack("!I", r.choice([0, 2, 100, 0x7FFFFFFF]))
    elif k == 9:      # deep nesting
        inner = bytes(b[8:])
        for _ in range(r.choice([50, 300, 1200])):
            inner = b"\x42\x00\x78\x01" + struct.pack("!I", len(inner)) + inner
        b = bytearray(inner)
    elif k == 10:     # unknown enumeration value / unsupported version
        for (p, t, ty, l, d) in its:
            if ty == 5 and r.random() < 0.5:
                b[p + 8:p + 12] = struct.pack("!I", r.choice([0, 0x7FFFFFFF, 0x80000001, 999]))
            if t in (0x42006A, 0x42006B) and r.random() < 0.7:
                b[p + 8:p + 12] = struct.pack("!I", r.choice([0, 3, 9, 255]))
    elif k == 11:     # random flips
        for _ in range(r.choice([1, 2, 5, 20])):
            q = r.randrange(8, len(b))
            b[q] ^= 1 << r.randrange(8)
    elif k == 12:     # random garbage of the same length
        b = bytearray(msg[:8]) + bytearray(r.getrandbits(8) for _ in range(len(msg) - 8))
    elif k == 13:     # empty body / tiny frames
        b = bytearray(msg[:8 + r.choice([0, 8, 16])])
    elif k == 14:     # append junk inside the frame
        b = b + bytearray(r.getrandbits(8) for _ in range(r.choice([1, 8, 24])))
    else:             # insert an item with a huge declared length in the middle
        b = b[:pos] + b"\x42\x00\x08\x01\x7f\xff\xff\xf8" + b[pos:]
    return reframe(bytes(b))


def seeds(intern):
    gen = G.Gen(12345, users=("alice",), versions=[(1, 0), (1, 2), (1, 4), (2, 0)])
    out = []
    for ver in [(1, 0), (1, 2), (1, 4), (2, 0)]:
        for _ in range(40):
            gen.versions = [ver]
            req = gen.request(0.3)
            try:
                out.append(A.encode(A.build_request(req, intern), A.KV(ver)))
            except Exception:
                continue
    return out


def decoder_rejects(frame):
    return ST.decoder_rejects(frame)       # consistent framing + accepted and fully consumed by the library's decoder


def _fuzz(args):
    wid, seed, nconn = args
    common.scratch()
    S.bound_rsa()
    r = random.Random(seed)
    drv = D.EngineDriver(intern=E.new_interner())
    cert = S.make_cert(1, "client")
    res = {"frames": 0, "rejected": 0, "accepted": 0, "viol": [], "resp": [], "kinds": {}, "traces": [], "taken": []}
    try:
        sd = seeds(drv.intern)
        query = A.encode(A.build_request(D.one("Query", {}), drv.intern), A.KV((1, 2)))
        # what a fresh connection answers to the final probe
        c0 = S.FakeConn(query, cert=cert)
        S.run_session(drv.engine, c0)
        fresh = classify(c0.sent[0], drv.intern)[1]
        for ci in range(nconn):
            frames = [mutate(r.choice(sd), r) for _ in range(r.choice([1, 1, 2, 3, 5]))]
            rej = [decoder_rejects(f) for f in frames]
            data = b"".join(frames) + query
            plan = []
            left = len(data)
            mode = r.choice(["whole", "bytes", "random", "random"])
            while left > 0 and mode != "whole":
                k = 1 if mode == "bytes" and r.random() < 0.8 else r.choice([1, 2, 3, 7, 8, 9, 64, 500, 5000])
                plan.append(k)
                left -= k
            conn = S.FakeConn(data, cert=cert, plan=plan or None)
            spy = S.EngineSpy(drv.engine, log=conn.log)
            marks = []
            orig = conn.sendall

            def sendall(d, orig=orig, marks=marks, spy=spy):
                marks.append(len(spy.calls))
                orig(d)
            conn.sendall = sendall
            before = drv.state()
            escaped = S.run_session(spy, conn)
            after = drv.state()
            res["frames"] += len(frames) + 1
            res["traces"].append(ST.make("f%d-%d" % (wid, ci), CLIENT_CFG, data, [], conn, drv.intern))
            bad = []
            if escaped:
                bad.append(("C12_exception_escapes", escaped[0]))
            if len(conn.sent) != len(frames) + 1:
                bad.append(("C12_one_response_per_frame", "%d responses for %d frames" % (len(conn.sent), len(frames) + 1)))
            else:
                prev = 0
                for i, f in enumerate(frames):
                    kind, rr = classify(conn.sent[i], drv.intern)
                    entered = marks[i] - prev
                    prev = marks[i]
                    res["kinds"][kind] = res["kinds"].get(kind, 0) + 1
                    if (entered or kind != "InvalidMessage") and len(res["taken"]) < 150 and len(f) < 3000:
                        res["taken"].append({"id": "w%d:c%d:f%d" % (wid, ci, i), "kind": "request_exec", "bytes": f, "reqver": -1,
                                             "executed": bool(entered), "cls": kind})
                    if rej[i]:
                        res["rejected"] += 1
                        if kind != "InvalidMessage":
                            bad.append(("C12_undecodable_not_invalid_message", kind))
                        if entered:
                            bad.append(("C12_undecodable_executed", "engine entered %d times" % entered))
                    else:
                        res["accepted"] += 1
                    if kind.startswith("Undecodable"):
                        bad.append(("C12_malformed_response", kind))
                if all(rej) and A_state(after) != A_state(before):
                    bad.append(("C12_undecodable_executed", "store changed"))
                last = classify(conn.sent[-1], drv.intern)[1]
                if last is None or fresh is None or last["items"][0]["pl"] != fresh["items"][0]["pl"] or last["items"][0]["status"] != "Success":
                    bad.append(("C12_next_request_not_served", str(last)[:200]))
            for x in conn.sent:
                if len(res["resp"]) < 400:
                    res["resp"].append(x)
            for (c, what) in bad:
                res["viol"].append({"clause": c, "what": what, "frames": [f.hex() for f in frames], "rejected": rej,
                                    "chunking": mode, "responses": [x.hex() for x in conn.sent[:6]]})
    finally:
        drv.close()
    return res


def A_state(st):
    return [(o["uid"], o["state"], o["names"], o["val"]) for o in st["objs"]], st["seq"]


def max_size(run):
    """A response longer than the maximum response size the client asked for is replaced."""
    drv = D.EngineDriver(intern=E.new_interner())
    cert = S.make_cert(1, "client")
    try:
        base = A.encode(A.build_request(D.one("Query", {}), drv.intern), A.KV((1, 2)))
        tl = A.encode(A.build_request(D.one("Query", {}, maxsize=8), drv.intern), A.KV((1, 2)))
        c = S.FakeConn(tl, cert=cert)
        S.run_session(drv.engine, c)
        ntl = len(c.sent[0])
        for ver in [(1, 0), (1, 2), (2, 0)]:
            plain = A.encode(A.build_request(D.one("Query", {}, ver=ver), drv.intern), A.KV(ver))
            c = S.FakeConn(plain, cert=cert)
            S.run_session(drv.engine, c)
            n = len(c.sent[0])          # the length of the normal answer under this version
            for m in [0, -1, -2 ** 31, 1, 8, 100, n - 8, n - 1, n, n + 1, n + 8, 10 ** 6, 2 ** 31 - 1]:
                q = A.encode(A.build_request(D.one("Query", {}, maxsize=m, ver=ver), drv.intern), A.KV(ver))
                c = S.FakeConn(q + base, cert=cert)
                esc = S.run_session(drv.engine, c)
                kinds = [classify(x, drv.intern)[0] for x in c.sent]
                # the request carrying the limit is 16 bytes longer than the plain one; its answer is not
                want = "ResponseTooLarge" if n > m else "Success"
                run.case(("maxsize", m - n, ver, tuple(kinds)))
                # (how long the replacement itself is, is the server's business: its wording may mention the sizes)
                if esc or len(kinds) != 2 or kinds[0] != want or kinds[1] != "Success":
                    run.violation("C12_max_response_size", {"m_vs_len": "over" if n > m else "within", "ver": ver[0] * 10 + ver[1]},
                                  {"maximum_response_size": m, "normal_response_length": n, "responses": kinds, "escaped": esc})
        run.traces += 39
    finally:
        drv.close()


SL_INVS = ["OnePerFrame", "RightAnswers", "EngineOnlyServed", "NoOverRead", "ClosesClean", "Replacements"]


def session_machine(run, quick):
    """Leg A for the small-step session machine (SessionLoop.tla): every chunking of every plan of the bounded family,
    and two negative controls (a receive loop that may over-read; an engine call after failed authentication)."""
    inv = "".join("INVARIANT %s\n" % i for i in SL_INVS)
    body = "CONSTANTS\n  MaxBuf <- MCMaxBuf\n  Plans <- %s\n%sCHECK_DEADLOCK FALSE\n" % ("PlansQuick" if quick else "PlansThorough", inv)
    cfg = tlc.write_cfg("MC_SessionLoop.cfg", "SPECIFICATION SSpec\n" + body)
    res = tlc.run("MC_SessionLoop", cfg, allow_violation=True, timeout=3000, heap="12g")
    run.add_tlc(res, "MC_SessionLoop (%s): all chunkings, MaxBuf = 4" % ("PlansQuick" if quick else "PlansThorough"))
    if res.violated:
        raise common.MachineryFailure("SessionLoop.tla violates %s" % res.violated)
    for spec, want in (("NegSpec", "NoOverRead"), ("Neg2Spec", "EngineOnlyServed")):
        body = "CONSTANTS\n  MaxBuf <- MCMaxBuf\n  Plans <- PlansQuick\nINVARIANT %s\nCHECK_DEADLOCK FALSE\n" % want
        cfg = tlc.write_cfg("MC_SessionLoop_%s.cfg" % spec, "SPECIFICATION %s\n" % spec + body)
        neg = tlc.run("MC_SessionLoop", cfg, allow_violation=True, timeout=3000, heap="12g")
        if want not in neg.violated:
            raise common.MachineryFailure("negative control %s of SessionLoop.tla does not violate %s" % (spec, want))
    run.extra["session_machine_negative_controls"] = {"over-reading receive loop": "NoOverRead violated",
                                                      "engine entered after failed authentication": "EngineOnlyServed violated"}


def _ttlv(tag, typ, value):
    pad = (8 - len(value) % 8) % 8 if typ not in (1,) else 0
    return tag.to_bytes(3, "big") + bytes([typ]) + struct.pack("!I", len(value)) + value + b"\x00" * pad


def register_opaque_frame(n):
    """A Register request for an opaque object of n bytes, assembled by hand (the library's encoder needs tens of seconds per
    MiB); compared with the library's own encoding for a small n before use."""
    val = bytes((i * 7 + 3) % 251 for i in range(n))
    i4 = lambda v: struct.pack("!I", v) + b"\x00" * 4
    hdr = _ttlv(0x420077, 1, _ttlv(0x420069, 1, _ttlv(0x42006A, 2, struct.pack("!I", 1)) + _ttlv(0x42006B, 2, struct.pack("!I", 2)))
                + _ttlv(0x42000D, 2, struct.pack("!I", 1)))
    obj = _ttlv(0x42005B, 1, _ttlv(0x420059, 5, struct.pack("!I", 0x80000000)) + _ttlv(0x42005A, 8, val))
    payload = _ttlv(0x420079, 1, _ttlv(0x420057, 5, struct.pack("!I", 8)) + _ttlv(0x420091, 1, b"") + obj)
    item = _ttlv(0x42000F, 1, _ttlv(0x42005C, 5, struct.pack("!I", 3)) + payload)
    return _ttlv(0x420078, 1, hdr + item), val


def large_frames(run, quick):
    """Requests of every size class around the receive buffer (4096) and around one MiB, each followed by an ordinary request
    on the same connection, under whole / 4096-byte / odd chunkings: one answer each, the second one normal.  Decodable ones
    (Register of an opaque object) up to 64 KiB in the quick tier; beyond one MiB a frame with junk appended inside (the
    decoder rejects it quickly) - a legal request of that size costs the library's decoder tens of seconds."""
    drv = D.EngineDriver(intern=E.new_interner())
    cert = S.make_cert(1, "client")
    traces = []
    try:
        query = A.encode(A.build_request(D.one("Query", {}), drv.intern), A.KV((1, 2)))
        small, val = register_opaque_frame(24)
        drv.intern.define("op24", val)
        ref = A.encode(A.build_request(D.one("Register", {"otype": "OpaqueData", "attrs": [], "obj": {"type": "OpaqueData", "val": "op24"}}),
                                       drv.intern, now=None), A.KV((1, 2)))
        if small != ref:
            raise common.MachineryFailure("hand-assembled Register frame differs from the library's encoding")
        frames = [("reg", n, register_opaque_frame(n)[0]) for n in [4000, 4096 - 160, 4097, 8192, 65536] + ([] if quick else [1048576 + 4096])]
        for n in [1048576 - 512, 1048576 + 8, 1048576 + 4096] + ([] if quick else [3 * 1048576]):
            frames.append(("junk", n, reframe(query + bytes((i * 13 + 1) % 256 for i in range(n - len(query))))))
        for kind, n, frame in frames:
            want = "InvalidMessage" if decoder_rejects(frame) else "Success"
            for plan in (None, [4096] * (len(frame) // 4096 + 2) + [100000], [8, 1, 4095, 4097, 3, 10 ** 7]):
                data = frame + query
                conn = S.FakeConn(data, cert=cert, plan=list(plan) if plan else None)
                spy = S.EngineSpy(drv.engine, log=conn.log)
                esc = S.run_session(spy, conn)
                kinds = [classify(x, drv.intern)[0] for x in conn.sent]
                run.case(("large", kind, n, "whole" if plan is None else plan[0], tuple(kinds[:4])))
                traces.append(ST.make("L%s%d-%s" % (kind, n, "w" if plan is None else plan[0]), CLIENT_CFG, data, [], conn, drv.intern))
                if esc or kinds != [want, "Success"]:
                    run.violation("C12_large_request", {"size": "over-1MiB" if len(frame) > 1048576 else "under", "answers": kinds[:4]},
                                  {"frame_length": len(frame), "decodable": want == "Success", "chunking": "whole" if plan is None else plan[:6],
                                   "answers": kinds[:20], "number_of_answers": len(kinds), "escaped": esc})
        run.traces += len(traces)
    finally:
        drv.close()
    ST.judge(run, traces, name="c12large", owners=("C12",))


def system_stream(run, quick):
    """The same discipline on the real thing: raw TLS connections to a real KmipServer on loopback; frames (valid, refused,
    undecodable, junk of the right length) are written in one piece, byte by byte, or in odd pieces with TCP_NODELAY, so that
    the server's recv() really returns partial data; one answer per frame, the valid request after bad ones is served, and
    the connection that ends inside a frame is simply closed."""
    import shutil
    import socket
    import ssl
    import time
    from .. import sysdrv
    sysdrv.install_wrap_socket()
    root = os.path.join(common.scratch(), "sys12")
    sysm = sysdrv.System(root, tls_client_auth=True)
    cert, key = sysm.issue("alice", ["alice"], "client")
    intern = E.new_interner()
    fr = mkframes(intern)
    fr["junk"] = reframe(fr["valid"][:8] + bytes((i * 37 + 11) % 256 for i in range(64)))
    r = random.Random(common.SEED + 12)
    n = 0

    def read_answers(s, want, timeout=20.0):
        s.settimeout(timeout)
        out = []
        try:
            while len(out) < want:
                hdr = b""
                while len(hdr) < 8:
                    c = s.recv(8 - len(hdr))
                    if not c:
                        return out
                    hdr += c
                ln = struct.unpack("!I", hdr[4:8])[0]
                body = b""
                while len(body) < ln:
                    c = s.recv(ln - len(body))
                    if not c:
                        return out
                    body += c
                out.append(hdr + body)
        except (socket.timeout, ssl.SSLError, OSError):
            pass
        return out
    try:
        sysm.start()
        ctx = ssl.SSLContext(ssl.PROTOCOL_TLS_CLIENT)
        ctx.check_hostname = False
        ctx.load_verify_locations(os.path.join(sysm.pki, "ca.pem"))
        ctx.load_cert_chain(cert, key)
        seqs = [["valid"], ["undecodable", "valid"], ["junk", "refused", "valid"], ["undecodable", "junk", "undecodable", "valid"],
                ["valid", "toolarge", "valid"], ["refused", "undecodable", "valid", "valid"]]
        for kinds in seqs:
            for mode in ("whole", "bytes", "odd"):
                data = b"".join(fr[k] for k in kinds)
                raw = socket.create_connection(("127.0.0.1", sysm.port), timeout=10)
                raw.setsockopt(socket.IPPROTO_TCP, socket.TCP_NODELAY, 1)
                s = ctx.wrap_socket(raw)
                try:
                    if mode == "whole":
                        s.sendall(data)
                    else:
                        pos = 0
                        while pos < len(data):
                            k = 1 if mode == "bytes" else r.choice([1, 3, 7, 8, 9, 64, 300])
                            s.sendall(data[pos:pos + k])
                            pos += k
                            if mode == "odd" and r.random() < 0.2:
                                time.sleep(0.002)
                    answers = read_answers(s, len(kinds))
                finally:
                    try:
                        s.close()
                    except OSError:
                        pass
                got = [classify(a, intern)[0] for a in answers]
                want = [RespOf_py(k) for k in kinds]
                n += 1
                run.case(("system-stream", tuple(kinds), mode, tuple(got)))
                if got != want:
                    run.violation("C12_one_response_per_frame" if len(got) != len(want) else "C12_response_order_or_kind",
                                  {"level": "system", "kinds": kinds, "mode": mode}, {"frames": kinds, "delivery": mode, "answers": got, "prescribed": want})
        # a connection that ends inside a frame: no answer, and the server keeps serving others
        raw = socket.create_connection(("127.0.0.1", sysm.port), timeout=10)
        s = ctx.wrap_socket(raw)
        s.sendall(fr["valid"][:40])
        s.close()
        raw = socket.create_connection(("127.0.0.1", sysm.port), timeout=10)
        s = ctx.wrap_socket(raw)
        s.sendall(fr["valid"])
        last = [classify(a, intern)[0] for a in read_answers(s, 1)]
        s.close()
        n += 1
        if last != ["Success"]:
            run.violation("C12_next_request_not_served", {"level": "system"}, {"after": "a connection that ended inside a frame", "answers": last})
        run.traces += n
        run.extra["system_stream_connections"] = n
    finally:
        sysm.stop()
        shutil.rmtree(root, ignore_errors=True)


def RespOf_py(kind):
    return {"valid": "Success", "refused": "EngineError", "toolarge": "ResponseTooLarge"}.get(kind, "InvalidMessage")


def check(run, tier):
    quick = tier == "quick"
    nfr = 2 if quick else 3
    run.rule = ("leg A: TLC, MC_C12: all plans of <= %d frames over {valid, refused, too-large, undecodable} x 5 cut patterns "
                "(header split after 1/4/7 bytes, body split after the first byte / in the middle / before the last byte) x "
                "{clean end, end inside a header, end inside a body}; invariants one-response-per-frame, order, engine entered "
                "only for decoded frames; leg B: every plan executed on a real KmipSession over an in-memory connection that "
                "delivers exactly those recv() pieces; leg C: a grammar-aware mutation corpus (16 operators on random requests of "
                "every operation under KMIP 1.0/1.2/1.4/2.0) sent as sequences bad*-then-good under whole / byte-wise / random "
                "chunkings, judged against the real decoder run in isolation; every response validated against TTLV.tla and "
                "KmipEnvelope.tla by TLC; maximum-response-size sweep around the actual response length. "
                "distinct = distinct (plan | mutation outcome) cases." % nfr)
    cfg = tlc.write_cfg("MC_C12.cfg", "SPECIFICATION Spec\nCONSTANT MaxFrames = %d\nINVARIANT OnePerFrame\nINVARIANT InOrder\n"
                        "INVARIANT EngineOnlyDecoded\nINVARIANT Closes\nACTION_CONSTRAINT EmitFinal\nCHECK_DEADLOCK FALSE\n" % nfr)
    res = tlc.run("MC_C12", cfg, workers=1, allow_violation=True, timeout=1800)
    run.add_tlc(res, "MC_C12 frames<=%d" % nfr)
    if res.violated:
        raise common.MachineryFailure("MC_C12: the modelled receive loop violates %s" % res.violated)
    plans = res.tag("PLAN")
    for i, pl in enumerate(plans):
        pl["n"] = i
    session_machine(run, quick)
    S.make_cert(1, "client")
    E.rsa_pair()
    n = common.NCPU
    with multiprocessing.Pool(n) as pool:
        outs = pool.map(_plans, [plans[i::n] for i in range(n)])
    by = {common.jdump(p["plan"]): p for p in plans}
    ST.judge(run, [o["trace"] for out in outs for o in out], name="c12plans", owners=("C12",))
    nrun = 0
    samples = []
    for out in outs:
        for o in out:
            nrun += 1
            m = by[common.jdump(o["plan"])]
            sig = {"kinds": [f["kind"] for f in o["plan"]["frames"]], "cuts": [f["cut"] for f in o["plan"]["frames"]], "end": o["plan"]["end"]}
            run.case(common.jdump(sig))
            bad = []
            if o["escaped"]:
                bad.append("C12_exception_escapes")
            if len(o["sent"]) != len(m["sent"]):
                bad.append("C12_one_response_per_frame")
            elif o["sent"] != m["sent"]:
                bad.append("C12_response_order_or_kind")
            if o["calls"] != m["calls"]:
                bad.append("C12_engine_entries")
            if o["created"] != o["nvalid"]:
                bad.append("C12_effects")
            for c in bad:
                run.violation(c, sig, {"plan": o["plan"], "observed": o, "prescribed": {"responses": m["sent"], "engine_entries": m["calls"]}})
            if len(samples) < 200:
                samples += [bytes.fromhex(x) for x in o["raw"]]
    run.traces += nrun
    run.extra["plans_executed_on_real_session"] = nrun
    # mutation corpus
    nconn = 300 if quick else 3000
    with multiprocessing.Pool(n) as pool:
        fz = pool.map(_fuzz, [(i, common.SEED * 7919 + i, nconn) for i in range(n)])
    tot = {"frames": 0, "rejected": 0, "accepted": 0}
    kinds = {}
    ST.judge(run, [t for f in fz for t in f["traces"]], name="c12corpus", owners=("C12",))
    for f in fz:
        for k in tot:
            tot[k] += f[k]
        for k, v in f["kinds"].items():
            kinds[k] = kinds.get(k, 0) + v
        samples += f["resp"][:120]
        for v in f["viol"]:
            run.violation(v["clause"], {"what": v["what"][:60], "chunking": v["chunking"]}, v)
    run.extra["mutation_corpus"] = dict(tot, connections=nconn * n, response_kinds=kinds)
    run.traces += nconn * n
    for k, v in kinds.items():
        run.case(("mutation-response", k))
    # every response seen: well-formed TTLV + envelope, by TLC
    recs = [{"id": "r%d" % i, "kind": "response", "bytes": b, "reqver": -1} for i, b in enumerate(samples)]
    # request frames the session took (executed, or answered with anything but Invalid Message): the independent envelope
    # rule - batch count = number of batch items - must hold for them (KmipEnvelope.tla RequestCountFails)
    taken = [x for f in fz for x in f["taken"]]
    tby = {x["id"]: x for x in taken}
    recs += taken
    run.extra["request_frames_taken_checked_against_envelope"] = len(taken)
    fails, r2 = TV.validate(recs, name="c12")
    run.add_tlc(r2, "TraceTTLV(c12): %d responses, %d bytes" % (len(recs), sum(len(x["bytes"]) for x in recs)))
    for rid, fl in fails.items():
        if rid in tby:
            x = tby[rid]
            run.violation("C12_executed_undecodable", {"fails": sorted(fl)[:2], "executed": x["executed"]},
                          {"request": x["bytes"].hex(), "fails": fl, "engine_entered": x["executed"], "answer": x["cls"]})
            continue
        b = recs[int(rid[1:])]["bytes"]
        run.violation("C12_response_not_wellformed", {"fails": sorted(fl)[:3]}, {"response": b.hex(), "fails": fl})
    run.sample({"plan": plans[len(plans) // 2]["plan"], "prescribed_responses": plans[len(plans) // 2]["sent"]})
    max_size(run)
    large_frames(run, quick)
    system_stream(run, quick)
    run.assumptions.append("mutation corpus: RSA key generation above 8192 bits is refused by the environment (a damaged "
                           "CreateKeyPair may ask for millions of bits)")
