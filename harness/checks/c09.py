"""C09 - crash consistency: acknowledged operations survive, others are all-or-nothing."""
import hashlib
import json
import multiprocessing
import os
import random
import shutil
import signal
import sqlite3
import time

from .. import common, tlc, absmap as A, engdrv as D, engcheck as E

LEVEL = "fault_enumeration"


def dump(path):
    """Every row of every table, as digests (independent of the ORM)."""
    con = sqlite3.connect("file:%s?mode=ro" % path, uri=True, timeout=10)
    try:
        out = []
        for (t,) in con.execute("select name from sqlite_master where type='table' and name not like 'sqlite_%' order by name"):
            cols = [d[1] for d in con.execute("pragma table_info(%s)" % t)]
            for row in con.execute("select * from %s order by 1" % t):
                # generated key material differs from run to run (also in length for RSA): the value column is masked (C05 covers values)
                vis = tuple(("<bytes>" if (c == "value" and isinstance(v, bytes)) else v) for c, v in zip(cols, row))
                out.append("%s:%s:%s" % (t, row[0], hashlib.sha1(repr(vis).encode()).hexdigest()[:10]))
        return out
    finally:
        con.close()


def attrs(mask=("ENCRYPT",), extra=()):
    return [{"name": "Cryptographic Algorithm", "v": "AES"}, {"name": "Cryptographic Length", "v": 128},
            {"name": "Cryptographic Usage Mask", "v": list(mask)}] + list(extra)


EXTRA = [{"name": "Name", "idx": 0, "v": "crash-a"}, {"name": "Name", "idx": 1, "v": "crash-b"},
         {"name": "Object Group", "idx": 0, "v": "og1"}, {"name": "Application Specific Information", "idx": 0, "v": ["ns", "d"]}]


def operations():
    reg = lambda t, val, **kw: D.one("Register", {"otype": t, "attrs": ([{"name": "Cryptographic Usage Mask", "v": ["SIGN", "DERIVE_KEY"]}] if t != "OpaqueData" else []) + EXTRA[:3],
                                                  "obj": dict({"type": t, "val": val}, **kw)})
    return [
        ("Create", D.one("Create", {"otype": "SymmetricKey", "attrs": attrs(extra=EXTRA)})),
        ("CreateKeyPair", D.one("CreateKeyPair", {"common": [{"name": "Cryptographic Algorithm", "v": "RSA"}, {"name": "Cryptographic Length", "v": 1024}],
                                                  "priv": [{"name": "Cryptographic Usage Mask", "v": ["SIGN"]}, {"name": "Name", "idx": 0, "v": "pk"}],
                                                  "pub": [{"name": "Cryptographic Usage Mask", "v": ["VERIFY"]}]})),
        ("RegisterSecretData", reg("SecretData", "pw")),
        ("RegisterOpaque", reg("OpaqueData", "pw")),
        ("RegisterCertificate", reg("Certificate", "pw")),
        ("RegisterPrivateKey", reg("PrivateKey", "rsapriv", alg="RSA", len=1024, fmt="PKCS_8")),
        ("DeriveKey", D.one("DeriveKey", {"otype": "SymmetricKey", "uids": [2], "method": "HMAC", "dp": {"cp": {"hash": "SHA_256"}, "data": "0011"},
                                          "attrs": attrs(extra=EXTRA[:1])})),
        ("Activate", D.one("Activate", {"uid": 1})),
        ("Revoke", D.one("Revoke", {"uid": 3, "code": "KEY_COMPROMISE"})),
        ("Destroy", D.one("Destroy", {"uid": 1})),
        ("DestroyNamed", D.one("Destroy", {"uid": 4})),
        ("ModifyAttribute", D.one("ModifyAttribute", {"uid": 4, "attr": {"name": "Name", "idx": 0, "v": "renamed"}})),
        ("DeleteAttribute", D.one("DeleteAttribute", {"uid": 4, "name": "Name", "idx": 1})),
        ("DeleteGroup", D.one("DeleteAttribute", {"uid": 4, "name": "Object Group", "idx": 0})),
        ("SetAttribute", D.one("SetAttribute", {"uid": 1, "new": {"name": "Sensitive", "v": True}}, ver=(2, 0))),
        ("BatchCreateActivate", {"user": "alice", "groups": None, "ver": [1, 2], "opt": "Stop", "items": [
            {"op": "Create", "bid": "a", "p": {"otype": "SymmetricKey", "attrs": attrs()}},
            {"op": "Activate", "bid": "b", "p": {"uid": 0}}]}),
    ]


def populate(db):
    drv = D.EngineDriver(db=db, intern=E.new_interner())
    drv.request(D.one("Create", {"otype": "SymmetricKey", "attrs": attrs()}))                                     # 1
    drv.request(D.one("Register", {"otype": "SecretData", "attrs": [{"name": "Cryptographic Usage Mask", "v": ["DERIVE_KEY"]}],
                                   "obj": {"type": "SecretData", "val": "pw"}}))                                    # 2
    drv.request(D.one("Create", {"otype": "SymmetricKey", "attrs": attrs()}))                                     # 3
    drv.request(D.one("Create", {"otype": "SymmetricKey", "attrs": attrs(extra=EXTRA)}))                          # 4
    drv.request(D.one("Activate", {"uid": 3}))
    # one object of every other kind (5..10): whatever a restart or a recovery does to the store, it does to all of them
    for t, val, kw in (("OpaqueData", "pw", {}), ("Certificate", "pw", {}), ("PublicKey", "rsapub", dict(alg="RSA", len=1024, fmt="PKCS_1")),
                       ("PrivateKey", "rsapriv", dict(alg="RSA", len=1024, fmt="PKCS_8")),
                       ("SplitKey", "k16", dict(alg="AES", len=128, fmt="RAW")), ("SecretData", "pw", {})):
        r = drv.request(D.one("Register", {"otype": t, "attrs": ([{"name": "Cryptographic Usage Mask", "v": ["VERIFY"]}] if t != "OpaqueData" else []) + EXTRA[:2],
                                           "obj": dict({"type": t, "val": val}, **kw)}))
        if r["items"][0]["status"] != "Success":
            raise common.MachineryFailure("C09 populate: Register %s: %s" % (t, r["items"][0]))
    drv.stop()


class Crash(object):
    """SQL-level observation (and process death) through SQLAlchemy's event API."""

    def __init__(self, engine, die_at=None):
        import sqlalchemy
        self.events = []
        self.die_at = die_at
        store = getattr(engine, "_data_store", None)
        if store is None:
            raise common.MachineryFailure("engine has no _data_store to observe")
        ev = sqlalchemy.event
        ev.listen(store, "before_cursor_execute", self.stmt)
        ev.listen(store, "begin", lambda c: self.mark("B"))
        ev.listen(store, "commit", lambda c: self.mark("C"))
        ev.listen(store, "rollback", lambda c: self.mark("R"))

    def mark(self, what):
        if self.die_at is not None and len(self.events) + 1 == self.die_at:
            os._exit(9)
        self.events.append(what)

    def stmt(self, conn, cursor, statement, parameters, context, executemany):
        s = statement.lstrip().upper()
        if s.startswith(("INSERT", "UPDATE", "DELETE")):
            self.mark("W:" + s.split()[2 if s.startswith(("INSERT", "DELETE")) else 1].strip('"').lower())
        # reads are not crash points of interest


def run_op(db, req, die_at=None, die_after_commit=False, posts=None):
    D.CLOCK.now = 2000000
    drv = D.EngineDriver(db=db, intern=E.new_interner())
    if posts is not None:
        inner0 = drv.engine._process_operation

        def snap(operation, payload):
            try:
                return inner0(operation, payload)
            finally:
                posts.append(dump(db))
        drv.engine._process_operation = snap
    cr = Crash(drv.engine, die_at)
    if die_after_commit:
        inner = drv.engine._process_operation
        n = len(req["items"])
        state = {"k": 0}

        def wrapper(operation, payload):
            r = inner(operation, payload)
            state["k"] += 1
            if state["k"] == n:
                os._exit(9)          # committed, response not yet built
            return r
        drv.engine._process_operation = wrapper
    res = drv.request(req)
    drv.stop()
    return cr.events, res


def fresh_check(db):
    """A fresh server on the surviving file: opens, lists and reads everything."""
    problems = 0
    notes = []
    try:
        drv = D.EngineDriver(db=db, intern=E.new_interner())
    except Exception as e:
        return 1, ["cannot open: %r" % (e,)]
    try:
        st = drv.state()
        problems += len(st["broken"])
        notes += st["broken"]
        for o in st["objs"]:
            owner = o["owner"] or "alice"
            for op in ("Get", "GetAttributes"):
                r = drv.request(D.one(op, {"uid": o["uid"]}, user=owner))
                it = r["items"][0] if r.get("items") else {"status": r.get("kind"), "reason": r.get("reason")}
                if it["status"] != "Success":
                    problems += 1
                    notes.append("%s %s -> %s %s" % (op, o["uid"], it["status"], it.get("reason")))
        r = drv.request(D.one("Locate", {"filters": []}, user="alice"))
        if not r.get("items") or r["items"][0]["status"] != "Success":
            problems += 1
            notes.append("Locate failed")
    except Exception as e:
        problems += 1
        notes.append("exception %r" % (e,))
    finally:
        drv.stop()
    return problems, notes


def _experiment(args):
    name, req, base, k, after = args
    common.scratch()
    work = os.path.join(common.scratch(), "c09_%s_%s_%d.db" % (name, "a" if after else "k", k))
    shutil.copyfile(base, work)
    pid = os.fork()
    if pid == 0:
        try:
            run_op(work, req, die_at=None if after else k, die_after_commit=after)
        finally:
            os._exit(0)
    _, status = os.waitpid(pid, 0)
    died = os.WIFEXITED(status) and os.WEXITSTATUS(status) == 9
    rec = dump(work)
    broken, notes = fresh_check(work)
    rec2 = dump(work)               # what is there after the restarted server opened, listed and read everything
    for sfx in ("", "-journal", "-wal", "-shm"):
        try:
            os.unlink(work + sfx)
        except OSError:
            pass
    return {"name": name, "k": k, "after": after, "died": died, "rec": rec, "rec2": rec2, "broken": broken, "notes": notes[:5]}


def _startup_crash(args):
    """The very first start-up on a new database file dies immediately before its k-th SQL statement (k = 0: the count run).
    A second process then starts on the same file and must serve: create, register, read, list."""
    k, = args
    common.scratch()
    work = os.path.join(common.scratch(), "c09_start_%d.db" % k)
    for sfx in ("", "-journal", "-wal", "-shm"):
        if os.path.exists(work + sfx):
            os.unlink(work + sfx)
    rd, wr = os.pipe()
    pid = os.fork()
    if pid == 0:
        try:
            os.close(rd)
            import sqlalchemy
            from kmip.services.server import engine as engine_mod
            real = sqlalchemy.create_engine
            count = {"n": 0, "stmts": []}

            def create_engine(*a, **kw):
                e = real(*a, **kw)

                def stmt(conn, cursor, statement, parameters, context, executemany):
                    st = statement.lstrip().upper()
                    if st.startswith(("CREATE", "INSERT", "UPDATE", "DELETE", "DROP", "ALTER")):
                        count["n"] += 1
                        count["stmts"].append(" ".join(st.split()[:3]))
                        if k and count["n"] == k:
                            os._exit(9)
                sqlalchemy.event.listen(e, "before_cursor_execute", stmt)
                return e
            engine_mod.sqlalchemy.create_engine = create_engine
            try:
                drv = D.EngineDriver(db=work, intern=E.new_interner())
                drv.stop()
            finally:
                engine_mod.sqlalchemy.create_engine = real
            os.write(wr, json.dumps(count).encode())
        finally:
            os._exit(0)
    os.close(wr)
    data = b""
    while True:
        chunk = os.read(rd, 65536)
        if not chunk:
            break
        data += chunk
    os.close(rd)
    _, status = os.waitpid(pid, 0)
    died = os.WIFEXITED(status) and os.WEXITSTATUS(status) == 9
    out = {"k": k, "died": died, "count": json.loads(data.decode()) if data else None, "problems": []}
    if k:
        # the restarted server: everything a new store must be able to do
        try:
            drv = D.EngineDriver(db=work, intern=E.new_interner())
            try:
                reqs = [D.one("Create", {"otype": "SymmetricKey", "attrs": attrs(extra=EXTRA)}),
                        D.one("Register", {"otype": "OpaqueData", "attrs": [], "obj": {"type": "OpaqueData", "val": "pw"}}),
                        D.one("Register", {"otype": "PrivateKey", "attrs": [{"name": "Cryptographic Usage Mask", "v": ["SIGN"]}],
                                           "obj": {"type": "PrivateKey", "val": "rsapriv", "alg": "RSA", "len": 1024, "fmt": "PKCS_8"}}),
                        D.one("Register", {"otype": "Certificate", "attrs": [{"name": "Cryptographic Usage Mask", "v": ["VERIFY"]}],
                                           "obj": {"type": "Certificate", "val": "pw"}}),
                        D.one("Register", {"otype": "SplitKey", "attrs": [{"name": "Cryptographic Usage Mask", "v": ["ENCRYPT"]}],
                                           "obj": {"type": "SplitKey", "val": "k16", "alg": "AES", "len": 128, "fmt": "RAW"}}),
                        D.one("Register", {"otype": "SecretData", "attrs": [{"name": "Cryptographic Usage Mask", "v": ["DERIVE_KEY"]}],
                                           "obj": {"type": "SecretData", "val": "pw"}}),
                        D.one("Get", {"uid": 1}), D.one("GetAttributes", {"uid": 2, "names": []}), D.one("Activate", {"uid": 1}),
                        D.one("Locate", {"filters": []})]
                for q in reqs:
                    r = drv.request(q)
                    it = r["items"][0] if r.get("items") else {"status": r.get("kind"), "reason": r.get("reason")}
                    if it["status"] != "Success":
                        out["problems"].append("%s -> %s %s" % (q["items"][0]["op"], it["status"], it.get("reason")))
                st = drv.state()
                out["problems"] += st["broken"]
                if len(st["objs"]) != 6:
                    out["problems"].append("%d objects stored instead of 6" % len(st["objs"]))
            finally:
                drv.stop()
        except Exception as e:
            out["problems"].append("cannot start: %r" % (e,))
    for sfx in ("", "-journal", "-wal", "-shm"):
        try:
            os.unlink(work + sfx)
        except OSError:
            pass
    return out


def startup_crashes(run):
    """Durability.tla StartStep / Crash / Restart on the real engine: process death before every statement of the first
    start-up (the schema is created table by table, each CREATE TABLE its own implicit transaction)."""
    base = _startup_crash((0,))
    if not base["count"] or base["count"]["n"] < 5:
        raise common.MachineryFailure("C09 start-up leg: the first start-up issued %s statements" % (base["count"],))
    n = base["count"]["n"]
    with multiprocessing.Pool(common.NCPU) as pool:
        outs = pool.map(_startup_crash, [(k,) for k in range(1, n + 1)], chunksize=1)
    for o in outs:
        if not o["died"]:
            raise common.MachineryFailure("C09 start-up leg: the child did not die at statement %d" % o["k"])
        run.case(("startup-crash", o["k"], base["count"]["stmts"][o["k"] - 1]))
        if o["problems"]:
            run.violation("C09_openable", {"op": "start-up", "point": "before " + base["count"]["stmts"][o["k"] - 1]},
                          {"experiment": "first start-up killed before statement %d of %d" % (o["k"], n),
                           "statements": base["count"]["stmts"], "problems": o["problems"][:8]})
    run.traces += len(outs)
    run.extra["startup_crash_points"] = n


class Fault(Crash):
    """A transient storage fault instead of a crash: the k-th SQL event (a write statement or a COMMIT) is refused once with
    the error SQLite gives for a busy / failing file; the process lives on and answers."""

    def __init__(self, engine, fault_at):
        Crash.__init__(self, engine, None)
        import sqlalchemy
        import sqlite3 as _sq
        self.fault_at = fault_at
        self.fired = None
        self.fail_commit = False
        store = engine._data_store
        dialect = store.dialect
        inner = dialect.do_commit

        def do_commit(dbapi_connection):
            if self.fail_commit:
                self.fail_commit = False
                raise _sq.OperationalError("database is locked")
            return inner(dbapi_connection)
        dialect.do_commit = do_commit
        self._exc = sqlalchemy.exc.OperationalError

    def mark(self, what):
        self.events.append(what)
        if self.fired is None and len(self.events) == self.fault_at:
            self.fired = what
            if what == "C":
                self.fail_commit = True          # the DBAPI commit that follows this event fails
            elif what.startswith("W:"):
                import sqlite3 as _sq
                raise self._exc(what, {}, _sq.OperationalError("database is locked"))


def _fault_experiment(args):
    name, req, base, k = args
    common.scratch()
    work = os.path.join(common.scratch(), "c09_fault_%s_%d.db" % (name, k))
    shutil.copyfile(base, work)
    D.CLOCK.now = 2000000
    drv = D.EngineDriver(db=work, intern=E.new_interner())
    fl = Fault(drv.engine, k)
    try:
        res = drv.request(req)
    except Exception as e:
        res = {"kind": "raised", "reason": "%s: %s" % (type(e).__name__, e), "items": []}
    drv.stop()
    items = res.get("items") or []
    nacked = 0
    for it in items:
        if it["status"] != "Success":
            break
        nacked += 1
    rec = dump(work)
    broken, notes = fresh_check(work)
    for sfx in ("", "-journal", "-wal", "-shm"):
        try:
            os.unlink(work + sfx)
        except OSError:
            pass
    return {"name": name, "k": k, "fired": fl.fired, "nacked": nacked, "rec": rec, "broken": broken, "notes": notes[:5],
            "answer": [(it["status"], it["reason"]) for it in items] or [(res.get("kind"), res.get("reason"))]}


SYSCALLS = "pwrite64,pwritev,write,unlink,unlinkat,fsync,fdatasync,ftruncate"


def _strace(work, name, k, call=None):
    import subprocess
    import sys
    env = dict(os.environ, PYTHONPATH=common.VERIF, PYTHONDONTWRITEBYTECODE="1")
    log = work + ".strace"
    # the database file and whatever side file SQLite journals into (rollback journal, or write-ahead log + its index)
    cmd = ["strace", "-o", log, "-P", work, "-P", work + "-journal", "-P", work + "-wal", "-P", work + "-shm", "-e", "trace=" + SYSCALLS]
    if k:
        cmd += ["-e", "inject=%s:signal=KILL:when=%d" % (call, k)]      # strace counts per system call
    cmd += [sys.executable, "-m", "harness.c09child", work, name]
    p = subprocess.run(cmd, cwd=common.VERIF, env=env, stdout=subprocess.PIPE, stderr=subprocess.STDOUT, timeout=300)
    n = {}
    try:
        with open(log) as f:
            for line in f:
                c = line.split("(")[0]
                if "(" in line and c in SYSCALLS.split(","):
                    n[c] = n.get(c, 0) + 1
        os.unlink(log)
    except OSError:
        pass
    return p, n


def _syscall_count(args):
    name, base = args
    work = os.path.join(common.scratch(), "c09_sysn_%s.db" % name)
    shutil.copyfile(base, work)
    p, n = _strace(work, name, 0)
    for sfx in ("", "-journal"):
        try:
            os.unlink(work + sfx)
        except OSError:
            pass
    if p.returncode != 0:
        return name, {}, p.stdout.decode()[-400:]
    return name, n, ""


def _syscall_crash(args):
    """The process is killed (SIGKILL injected by strace) on entering the k-th write-side system call that touches the
    database file or its rollback journal: a crash INSIDE SQLite's commit (journal half written, database pages half
    written, journal not yet deleted), which no SQL-level hook can reach."""
    name, base, call, k = args
    work = os.path.join(common.scratch(), "c09_sys_%s_%s_%d.db" % (name, call, k))
    shutil.copyfile(base, work)
    p, _ = _strace(work, name, k, call)
    died = p.returncode in (137, -9)
    if not died:
        o = {"name": name, "k": k, "call": call, "error": "child exit %s instead of being killed: %s" % (p.returncode, p.stdout.decode()[-300:])}
    else:
        journal = os.path.exists(work + "-journal")
        broken, notes = fresh_check(work)          # a fresh server first: it is what recovers a hot journal
        try:
            rec = dump(work)
        except Exception as e:
            rec, broken, notes = [], broken + 1, notes + ["cannot read the file: %r" % (e,)]
        o = {"name": name, "k": k, "call": call, "died": True, "rec": rec, "broken": broken, "notes": notes[:5], "journal": journal}
    for sfx in ("", "-journal", "-wal", "-shm"):
        try:
            os.unlink(work + sfx)
        except OSError:
            pass
    return o


def random_kills(run, base, n, seed):
    """SIGKILL at random instants during a workload; every acknowledged creation must survive and the
    file must stay consistent."""
    r = random.Random(seed)
    bad = 0
    for i in range(n):
        work = os.path.join(common.scratch(), "c09_kill_%d.db" % i)
        shutil.copyfile(base, work)
        rd, wr = os.pipe()
        pid = os.fork()
        if pid == 0:
            os.close(rd)
            try:
                drv = D.EngineDriver(db=work, intern=E.new_interner())
                j = 0
                while True:
                    j += 1
                    res = drv.request(D.one("Create", {"otype": "SymmetricKey", "attrs": attrs(extra=[{"name": "Name", "idx": 0, "v": "k%d" % j}])}))
                    u = res["items"][0]["pl"]["uid"]
                    os.write(wr, ("%d\n" % u).encode())          # the acknowledgement
                    if j % 3 == 0:
                        os.write(wr, ("?%d\n" % u).encode())      # about to be destroyed
                        drv.request(D.one("Destroy", {"uid": u}))
                        os.write(wr, ("-%d\n" % u).encode())
            finally:
                os._exit(0)
        os.close(wr)
        time.sleep(0.15 + r.random() * 0.25)
        os.kill(pid, signal.SIGKILL)
        os.waitpid(pid, 0)
        data = b""
        while True:
            chunk = os.read(rd, 65536)
            if not chunk:
                break
            data += chunk
        os.close(rd)
        acked, dead, pending = set(), set(), set()
        for line in data.decode().split():
            if line.startswith("?"):
                pending.add(int(line[1:]))
                continue
            v = int(line)
            (dead if v < 0 else acked).add(abs(v))
        broken, notes = fresh_check(work)
        st = A.read_state(work, E.new_interner())
        live = set(o["uid"] for o in st["objs"])
        lost = sorted((acked - dead - pending) - live)
        zombies = sorted(dead & live)
        run.case(("kill", len(acked) > 0, len(lost), len(zombies), broken))
        if lost or zombies or broken:
            bad += 1
            run.violation("C09_random_kill", {"lost": bool(lost), "resurrected": bool(zombies), "broken": bool(broken)},
                          {"acknowledged_creations_missing": lost, "acknowledged_destroys_still_present": zombies, "problems": notes})
        for sfx in ("", "-journal"):
            try:
                os.unlink(work + sfx)
            except OSError:
                pass
    run.extra["random_kills"] = n
    run.traces += n


def system_restarts(run, quick):
    """The restart as it happens in production: the whole KmipServer process (start-up code included) is stopped - gracefully,
    and by SIGKILL while idle - and started again on the same configuration and database.  Everything that had been
    acknowledged must still be there, row for row."""
    import shutil
    from .. import sysdrv
    from . import c05
    sysdrv.install_wrap_socket()
    from kmip.core import enums as kenums
    from kmip.pie import objects as pobj
    root = os.path.join(common.scratch(), "sys09")
    sysm = sysdrv.System(root, tls_client_auth=True)
    cert = sysm.issue("alice", ["alice"], "client")
    r = random.Random(common.SEED + 9)
    try:
        sysm.start()
        cl = sysm.client(cert[0], cert[1], ver=(1, 2))
        cl.open()
        n = 0
        for i in range(6 if quick else 20):
            key = pobj.SymmetricKey(kenums.CryptographicAlgorithm.AES, 128, bytes(r.getrandbits(8) for _ in range(16)),
                                    masks=[kenums.CryptographicUsageMask.ENCRYPT], name="k%d" % i)
            extra = {"groups": ["og%d" % (i % 3)] if i % 2 else [], "appinfo": [("ns", "d%d" % i)] if i % 3 == 0 else [], "sensitive": False}
            c05.register_with_attributes(cl, key, extra, (1, 2))
            n += 1
            if i % 4 == 3:
                cl.create_key_pair(kenums.CryptographicAlgorithm.RSA, 1024, public_usage_mask=[kenums.CryptographicUsageMask.VERIFY],
                                   private_usage_mask=[kenums.CryptographicUsageMask.SIGN])
        cl.close()
        sysm.stop()
        acknowledged = dump(sysm.db)
        for how in ("graceful", "killed-while-idle", "graceful"):
            sysm.start()
            if how == "killed-while-idle":
                time.sleep(0.5)
                os.killpg(sysm.proc.pid, signal.SIGKILL)
                sysm.proc.join(10)
                sysm.proc = None
            else:
                sysm.stop()
            now = dump(sysm.db)
            broken, notes = fresh_check(sysm.db)
            run.case(("system-restart", how, now == acknowledged, broken))
            if now != acknowledged or broken:
                run.violation("C09_restart", {"how": how, "level": "system"},
                              {"rows_missing_after_restart": sorted(set(acknowledged) - set(now))[:12],
                               "rows_new_after_restart": sorted(set(now) - set(acknowledged))[:12], "problems": notes,
                               "objects_registered": n})
                break
        run.traces += 3
        run.extra["system_restarts"] = 3
    finally:
        sysm.stop()
        shutil.rmtree(root, ignore_errors=True)


def check(run, tier):
    quick = tier == "quick"
    run.rule = ("leg A: TLC, Durability.tla / MC_C09: Begin / Write (rows in ORM flush order, both keys of a pair) / Commit / Ack "
                "with Crash enabled in every state; invariants acknowledged => durable, all-or-nothing per operation (negative "
                "control SPLIT_COMMIT violates it); leg B (fault enumeration): for every state-changing operation (Create, "
                "CreateKeyPair, Register x4 types, DeriveKey, Activate, Revoke, Destroy x2, Set/Modify/DeleteAttribute x3, a "
                "Create+Activate batch) a forked child runs it on a copy of a populated database and dies (os._exit) immediately "
                "before the k-th SQL write / BEGIN / COMMIT event for every k, and after the commit before the response; a fresh "
                "engine then opens the file (Locate, Get, GetAttributes of everything) and every table is dumped raw; each "
                "experiment is validated by TraceC09.tla (atomic, durable, one transaction, openable); plus SIGKILL at random "
                "instants during a create/destroy workload. distinct = distinct (operation, crash point) experiments.")
    cfg = tlc.write_cfg("MC_C09.cfg", "SPECIFICATION Spec\nCONSTANTS\n  Ops <- OpsC09\n  SPLIT_COMMIT = FALSE\n  FAULTS = 2\n  RETRY_AFTER_ROLLBACK = FALSE\n"
                        "  Tables <- TablesC09\n  SKIP_SCHEMA_IF_BASE = FALSE\n  PRUNE_ON_START = FALSE\n"
                        "INVARIANT AckedDurable\nINVARIANT AllOrNothing\nINVARIANT NoOrphanWrites\nINVARIANT FailedAbsent\n"
                        "INVARIANT AckedOnDisk\nINVARIANT Serviceable\nPROPERTY RestartKeeps\nPROPERTY RefinesStartup\nCHECK_DEADLOCK FALSE\n")
    res = tlc.run("MC_C09", cfg, allow_violation=True)
    run.add_tlc(res, "MC_C09: crash at every step")
    if res.violated:
        raise common.MachineryFailure("Durability.tla violates %s" % res.violated)
    # negative controls: each deviation the model can express must be REFUTED by TLC - otherwise the invariants are vacuous
    text = open(cfg).read()
    controls = {}
    for const, ops in (("SPLIT_COMMIT", "OpsC09"), ("RETRY_AFTER_ROLLBACK", "OpsC09"), ("SKIP_SCHEMA_IF_BASE", "OpsC09b"),
                       ("PRUNE_ON_START", "OpsC09b")):
        ncfg = tlc.write_cfg("MC_C09_neg_%s.cfg" % const, text.replace("%s = FALSE" % const, "%s = TRUE" % const)
                             .replace("Ops <- OpsC09\n", "Ops <- %s\n" % ops).replace("PROPERTY RefinesStartup\n", ""))
        nres = tlc.run("MC_C09", ncfg, allow_violation=True)
        if not nres.violated:
            raise common.MachineryFailure("Durability.tla: negative control %s is not refuted" % const)
        controls[const] = nres.violated[0]
    run.extra["negative_controls_refuted"] = controls
    # unbounded: tlaps/StartupProof.tla proves Startup!Safety (a serving server has its whole schema) for any number of tables,
    # crashes and restarts; RefinesStartup (checked above) carries it over to Durability.tla
    nob = tlc.tlaps("StartupProof", deps=("Startup",))
    run.extra["tlaps_proof"] = {"module": "spec/tlaps/StartupProof.tla", "theorem": "Startup!Safety == Spec => []Serviceable",
                                "obligations_proved": nob}
    run.extra["obligations"] = nob
    run.extra["discharged"] = nob
    E.rsa_pair()
    base = os.path.join(common.scratch(), "c09_base.db")
    populate(base)
    pre = dump(base)
    tasks, info = [], {}
    for name, req in operations():
        work = os.path.join(common.scratch(), "c09_full.db")
        shutil.copyfile(base, work)
        posts = []
        events, resp = run_op(work, req, posts=posts)
        post = dump(work)
        ok = resp.get("kind") == "resp" and all(i["status"] == "Success" for i in resp["items"])
        if not ok:
            raise common.MachineryFailure("C09 workload: %s does not succeed on the populated store: %s" % (name, resp))
        # the acknowledged case: the operation completed and answered; the server is then started again on the file
        abroken, anotes = fresh_check(work)
        info[name] = {"events": events, "post": post, "posts": posts, "nitems": len(req["items"]),
                      "after_restart": dump(work), "abroken": abroken, "anotes": anotes}
        for k in range(1, len(events) + 1):
            tasks.append((name, req, base, k, False))
        tasks.append((name, req, base, 0, True))
    with multiprocessing.Pool(common.NCPU) as pool:
        outs = pool.map(_experiment, tasks, chunksize=2)
    recs = []
    for o in outs:
        if not o["died"]:
            raise common.MachineryFailure("C09: the child did not die at crash point %s/%s" % (o["name"], o["k"]))
        full = info[o["name"]]["events"]
        recs.append({"id": "%s@%s" % (o["name"], "after-commit" if o["after"] else o["k"]),
                     "events": full if o["after"] else full[:o["k"] - 1], "full": full, "pre": pre, "post": info[o["name"]]["post"],
                     "posts": info[o["name"]]["posts"], "nitems": info[o["name"]]["nitems"],
                     "rec": o["rec"], "rec2": o["rec2"], "acked": False, "broken": o["broken"], "notes": o["notes"]})
        run.case((o["name"], "after" if o["after"] else o["k"]))
    # transient storage faults: every write statement / COMMIT of every operation refused once, the process lives on
    ftasks = [(name, req, base, k) for name, req in operations() for k, ev in enumerate(info[name]["events"], 1) if ev != "B"]
    with multiprocessing.Pool(common.NCPU) as pool:
        fouts = pool.map(_fault_experiment, ftasks, chunksize=2)
    nfired = 0
    for o in fouts:
        if o["fired"] is None:
            continue                     # the faulted run took another path before reaching event k
        nfired += 1
        inf = info[o["name"]]
        recs.append({"id": "%s@fault:%s#%d" % (o["name"], o["fired"], o["k"]), "events": inf["events"][:o["k"]], "full": inf["events"],
                     "pre": pre, "post": inf["post"], "posts": inf["posts"], "nitems": inf["nitems"], "rec": o["rec"], "acked": False,
                     "broken": o["broken"], "notes": o["notes"] + ["answer: %s" % (o["answer"],)], "fault": True, "nacked": o["nacked"]})
        run.case((o["name"], "fault", o["fired"], o["k"]))
    if nfired < len(ftasks) // 2:
        raise common.MachineryFailure("C09 storage-fault leg: only %d of %d faults fired" % (nfired, len(ftasks)))
    run.extra["storage_fault_experiments"] = nfired
    # the acknowledged case: the operation completed and answered, then the process died
    for name, inf in info.items():
        recs.append({"id": "%s@acked" % name, "events": inf["events"], "full": inf["events"], "pre": pre, "post": inf["post"],
                     "posts": inf["posts"], "nitems": inf["nitems"],
                     "rec": inf["after_restart"], "rec2": inf["after_restart"], "acked": True, "broken": inf["abroken"],
                     "notes": inf["anotes"][:5]})
    # crashes inside SQLite's commit: killed at every write-side system call on the database / journal
    names = [n for n, _ in operations()]
    if quick:
        names = [n for n in names if n in ("Create", "CreateKeyPair", "RegisterOpaque", "Destroy", "ModifyAttribute",
                                           "DeleteGroup", "Activate", "BatchCreateActivate")]
    with multiprocessing.Pool(common.NCPU) as pool:
        counts = pool.map(_syscall_count, [(n, base) for n in names], chunksize=1)
        nsys = {}
        for n, c, why in counts:
            if sum(c.values()) < 2:
                raise common.MachineryFailure("C09 system-call leg: %s made %s write-side system calls: %s" % (n, c, why))
            nsys[n] = c
        souts = pool.map(_syscall_crash, [(n, base, call, k) for n in names for call in sorted(nsys[n])
                                          for k in range(1, nsys[n][call] + 1)], chunksize=1)
    for o in souts:
        if "error" in o:
            raise common.MachineryFailure("C09 system-call leg: %s/%s#%s: %s" % (o["name"], o["call"], o["k"], o["error"]))
        inf = info[o["name"]]
        recs.append({"id": "%s@sys:%s#%d" % (o["name"], o["call"], o["k"]), "events": inf["events"], "full": inf["events"], "pre": pre,
                     "post": inf["post"], "posts": inf["posts"], "nitems": inf["nitems"], "rec": o["rec"], "acked": False,
                     "broken": o["broken"], "notes": o["notes"] + (["hot journal present"] if o["journal"] else [])})
        run.case((o["name"], "sys", o["call"], o["k"]))
    run.extra["write_syscalls_per_operation"] = nsys
    for x in recs:
        x.setdefault("fault", False)
        x.setdefault("nacked", 0)
        x.setdefault("rec2", x["rec"])
    path = os.path.join(common.scratch(), "c09.json")
    json.dump(recs, open(path, "w"))
    cfg = tlc.write_cfg("TraceC09.cfg", "SPECIFICATION Spec\nCHECK_DEADLOCK FALSE\n")
    r2 = tlc.run("TraceC09", cfg, env={"TRACE_FILE": path})
    if r2.distinct != 2 * len(recs):
        raise common.MachineryFailure("TraceC09 consumed %d states for %d experiments" % (r2.distinct, len(recs)))
    run.add_tlc(r2, "TraceC09: %d crash experiments" % len(recs))
    by = {x["id"]: x for x in recs}
    for v in r2.tag("V"):
        x = by[v["id"]]
        for c in v["clauses"]:
            run.violation(c, {"op": v["id"].split("@")[0], "point": "after-commit" if "after" in v["id"] else
                              "inside-sqlite-commit" if "@sys" in v["id"] else
                              "storage-fault:" + v["id"].split("@fault:")[1].split("#")[0] if "@fault:" in v["id"] else "before-commit"},
                          {"experiment": v["id"], "events_before_crash": x["events"], "all_events": x["full"],
                           "rows_only_in_recovered": sorted(set(x["rec"]) - set(x["pre"]) - set(x["post"]))[:10],
                           "rows_missing_vs_post": sorted(set(x["post"]) - set(x["rec"]))[:10], "problems": x["notes"]})
    run.traces += len(recs)
    run.extra["crash_experiments"] = len(recs)
    run.extra["sql_events_per_operation"] = {k: v["events"] for k, v in info.items()}
    run.sample({"experiment": recs[5]["id"], "events_before_crash": recs[5]["events"], "recovered_equals_pre": set(recs[5]["rec"]) == set(pre)})
    startup_crashes(run)
    random_kills(run, base, 8 if quick else 80, common.SEED)
    system_restarts(run, quick)
    run.assumptions.append("process death (os._exit / SIGKILL), not power loss: SQLite's atomic commit and journal recovery are assumed")
