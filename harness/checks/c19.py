"""C19 - the client reports exactly what the server answered."""
import multiprocessing
import random
import struct
import time

from .. import common, tlc, absmap as A, engdrv as D, engcheck as E, sessdrv as S, clientdrv as C

common.use_repo()
from kmip.core import enums, objects as cobj, attributes as cattr, primitives, secrets, misc, utils as kutils  # noqa
from kmip.core.messages import contents, messages, payloads  # noqa
from kmip.pie import objects as pobj, exceptions as pexc  # noqa
from kmip.core import exceptions as kexc  # noqa
from kmip.core.factories import attributes as attr_factory  # noqa

AF = attr_factory.AttributeFactory()
KEY = bytes(range(16, 48))
ENUM_OP = {
    "create": enums.Operation.CREATE, "create_key_pair": enums.Operation.CREATE_KEY_PAIR, "register": enums.Operation.REGISTER,
    "derive_key": enums.Operation.DERIVE_KEY, "locate": enums.Operation.LOCATE, "get": enums.Operation.GET,
    "get_attributes": enums.Operation.GET_ATTRIBUTES, "get_attribute_list": enums.Operation.GET_ATTRIBUTE_LIST,
    "activate": enums.Operation.ACTIVATE, "revoke": enums.Operation.REVOKE, "destroy": enums.Operation.DESTROY,
    "encrypt": enums.Operation.ENCRYPT, "decrypt": enums.Operation.DECRYPT, "sign": enums.Operation.SIGN,
    "signature_verify": enums.Operation.SIGNATURE_VERIFY, "mac": enums.Operation.MAC,
    "delete_attribute": enums.Operation.DELETE_ATTRIBUTE, "set_attribute": enums.Operation.SET_ATTRIBUTE,
    "modify_attribute": enums.Operation.MODIFY_ATTRIBUTE, "check": enums.Operation.CHECK, "rekey": enums.Operation.REKEY,
    "get_wrapped": enums.Operation.GET, "get_wrapped_nocp": enums.Operation.GET, "encrypt_gcm": enums.Operation.ENCRYPT,
    "discover_versions": enums.Operation.DISCOVER_VERSIONS, "query": enums.Operation.QUERY,
}
MASK = [enums.CryptographicUsageMask.ENCRYPT, enums.CryptographicUsageMask.DECRYPT]


def sym_secret(value=KEY):
    kb = cobj.KeyBlock(key_format_type=misc.KeyFormatType(enums.KeyFormatType.RAW),
                       key_value=cobj.KeyValue(key_material=cobj.KeyMaterial(value)),
                       cryptographic_algorithm=cattr.CryptographicAlgorithm(enums.CryptographicAlgorithm.AES),
                       cryptographic_length=cattr.CryptographicLength(len(value) * 8))
    return secrets.SymmetricKey(kb)


def name_attr(v):
    return AF.create_attribute(enums.AttributeType.NAME, cattr.Name.create(v, enums.NameType.UNINTERPRETED_TEXT_STRING), 0)


# op -> (call, success payload, check of the returned data)
class ProxyFailure(Exception):
    """A KMIPProxy-level operation returned a result object that reports a failure."""

    def __init__(self, status, reason, message):
        Exception.__init__(self, message)
        self.status, self.reason, self.message = status, reason, message


def adapters(uid, ver):
    v2 = ver >= (2, 0)
    A_ = {}
    A_["create"] = (lambda c: c.create(enums.CryptographicAlgorithm.AES, 256, cryptographic_usage_mask=MASK),
                    payloads.CreateResponsePayload(object_type=enums.ObjectType.SYMMETRIC_KEY, unique_identifier=uid),
                    lambda r: r == uid)
    A_["create_key_pair"] = (lambda c: c.create_key_pair(enums.CryptographicAlgorithm.RSA, 2048),
                             payloads.CreateKeyPairResponsePayload(private_key_unique_identifier=uid + "1", public_key_unique_identifier=uid + "2"),
                             lambda r: tuple(r) == (uid + "2", uid + "1"))
    A_["register"] = (lambda c: c.register(pobj.SymmetricKey(enums.CryptographicAlgorithm.AES, 256, KEY, masks=MASK)),
                      payloads.RegisterResponsePayload(unique_identifier=uid), lambda r: r == uid)
    A_["derive_key"] = (lambda c: c.derive_key(enums.ObjectType.SYMMETRIC_KEY, ["1"], enums.DerivationMethod.HMAC,
                                               {"cryptographic_parameters": {"hashing_algorithm": enums.HashingAlgorithm.SHA_256}, "derivation_data": b"x"},
                                               cryptographic_length=128, cryptographic_algorithm=enums.CryptographicAlgorithm.AES),
                        payloads.DeriveKeyResponsePayload(unique_identifier=uid), lambda r: r == uid)
    A_["locate"] = (lambda c: c.locate(maximum_items=5),
                    payloads.LocateResponsePayload(unique_identifiers=[uid, uid + "7", "zz"]),
                    lambda r: list(r) == [uid, uid + "7", "zz"])
    A_["get"] = (lambda c: c.get(uid),
                 payloads.GetResponsePayload(object_type=enums.ObjectType.SYMMETRIC_KEY, unique_identifier=uid, secret=sym_secret()),
                 lambda r: isinstance(r, pobj.SymmetricKey) and r.value == KEY and r.cryptographic_length == 256
                 and r.cryptographic_algorithm == enums.CryptographicAlgorithm.AES)
    def wrapped_secret():
        kwd = cobj.KeyWrappingData(
            wrapping_method=enums.WrappingMethod.ENCRYPT_THEN_MAC_SIGN,
            encryption_key_information=cobj.EncryptionKeyInformation(
                unique_identifier="enc-" + uid,
                cryptographic_parameters=cattr.CryptographicParameters(block_cipher_mode=enums.BlockCipherMode.NIST_KEY_WRAP)),
            mac_signature_key_information=cobj.MACSignatureKeyInformation(
                unique_identifier="mac-" + uid,
                cryptographic_parameters=cattr.CryptographicParameters(hashing_algorithm=enums.HashingAlgorithm.SHA_256,
                                                                       padding_method=enums.PaddingMethod.PSS)),
            mac_signature=b"mac-" + uid.encode(), iv_counter_nonce=b"iv-" + uid.encode(),
            encoding_option=enums.EncodingOption.NO_ENCODING)
        kb = cobj.KeyBlock(key_format_type=misc.KeyFormatType(enums.KeyFormatType.RAW),
                           key_value=cobj.KeyValue(key_material=cobj.KeyMaterial(KEY[:24])),
                           cryptographic_algorithm=cattr.CryptographicAlgorithm(enums.CryptographicAlgorithm.AES),
                           cryptographic_length=cattr.CryptographicLength(128), key_wrapping_data=kwd)
        return secrets.SymmetricKey(kb)

    def wrapped_ok(r):
        k = r.key_wrapping_data
        e, m = k["encryption_key_information"], k["mac_signature_key_information"]
        ep, mp = e["cryptographic_parameters"], m["cryptographic_parameters"]
        return (isinstance(r, pobj.SymmetricKey) and r.value == KEY[:24] and k["wrapping_method"] == enums.WrappingMethod.ENCRYPT_THEN_MAC_SIGN
                and e["unique_identifier"] == "enc-" + uid and m["unique_identifier"] == "mac-" + uid
                and ep.get("block_cipher_mode") == enums.BlockCipherMode.NIST_KEY_WRAP and ep.get("hashing_algorithm") is None
                and ep.get("padding_method") is None
                and mp.get("hashing_algorithm") == enums.HashingAlgorithm.SHA_256 and mp.get("padding_method") == enums.PaddingMethod.PSS
                and mp.get("block_cipher_mode") is None
                and k["mac_signature"] == b"mac-" + uid.encode() and k["iv_counter_nonce"] == b"iv-" + uid.encode()
                and k["encoding_option"] == enums.EncodingOption.NO_ENCODING)
    A_["get_wrapped"] = (lambda c: c.get(uid),
                         payloads.GetResponsePayload(object_type=enums.ObjectType.SYMMETRIC_KEY, unique_identifier=uid, secret=wrapped_secret()),
                         wrapped_ok)
    def wrapped_nocp():
        sec = wrapped_secret()
        kwd = sec.key_block.key_wrapping_data
        kwd.encryption_key_information = cobj.EncryptionKeyInformation(unique_identifier="enc-" + uid)
        kwd.mac_signature_key_information = cobj.MACSignatureKeyInformation(unique_identifier="mac-" + uid)
        return sec

    def wrapped_nocp_ok(r):
        k = r.key_wrapping_data
        e, m = k["encryption_key_information"], k["mac_signature_key_information"]
        return (isinstance(r, pobj.SymmetricKey) and r.value == KEY[:24] and e["unique_identifier"] == "enc-" + uid
                and m["unique_identifier"] == "mac-" + uid and not e.get("cryptographic_parameters") and not m.get("cryptographic_parameters")
                and k["mac_signature"] == b"mac-" + uid.encode())
    A_["get_wrapped_nocp"] = (lambda c: c.get(uid),
                              payloads.GetResponsePayload(object_type=enums.ObjectType.SYMMETRIC_KEY, unique_identifier=uid, secret=wrapped_nocp()),
                              wrapped_nocp_ok)

    def proxy_result(res, ok_value):
        if res.result_status.value != enums.ResultStatus.SUCCESS:
            raise ProxyFailure(res.result_status.value, res.result_reason.value if res.result_reason else None,
                               res.result_message.value if res.result_message else None)
        return ok_value(res)
    A_["discover_versions"] = (lambda c: proxy_result(c.proxy.discover_versions(), lambda res: [(v.major, v.minor) for v in res.protocol_versions]),
                               payloads.DiscoverVersionsResponsePayload(protocol_versions=[contents.ProtocolVersion(1, 4), contents.ProtocolVersion(1, 0)]),
                               lambda r: r == [(1, 4), (1, 0)])
    A_["query"] = (lambda c: proxy_result(c.proxy.query(query_functions=[enums.QueryFunction.QUERY_OPERATIONS]), lambda res: list(res.operations)),
                   payloads.QueryResponsePayload(operations=[enums.Operation.GET, enums.Operation.LOCATE]),
                   lambda r: [x if isinstance(x, enums.Operation) else x.value for x in r] == [enums.Operation.GET, enums.Operation.LOCATE])
    if ver >= (1, 4):
        gcm = {"cryptographic_algorithm": enums.CryptographicAlgorithm.AES, "block_cipher_mode": enums.BlockCipherMode.GCM, "tag_length": 16}
        A_["encrypt_gcm"] = (lambda c: c.encrypt(b"plain", uid=uid, cryptographic_parameters=gcm, iv_counter_nonce=b"\x00" * 12),
                             payloads.EncryptResponsePayload(uid, b"cipher-" + uid.encode(), None, b"tag-" + uid.encode().ljust(12, b"."),),
                             lambda r: b"tag-" + uid.encode().ljust(12, b".") in tuple(r))
    A_["get_attributes"] = (lambda c: c.get_attributes(uid, ["Name"]),
                            payloads.GetAttributesResponsePayload(unique_identifier=uid, attributes=[name_attr("nm-" + uid)]),
                            lambda r: r[0] == uid and len(r[1]) == 1 and r[1][0].attribute_value.name_value.value == "nm-" + uid)
    A_["get_attribute_list"] = (lambda c: c.get_attribute_list(uid),
                                payloads.GetAttributeListResponsePayload(unique_identifier=uid, attribute_names=["Name", "State", "Object Type"]),
                                lambda r: sorted(r) == sorted(["Name", "State", "Object Type"]))
    A_["activate"] = (lambda c: c.activate(uid), payloads.ActivateResponsePayload(unique_identifier=cattr.UniqueIdentifier(uid)), lambda r: r is None)
    A_["revoke"] = (lambda c: c.revoke(enums.RevocationReasonCode.KEY_COMPROMISE, uid),
                    payloads.RevokeResponsePayload(unique_identifier=cattr.UniqueIdentifier(uid)), lambda r: r is None)
    A_["destroy"] = (lambda c: c.destroy(uid), payloads.DestroyResponsePayload(unique_identifier=cattr.UniqueIdentifier(uid)), lambda r: r is None)
    cp = {"cryptographic_algorithm": enums.CryptographicAlgorithm.AES, "block_cipher_mode": enums.BlockCipherMode.CBC,
          "padding_method": enums.PaddingMethod.PKCS5}
    A_["encrypt"] = (lambda c: c.encrypt(b"plain", uid=uid, cryptographic_parameters=cp, iv_counter_nonce=b"\x00" * 16),
                     payloads.EncryptResponsePayload(uid, b"cipher-" + uid.encode(), b"iv-" + uid.encode()),
                     lambda r: tuple(r) == (b"cipher-" + uid.encode(), b"iv-" + uid.encode()))
    A_["decrypt"] = (lambda c: c.decrypt(b"cipher", uid=uid, cryptographic_parameters=cp, iv_counter_nonce=b"\x00" * 16),
                     payloads.DecryptResponsePayload(uid, b"plain-" + uid.encode()), lambda r: r == b"plain-" + uid.encode())
    A_["sign"] = (lambda c: c.sign(b"msg", uid=uid, cryptographic_parameters={"padding_method": enums.PaddingMethod.PSS,
                                                                                "digital_signature_algorithm": enums.DigitalSignatureAlgorithm.SHA256_WITH_RSA_ENCRYPTION}),
                  payloads.SignResponsePayload(unique_identifier=uid, signature_data=b"sig-" + uid.encode()), lambda r: r == b"sig-" + uid.encode())
    A_["signature_verify"] = (lambda c: c.signature_verify(b"msg", b"sig", uid=uid, cryptographic_parameters={"padding_method": enums.PaddingMethod.PSS}),
                              payloads.SignatureVerifyResponsePayload(unique_identifier=uid, validity_indicator=enums.ValidityIndicator.INVALID),
                              lambda r: r == enums.ValidityIndicator.INVALID)
    A_["mac"] = (lambda c: c.mac(b"data", uid=uid, algorithm=enums.CryptographicAlgorithm.HMAC_SHA256),
                 payloads.MACResponsePayload(unique_identifier=cattr.UniqueIdentifier(uid), mac_data=cobj.MACData(b"mac-" + uid.encode())),
                 lambda r: tuple(r) == (uid, b"mac-" + uid.encode()))
    A_["check"] = (lambda c: c.check(uid, usage_limits_count=1),
                   payloads.CheckResponsePayload(unique_identifier=uid), lambda r: r == uid)
    A_["rekey"] = (lambda c: c.rekey(uid=uid, offset=0), payloads.RekeyResponsePayload(unique_identifier=uid + "9"), lambda r: r == uid + "9")
    if v2:
        A_["delete_attribute"] = (lambda c: c.delete_attribute(unique_identifier=uid, attribute_reference=cobj.AttributeReference(vendor_identification="A", attribute_name="Name")),
                                  payloads.DeleteAttributeResponsePayload(unique_identifier=uid), lambda r: r[0] == uid)
        A_["modify_attribute"] = (lambda c: c.modify_attribute(unique_identifier=uid, new_attribute=cobj.NewAttribute(attribute=primitives.Boolean(True, enums.Tags.SENSITIVE))),
                                  payloads.ModifyAttributeResponsePayload(unique_identifier=uid), lambda r: r[0] == uid)
        A_["set_attribute"] = (lambda c: c.set_attribute(unique_identifier=uid, attribute_name="Sensitive", attribute_value=True),
                               payloads.SetAttributeResponsePayload(unique_identifier=uid), lambda r: r == uid)
    else:
        A_["delete_attribute"] = (lambda c: c.delete_attribute(unique_identifier=uid, attribute_name="Name", attribute_index=0),
                                  payloads.DeleteAttributeResponsePayload(unique_identifier=uid, attribute=name_attr("nm-" + uid)),
                                  lambda r: r[0] == uid and r[1].attribute_value.name_value.value == "nm-" + uid)
        A_["modify_attribute"] = (lambda c: c.modify_attribute(unique_identifier=uid, attribute=name_attr("new")),
                                  payloads.ModifyAttributeResponsePayload(unique_identifier=uid, attribute=name_attr("nm-" + uid)),
                                  lambda r: r[0] == uid and r[1].attribute_value.name_value.value == "nm-" + uid)
        A_["set_attribute"] = None          # KMIP 2.0 only
    return A_


def build_response(ver, op, resp, payload, reason, message):
    items = []
    if resp == "success":
        items.append(messages.ResponseBatchItem(operation=contents.Operation(ENUM_OP[op]),
                                                result_status=contents.ResultStatus(enums.ResultStatus.SUCCESS), response_payload=payload))
    elif resp in ("failed", "undone", "failed_noop", "failed_nomsg"):
        st = enums.ResultStatus.OPERATION_UNDONE if resp == "undone" else enums.ResultStatus.OPERATION_FAILED
        items.append(messages.ResponseBatchItem(operation=None if resp == "failed_noop" else contents.Operation(ENUM_OP[op]),
                                                result_status=contents.ResultStatus(st),
                                                result_reason=contents.ResultReason(enums.ResultReason[reason]),
                                                result_message=None if resp == "failed_nomsg" else contents.ResultMessage(message)))
    elif resp == "wrongop" and op == "query":
        items.append(messages.ResponseBatchItem(operation=contents.Operation(enums.Operation.DESTROY), result_status=contents.ResultStatus(enums.ResultStatus.SUCCESS),
                                                response_payload=payloads.DestroyResponsePayload(unique_identifier=cattr.UniqueIdentifier("1"))))
    elif resp == "wrongop":
        other = enums.Operation.QUERY
        items.append(messages.ResponseBatchItem(operation=contents.Operation(other), result_status=contents.ResultStatus(enums.ResultStatus.SUCCESS),
                                                response_payload=payloads.QueryResponsePayload(operations=[enums.Operation.GET])))
    hdr = messages.ResponseHeader(protocol_version=contents.ProtocolVersion(ver[0], ver[1]), time_stamp=contents.TimeStamp(int(time.time())),
                                  batch_count=contents.BatchCount(len(items)))
    m = messages.ResponseMessage(response_header=hdr, batch_items=items)
    s = kutils.BytearrayStream()
    m.write(s, C.KV[ver])
    return bytes(s.buffer)


def deliver(data, chunk):
    """(bytes actually delivered, recv plan)."""
    if chunk == "whole":
        return data, None
    if chunk == "split_header":
        return data, [3, 5, 7, len(data)]
    if chunk == "bytewise":
        return data, [1] * len(data)
    if chunk == "eof_in_header":
        return data[:5], None
    return data[:max(9, len(data) // 2)], [4, 4, 1000000]


def _rows(args):
    chunk_rows, seed = args
    common.scratch()
    out = []
    for k, rec in enumerate(chunk_rows):
        row = rec["row"]
        for ver in [(1, 2), (1, 4), (2, 0)]:
            uid = "u%d" % (100 + (k * 7 + ver[0]) % 800)
            ad = adapters(uid, ver).get(row["op"])
            if ad is None:
                continue
            call, payload, ok = ad
            message = "server says %s #%d" % (row["reason"].lower(), k)
            if row["reason"] in ("ITEM_NOT_FOUND", "PERMISSION_DENIED") and k % 2 == 0:
                message = "Could not locate object: %s" % uid        # the wording a real server uses for both reasons
            if row["resp"] == "garbage":
                body = bytes((i * 31 + 7) % 256 for i in range(40))
                data = b"\x42\x00\x7b\x01" + struct.pack("!I", len(body)) + body
            elif row["resp"] == "empty":
                data = b""
            elif row["resp"] == "short_struct":
                try:
                    full_ok = build_response(ver, row["op"], "success", payload, row["reason"], message)
                except Exception as e:
                    out.append({"row": row, "ver": ver, "skip": "response not encodable: %r" % (e,)})
                    continue
                # drop the last item of the deepest last structure, keep every inner length, make the frame length honest
                from .. import rawttlv as RT
                tree = RT.parse(full_ok)
                node = tree[0]
                while node[1] == RT.STRUCT and node[2] and node[2][-1][1] == RT.STRUCT and node[2][-1][2]:
                    node = node[2][-1]
                last = RT.serialise([node[2][-1]]) if node[1] == RT.STRUCT and node[2] else b""
                if not last or len(last) >= len(full_ok) - 8:
                    out.append({"row": row, "ver": ver, "skip": "nothing to cut"})
                    continue
                data = full_ok[:len(full_ok) - len(last)]
                data = data[:4] + struct.pack("!I", len(data) - 8) + data[8:]
            else:
                try:
                    data = build_response(ver, row["op"], row["resp"], payload, row["reason"], message)
                except Exception as e:
                    out.append({"row": row, "ver": ver, "skip": "response not encodable: %r" % (e,)})
                    continue
            full = data
            data, plan = deliver(data, row["chunk"])
            sock = C.PipeSocket(None, responder=lambda req, d=data: d, plan=plan)
            cl = C.make_client(sock, ver)
            obs = {"kind": "returned", "dataok": False, "status": "", "reason": "", "message": ""}
            try:
                r = call(cl)
                try:
                    obs["dataok"] = bool(ok(r))
                except Exception:
                    obs["dataok"] = False
                obs["value"] = repr(r)[:120]
            except pexc.KmipOperationFailure as e:
                obs = {"kind": "op_failure", "dataok": False, "status": e.status.name, "reason": e.reason.name, "message": e.message}
            except ProxyFailure as e:
                obs = {"kind": "op_failure", "dataok": False, "status": getattr(e.status, "name", str(e.status)),
                       "reason": getattr(e.reason, "name", str(e.reason)), "message": e.message}
            except kexc.OperationFailure as e:
                # the generic request path raises the core library's operation-failure error, which
                # carries the same three fields
                obs = {"kind": "op_failure", "dataok": False, "status": getattr(e.status, "name", str(e.status)),
                       "reason": getattr(e.reason, "name", str(e.reason)), "message": e.args[0] if e.args else None}
            except Exception as e:
                obs = {"kind": "raised", "dataok": False, "status": "", "reason": "", "message": "", "exc": "%s: %s" % (type(e).__name__, str(e)[:100])}
            want_status = {"failed": "OPERATION_FAILED", "failed_noop": "OPERATION_FAILED", "failed_nomsg": "OPERATION_FAILED",
                           "undone": "OPERATION_UNDONE"}.get(row["resp"], "")
            if row["resp"] == "failed_nomsg":
                message = ""
            if obs.get("kind") == "op_failure" and obs.get("message") is None:
                obs["message"] = ""            # no Result Message in the response: nothing to carry
            announced = int.from_bytes(full[4:8], "big") if len(full) >= 8 else 0
            out.append({"row": row, "ver": ver, "outcome": rec["outcome"], "obs": obs,
                        "want": {"status": want_status, "reason": row["reason"], "message": message},
                        "request_sent": len(sock.requests),
                        "trace": {"id": "%s/%s/%s/%s/%d%d" % (row["op"], row["resp"], row["chunk"], row["reason"], ver[0], ver[1]),
                                  "plan": {"len": min(announced, 2 ** 30), "extra": 0, "cut": len(data)}, "ev": list(sock.log),
                                  "kind": obs["kind"]}})
    return out


def requests_decodable(run):
    """Every request the client emits under each supported version is accepted by the server's decoder
    (the real session must not answer Invalid Message to a request the real client produced)."""
    E.rsa_pair()
    n = 0
    # one fresh client per version, then ONE client object whose kmip_version is changed between the calls
    # (as after a DiscoverVersions negotiation): the request header must follow, and the server must still decode
    walk = [(1, 2), (2, 0), (1, 0), (1, 4), (1, 1), (2, 0), (1, 3)]
    shared = {}
    for mode, ver in [("fresh", v) for v in [(1, 0), (1, 1), (1, 2), (1, 3), (1, 4), (2, 0)]] + [("walk", v) for v in walk]:
        if mode == "fresh" or not shared:
            drv = D.EngineDriver(intern=E.new_interner())
        else:
            drv = shared["drv"]
        try:
            if mode == "fresh":
                sock = C.PipeSocket(drv.engine)
                cl = C.make_client(sock, ver)
            elif not shared:
                sock = C.PipeSocket(drv.engine)
                cl = C.make_client(sock, ver)
                shared.update(drv=drv, sock=sock, cl=cl)
            else:
                sock, cl = shared["sock"], shared["cl"]
                cl.kmip_version = C.KV[tuple(ver)]
            try:
                u = cl.register(pobj.SymmetricKey(enums.CryptographicAlgorithm.AES, 128, KEY[:16], masks=MASK + [enums.CryptographicUsageMask.MAC_GENERATE, enums.CryptographicUsageMask.DERIVE_KEY], name="k"))
            except pexc.KmipOperationFailure as e:
                # the server refuses the client's own Register of a plain AES key
                try:
                    pv = A.decode_request(sock.requests[-1]).request_header.protocol_version
                    stated = [pv.major, pv.minor]
                except Exception:
                    stated = None
                run.violation("C19_request_not_decodable" if "parsing" in str(e).lower() else "C19_register_refused",
                              {"call": "register", "mode": mode, "ver": ver[0] * 10 + ver[1]},
                              {"client_call": "register", "client_version": ver, "request_header_version": stated,
                               "error": str(e), "request": sock.requests[-1].hex()})
                continue
            calls = dict((k, v[0]) for k, v in adapters(u, ver).items() if v is not None)
            # variants without an identifier: the operations then rely on the ID placeholder
            calls["activate()"] = lambda c: c.activate()
            calls["get()"] = lambda c: c.get()
            calls["get_attributes()"] = lambda c: c.get_attributes()
            calls["get_attribute_list()"] = lambda c: c.get_attribute_list()
            calls["destroy()"] = lambda c: c.destroy()
            calls["revoke()"] = lambda c: c.revoke(enums.RevocationReasonCode.KEY_COMPROMISE)
            calls["locate(name)"] = lambda c: c.locate(attributes=[name_attr("k")])
            calls["get(wrapped)"] = lambda c: c.get(u, key_wrapping_specification={
                "wrapping_method": enums.WrappingMethod.ENCRYPT,
                "encryption_key_information": {"unique_identifier": u, "cryptographic_parameters": {"block_cipher_mode": enums.BlockCipherMode.NIST_KEY_WRAP}},
                "encoding_option": enums.EncodingOption.NO_ENCODING})
            for name, call in sorted(calls.items()):
                k0 = len(sock.responses)
                exc = None
                try:
                    call(cl)
                except pexc.KmipOperationFailure as e:
                    exc = e
                except Exception as e:
                    exc = e
                n += 1
                run.case(("client-request", mode, name, ver))
                if len(sock.responses) == k0:
                    # the client refused its own arguments before sending: nothing to decode
                    continue
                resp = sock.responses[-1]
                try:
                    pv = A.decode_request(sock.requests[-1]).request_header.protocol_version
                    stated = (pv.major, pv.minor)
                except Exception:
                    stated = None
                if stated is not None and stated != tuple(ver):
                    run.violation("C19_request_version", {"mode": mode, "ver": ver[0] * 10 + ver[1], "stated": list(stated)},
                                  {"client_call": name, "client_version": ver, "request_header_version": stated,
                                   "request": sock.requests[-1].hex()})
                try:
                    ar = A.abs_response(A.decode_response(resp), drv.intern)
                    reason = ar["items"][0]["reason"] if ar["items"] else ""
                    msg = ar["items"][0]["msg"] if ar["items"] else ""
                except Exception:
                    reason, msg = "", ""
                if reason == "InvalidMessage" and "parsing" in msg.lower():
                    run.violation("C19_request_not_decodable", {"call": name, "ver": ver[0] * 10 + ver[1]},
                                  {"client_call": name, "version": ver, "request": sock.requests[-1].hex(), "server_message": msg})
        finally:
            if mode == "fresh":
                drv.close()
    if shared:
        shared["drv"].close()
    run.extra["client_requests_sent_to_real_server"] = n
    run.traces += n


def client_traces(run, traces):
    """Leg A for the client's receive loop (ClientLoop.tla, every chunking, negative control) and validation of the socket
    events of every executed row against it (TraceClient.tla)."""
    import json
    import os
    for over, want in (("FALSE", None), ("TRUE", "NoOverRead")):
        cfg = tlc.write_cfg("MC_ClientLoop_%s.cfg" % over, "SPECIFICATION CSpec\nCONSTANTS\n  Plans <- MCPlans\n  OVERREAD = %s\n"
                            "INVARIANT DeliversExactlyOneFrame\nINVARIANT NoOverRead\nINVARIANT RaisesOnShortStream\nCHECK_DEADLOCK FALSE\n" % over)
        res = tlc.run("MC_ClientLoop", cfg, allow_violation=True)
        if want is None:
            run.add_tlc(res, "MC_ClientLoop: the client's receive loop under every chunking")
            if res.violated:
                raise common.MachineryFailure("ClientLoop.tla violates %s" % res.violated)
        elif want not in res.violated:
            raise common.MachineryFailure("negative control of ClientLoop.tla (fixed-size recv) does not violate %s" % want)
    seen, uniq = set(), []
    for t in traces:
        if t["id"] in seen:
            continue
        seen.add(t["id"])
        uniq.append(t)
    path = os.path.join(common.scratch(), "c19client.json")
    json.dump(uniq, open(path, "w"))
    cfg = tlc.write_cfg("TraceClient.cfg", "SPECIFICATION TSpec\nCONSTANTS\n  Plans = {}\n  OVERREAD = FALSE\nCHECK_DEADLOCK FALSE\n")
    res = tlc.run("TraceClient", cfg, env={"TRACE_FILE": path})
    run.add_tlc(res, "TraceClient: %d client exchanges, %d socket events" % (len(uniq), sum(len(t["ev"]) for t in uniq)))
    by = {t["id"]: t for t in uniq}
    for v in res.tag("V"):
        t = by[v["id"]]
        for c in v["clauses"]:
            run.violation(c, {"op": v["id"].split("/")[0], "chunk": v["id"].split("/")[2]}, {"exchange": t})
    for d in res.tag("D"):
        run.note_drift({"module": "ClientLoop", "e": d["e"], "phase": d["phase"], "op": d["id"].split("/")[0]})
    run.extra["client_exchanges_validated"] = {"exchanges": len(uniq), "in_step_to_the_end": len(res.tag("OK"))}


def check(run, tier):
    quick = tier == "quick"
    run.rule = ("Client.tla is the decision table operation (21 ProxyKmipClient methods) x response class {success with payload, "
                "Operation Failed / Undone x 5 reasons with message, no batch item, item of another operation, non-TTLV frame, zero "
                "bytes} x delivery {whole, header split, byte-wise, stream ends in the header, stream ends in the body}; TLC enumerates "
                "every row with its prescribed outcome (returns the payload's data / raises the operation failure carrying exactly "
                "status, reason, message / raises); each row is executed on a real ProxyKmipClient under KMIP 1.2 and 2.0 over a "
                "scripted socket whose responses are built with the real encoder; then every client method (also without identifier) "
                "is called against a real in-process KmipSession+KmipEngine under all six versions and the server must be able to "
                "decode the request. distinct = rows x versions executed.")
    run.exhaustive = True
    cfg = tlc.write_cfg("Client.cfg", "SPECIFICATION Spec\nINVARIANT Emit\nCHECK_DEADLOCK FALSE\n")
    res = tlc.run("Client", cfg, workers=1)
    rows = res.tag("ROW")
    if len(rows) != res.distinct:
        raise common.MachineryFailure("Client.tla: %d rows for %d states" % (len(rows), res.distinct))
    run.add_tlc(res, "Client.tla decision table")
    n = common.NCPU
    with multiprocessing.Pool(n) as pool:
        outs = pool.map(_rows, [(rows[i::n], common.SEED) for i in range(n)])
    client_traces(run, [o["trace"] for out in outs for o in out if "trace" in o])
    nrun = 0
    for out in outs:
        for o in out:
            if "skip" in o:
                run.note_drift({"what": ["row not executable"], "row": o["row"], "why": o["skip"][:120]})
                continue
            nrun += 1
            row, obs, want = o["row"], o["obs"], o["want"]
            outcome = o["outcome"]                 # prescribed by Client.tla (Outcome(row))
            sig = {"op": row["op"], "resp": row["resp"], "chunk": row["chunk"], "ver": o["ver"][0] * 10 + o["ver"][1]}
            run.case(common.jdump(sig) + row["reason"])
            bad = None
            if outcome == "returns":
                if obs["kind"] != "returned":
                    bad = "C19_success_not_returned"
                elif not obs["dataok"]:
                    bad = "C19_wrong_data_returned"
            elif outcome == "op_failure":
                if obs["kind"] == "returned":
                    bad = "C19_success_reported_for_failure"
                elif obs["kind"] != "op_failure" or (obs["status"], obs["reason"], obs["message"]) != (want["status"], want["reason"], want["message"]):
                    bad = "C19_failure_details_lost"
            else:
                if obs["kind"] == "returned":
                    bad = "C19_data_from_unusable_response"
            if bad:
                run.violation(bad, sig, {"row": row, "version": o["ver"], "observed": obs, "prescribed": outcome, "response_details": want})
            if nrun % 499 == 1:
                run.sample({"row": row, "version": o["ver"], "observed": obs})
    run.traces += nrun
    run.extra["rows_executed_on_real_client"] = nrun
    requests_decodable(run)
