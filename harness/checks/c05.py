"""C05 - stored objects come back exactly as stored (client, wire, engine, SQLite)."""
import json
import multiprocessing
import os
import random

from .. import common, tlc, absmap as A, engdrv as D, engcheck as E, engtrace as T, clientdrv as C, enggen as G

common.use_repo()
from kmip.core import enums  # noqa
from kmip.pie import objects as pobj  # noqa

ALLMASK = [e for e in enums.CryptographicUsageMask]
TYPENAME = {pobj.SymmetricKey: "SymmetricKey", pobj.PublicKey: "PublicKey", pobj.PrivateKey: "PrivateKey", pobj.SplitKey: "SplitKey",
            pobj.X509Certificate: "Certificate", pobj.SecretData: "SecretData", pobj.OpaqueObject: "OpaqueData"}


def ename(e):
    return "NA" if e is None else e.name


def canon(x):
    """canonical text for nested dicts / enums / bytes (0 and False stay distinct from None)."""
    if isinstance(x, dict):
        return {k: canon(v) for k, v in sorted(x.items()) if canon(v) not in (None, {}, [])}
    if isinstance(x, (list, tuple)):
        return [canon(v) for v in x]
    if isinstance(x, (bytes, bytearray)):
        return "hex:" + bytes(x).hex()
    if hasattr(x, "name") and hasattr(x, "value") and not isinstance(x, (int, str)):
        return "enum:" + x.name
    return x


def proj(obj, intern):
    """pie object -> (rec, x): what the property compares (type, value, algorithm, length, format,
    type-specific field; wrapping data and split-key fields as canonical text)."""
    t = TYPENAME[type(obj)]
    rec = {"type": t, "val": intern.tok(obj.value) if obj.value is not None else "", "vlen": len(obj.value or b""),
           "alg": ename(getattr(obj, "cryptographic_algorithm", None)), "len": getattr(obj, "cryptographic_length", None) or 0,
           "fmt": ename(getattr(obj, "key_format_type", None)), "sub": "NA"}
    if t == "Certificate":
        rec["sub"] = ename(obj.certificate_type)
    elif t == "SecretData":
        rec["sub"] = ename(obj.data_type)
    elif t == "OpaqueData":
        rec["sub"] = ename(obj.opaque_type)
    x = {}
    kwd = getattr(obj, "key_wrapping_data", None)
    if kwd:
        x["kwd"] = canon(kwd)
    if t == "SplitKey":
        x["split"] = canon({"parts": obj.split_key_parts, "id": obj.key_part_identifier, "thr": obj.split_key_threshold,
                            "method": obj.split_key_method, "prime": str(obj.prime_field_size) if obj.prime_field_size is not None else None})
    return rec, json.dumps(x, sort_keys=True)


def rnd_bytes(r, n):
    return bytes(r.getrandbits(8) for _ in range(n))


def rnd_kwd(r):
    def cp():
        d = {}
        if r.random() < 0.2:
            # parameters that hold falsy values ONLY: False and 0 are values, not absences
            return r.choice([{"random_iv": False}, {"iv_length": 0, "initial_counter_value": 0}, {"random_iv": False, "tag_length": 0}])
        if r.random() < 0.8:
            d["block_cipher_mode"] = r.choice(list(enums.BlockCipherMode))
        if r.random() < 0.5:
            d["padding_method"] = r.choice(list(enums.PaddingMethod))
        if r.random() < 0.5:
            d["hashing_algorithm"] = r.choice(list(enums.HashingAlgorithm))
        if r.random() < 0.4:
            d["key_role_type"] = r.choice(list(enums.KeyRoleType))
        if r.random() < 0.4:
            d["digital_signature_algorithm"] = r.choice(list(enums.DigitalSignatureAlgorithm))
        if r.random() < 0.5:
            d["cryptographic_algorithm"] = r.choice(list(enums.CryptographicAlgorithm))
        for k in ("random_iv",):
            if r.random() < 0.6:
                d[k] = r.choice([True, False])
        for k in ("iv_length", "tag_length", "fixed_field_length", "invocation_field_length", "counter_length", "initial_counter_value"):
            if r.random() < 0.5:
                d[k] = r.choice([0, 0, 1, 12, 16, 2 ** 31 - 1])
        return d
    k = {"wrapping_method": r.choice(list(enums.WrappingMethod))}
    if r.random() < 0.8:
        k["encryption_key_information"] = {"unique_identifier": r.choice(["1", "77", "wrap-key"]), "cryptographic_parameters": cp()}
    if r.random() < 0.5:
        k["mac_signature_key_information"] = {"unique_identifier": r.choice(["2", "mac-key"]), "cryptographic_parameters": cp()}
    if r.random() < 0.5:
        k["mac_signature"] = rnd_bytes(r, r.choice([1, 8, 20]))
    if r.random() < 0.5:
        k["iv_counter_nonce"] = rnd_bytes(r, r.choice([1, 12, 16]))
    if r.random() < 0.7:
        k["encoding_option"] = r.choice(list(enums.EncodingOption))
    return k


def rnd_object(r, rsa):
    spec = {}
    t = r.choice(["SymmetricKey"] * 3 + ["PublicKey", "PrivateKey", "SplitKey", "Certificate", "SecretData", "OpaqueData"])
    masks = r.choice([None, [], [r.choice(ALLMASK)], r.sample(ALLMASK, r.randrange(1, 6)), list(ALLMASK)])
    name = r.choice(["k", "Symmetric Key", "a name with spaces", "n" * 200, "x-1", "0"])
    kw = rnd_kwd(r) if r.random() < 0.35 else None
    spec["kwd"] = kw if t in ("SymmetricKey", "PublicKey", "PrivateKey", "SplitKey") else None
    if t == "SymmetricKey":
        alg, nbytes = r.choice([(enums.CryptographicAlgorithm.AES, 16), (enums.CryptographicAlgorithm.AES, 24), (enums.CryptographicAlgorithm.AES, 32),
                                (enums.CryptographicAlgorithm.TRIPLE_DES, 24), (enums.CryptographicAlgorithm.BLOWFISH, 16),
                                (enums.CryptographicAlgorithm.HMAC_SHA256, 32), (enums.CryptographicAlgorithm.CHACHA20, 32)])
        o = pobj.SymmetricKey(alg, nbytes * 8, rnd_bytes(r, nbytes), masks=masks, name=name, key_wrapping_data=kw)
    elif t == "PublicKey":
        # every key format the object class accepts (the bytes are what they are: the format is a stored field)
        o = pobj.PublicKey(enums.CryptographicAlgorithm.RSA, 1024, rsa["pub"],
                           r.choice([enums.KeyFormatType.PKCS_1] * 2 + [enums.KeyFormatType.X_509, enums.KeyFormatType.RAW]),
                           masks=masks, name=name, key_wrapping_data=kw)
    elif t == "PrivateKey":
        o = pobj.PrivateKey(enums.CryptographicAlgorithm.RSA, 1024, rsa["priv"],
                            r.choice([enums.KeyFormatType.PKCS_8] * 2 + [enums.KeyFormatType.PKCS_1, enums.KeyFormatType.RAW]),
                            masks=masks, name=name, key_wrapping_data=kw)
    elif t == "SplitKey":
        method = r.choice(list(enums.SplitKeyMethod))
        prime = r.choice([2 ** 63, 2 ** 64 - 59, 2 ** 127 - 1, 2 ** 255 - 19, 104729, 2 ** 63 - 25]) if method == enums.SplitKeyMethod.POLYNOMIAL_SHARING_PRIME_FIELD else None
        sp = {"parts": r.choice([2, 3, 255]), "id": r.choice([1, 2]), "thr": r.choice([1, 2]), "method": method,
              "prime": str(prime) if prime is not None else None}
        spec["split"] = sp
        o = pobj.SplitKey(cryptographic_algorithm=enums.CryptographicAlgorithm.AES, cryptographic_length=128, key_value=rnd_bytes(r, 16),
                          cryptographic_usage_masks=masks, name=name, key_wrapping_data=kw,
                          key_format_type=r.choice([enums.KeyFormatType.RAW] * 2 + [enums.KeyFormatType.OPAQUE, enums.KeyFormatType.PKCS_8,
                                                                                 enums.KeyFormatType.TRANSPARENT_SYMMETRIC_KEY]),
                          split_key_parts=sp["parts"], key_part_identifier=sp["id"], split_key_threshold=sp["thr"],
                          split_key_method=method, prime_field_size=prime)
    elif t == "Certificate":
        o = pobj.X509Certificate(rnd_bytes(r, r.choice([1, 8, 100, 700])), masks=masks, name=name)
    elif t == "SecretData":
        o = pobj.SecretData(rnd_bytes(r, r.choice([1, 7, 8, 9, 32, 100])), r.choice(list(enums.SecretDataType)), masks=masks, name=name)
    else:
        o = pobj.OpaqueObject(rnd_bytes(r, r.choice([1, 8, 33])), enums.OpaqueDataType.NONE, name=name)
    return o, spec


def supplied(obj, spec, uid, intern, now, owner, extra=None):
    """The abstract record of what the client SUPPLIED: wrapping data and split-key fields are taken
    from the caller's own inputs (not read back from the object they were given to)."""
    rec, _ = proj(obj, intern)
    t = rec["type"]
    masks = getattr(obj, "cryptographic_usage_masks", None)
    x = {}
    if spec.get("kwd"):
        x["kwd"] = canon(spec["kwd"])
    if spec.get("split"):
        x["split"] = canon(spec["split"])
    extra = extra or {}
    return {"uid": uid, "type": t, "owner": owner, "policy": extra.get("policy", "default"),
            "state": "PreActive" if t != "OpaqueData" else "NA",
            "mask": sorted(m.name for m in (masks or [])) if t != "OpaqueData" else [], "names": list(obj.names),
            "groups": list(extra.get("groups", [])), "appinfo": [list(a) for a in extra.get("appinfo", [])],
            "sensitive": bool(extra.get("sensitive", False)), "idate": now, "alg": rec["alg"], "len": rec["len"], "fmt": rec["fmt"],
            "val": rec["val"], "sub": rec["sub"]}, rec, json.dumps(x, sort_keys=True)


def register_with_attributes(cl, obj, extra, ver):
    """Register through the client's KMIPProxy with a template carrying the attributes the convenience
    method does not send (object groups, application specific information, sensitive, policy name)."""
    from kmip.core import objects as cobj
    attrs = []
    masks = getattr(obj, "cryptographic_usage_masks", None)
    if masks is not None and TYPENAME[type(obj)] != "OpaqueData":
        attrs.append({"name": "Cryptographic Usage Mask", "v": [m.name for m in masks]})
    for i, n in enumerate(obj.names):
        attrs.append({"name": "Name", "idx": i, "v": n})
    for i, g in enumerate(extra.get("groups", [])):
        attrs.append({"name": "Object Group", "idx": i, "v": g})
    for i, a in enumerate(extra.get("appinfo", [])):
        attrs.append({"name": "Application Specific Information", "idx": i, "v": list(a)})
    if extra.get("sensitive"):
        attrs.append({"name": "Sensitive", "v": True})
    if extra.get("policy"):
        attrs.append({"name": "Operation Policy Name", "v": extra["policy"]})
    template = cobj.TemplateAttribute(attributes=[A.build_attribute(a) for a in attrs])
    secret = cl.object_factory.convert(obj)
    result = cl.proxy.register(obj.object_type, template, secret)
    if result.result_status.value != enums.ResultStatus.SUCCESS:
        raise RuntimeError("%s: %s" % (result.result_reason.value.name, result.result_message.value))
    return result.uuid


def _history(args):
    tid, seed, nsteps = args
    common.scratch()
    r = random.Random(seed)
    intern = E.new_interner()
    rsa = E.rsa_pair()
    D.CLOCK.now = 5000000 + (seed % 1000) * 100
    drv = D.EngineDriver(intern=intern)
    steps = []
    uids = []
    skipped = 0
    wrapkey = None
    active = set()
    try:
        for i in range(nsteps):
            D.CLOCK.now += r.choice([1, 2, 3])
            ver = r.choice(G.VERSIONS)
            sock = C.PipeSocket(drv.engine, cert=None)
            cl = C.make_client(sock, ver)
            k = r.random()
            if k < 0.3 or not uids:
                obj, spec = rnd_object(r, rsa)
                now = int(D.CLOCK.now)
                extra = None
                try:
                    if r.random() < 0.4 and ver < (2, 0):
                        extra = {"groups": [r.choice(["og1", "og2", "og3"]) for _ in range(r.choice([0, 1, 2, 3]))],
                                 "appinfo": [(r.choice(["ns1", "ns2"]), r.choice(["d1", "d2"])) for _ in range(r.choice([0, 1, 2]))],
                                 "sensitive": ver >= (1, 4) and r.random() < 0.5}
                        uid = register_with_attributes(cl, obj, extra, ver)
                    else:
                        uid = cl.register(obj)
                except Exception as e:
                    skipped += 1
                    steps.append({"kind": "noop", "why": "register refused: %s" % str(e)[:80], "otype": TYPENAME[type(obj)], "ver": ver[0] * 10 + ver[1]})
                    continue
                u = A.to_uid(uid)
                o, rec, x = supplied(obj, spec, u, intern, now, "alice", extra)
                steps.append({"kind": "put", "uid": u, "rec": o, "x": x, "gen": False, "ver": ver[0] * 10 + ver[1]})
                uids.append(u)
            elif k < 0.38:
                # server-generated key: requested length, then the same bytes for ever
                ln = r.choice([128, 192, 256])
                now = int(D.CLOCK.now)
                mask = r.sample(ALLMASK, 2)
                uid = cl.create(enums.CryptographicAlgorithm.AES, ln, name="gen", cryptographic_usage_mask=mask)
                u = A.to_uid(uid)
                steps.append({"kind": "put", "uid": u, "gen": True, "x": "{}", "ver": ver[0] * 10 + ver[1], "rec": {
                    "uid": u, "type": "SymmetricKey", "owner": "alice", "policy": "default", "state": "PreActive",
                    "mask": sorted(set(m.name for m in mask) | {"ENCRYPT", "DECRYPT"}),      # ProxyKmipClient.create adds its documented defaults
                    "names": ["gen"], "groups": [], "appinfo": [], "sensitive": False, "idate": now,
                    "alg": "AES", "len": ln, "fmt": "RAW", "val": "gen", "sub": "NA"}})
                uids.append(u)
            elif k < 0.7:
                u = r.choice(uids)
                try:
                    got = cl.get(str(u))
                except Exception as e:
                    steps.append({"kind": "getfail", "uid": u, "why": str(e)[:100], "ver": ver[0] * 10 + ver[1]})
                    continue
                rec, x = proj(got, intern)
                steps.append({"kind": "get", "uid": u, "rec": rec, "x": x, "ver": ver[0] * 10 + ver[1]})
            elif k < 0.85:
                u = r.choice(uids)
                try:
                    _, attrs = cl.get_attributes(str(u))
                except Exception as e:
                    steps.append({"kind": "getfail", "uid": u, "why": "attrs: " + str(e)[:100], "ver": ver[0] * 10 + ver[1]})
                    continue
                steps.append({"kind": "attrs", "uid": u, "ver": ver[0] * 10 + ver[1], "attrs": [T.norm_attr(A.abs_attribute(a)) for a in attrs]})
            elif k < 0.92:
                u = r.choice(uids)
                try:
                    names = cl.get_attribute_list(str(u))
                except Exception as e:
                    steps.append({"kind": "getfail", "uid": u, "why": "names: " + str(e)[:100], "ver": ver[0] * 10 + ver[1]})
                    continue
                steps.append({"kind": "names", "uid": u, "ver": ver[0] * 10 + ver[1], "names": list(names)})
            elif k < 0.935:
                # a reader asks for the object WRAPPED, in a batch whose later item commits: what is stored must not change
                # (the wrapped copy is the answer to that Get only); recorded as a no-op, later reads are checked as ever
                if wrapkey is None:
                    wk = drv.request(D.one("Register", {"otype": "SymmetricKey", "attrs": [
                        {"name": "Cryptographic Usage Mask", "v": ["WRAP_KEY", "UNWRAP_KEY", "ENCRYPT", "DECRYPT"]}],
                        "obj": {"type": "SymmetricKey", "val": intern.tok(bytes(range(16))), "alg": "AES", "len": 128, "fmt": "RAW"}}, ver=(1, 4)))
                    wrapkey = wk["items"][0]["pl"]["uid"]
                    drv.request(D.one("Activate", {"uid": wrapkey}))
                u = r.choice(uids)
                pre = drv.request(D.one("Create", {"otype": "SymmetricKey", "attrs": [
                    {"name": "Cryptographic Algorithm", "v": "AES"}, {"name": "Cryptographic Length", "v": 128},
                    {"name": "Cryptographic Usage Mask", "v": ["ENCRYPT"]}]}))["items"][0]["pl"]["uid"]
                b = drv.request({"user": "alice", "groups": None, "ver": [1, 2], "opt": "Continue", "items": [
                    {"op": "Get", "bid": "1", "p": {"uid": u, "wrap": {"kuid": wrapkey, "mode": "NIST_KEY_WRAP"}}},
                    {"op": "Activate", "bid": "2", "p": {"uid": pre}}]})
                steps.append({"kind": "noop", "why": "wrapped Get + commit in one batch: %s" % [i["status"] for i in b["items"]]})
            elif k < 0.96:
                u = r.choice(uids)
                try:
                    cl.activate(str(u))
                    steps.append({"kind": "state", "uid": u, "state": "Active"})
                    active.add(u)
                except Exception:
                    steps.append({"kind": "noop", "why": "activate refused"})
            elif k < 0.985:
                # the owner destroys an object - most often the newest one, so that whatever the store does with the
                # identifiers and rows of destroyed objects shows in what is stored next
                cand = [u for u in uids if u not in active]
                if not cand:
                    steps.append({"kind": "noop", "why": "nothing to destroy"})
                    continue
                u = cand[-1] if r.random() < 0.7 else r.choice(cand)
                try:
                    cl.destroy(str(u))
                    steps.append({"kind": "destroy", "uid": u})
                    uids.remove(u)
                except Exception as e:
                    steps.append({"kind": "noop", "why": "destroy refused: %s" % str(e)[:60]})
            else:
                drv.restart()
                steps.append({"kind": "restart"})
    finally:
        drv.close()
    return {"tid": tid, "steps": steps, "skipped": skipped}


def _sys_history(args):
    """The same pipeline on the whole system: ProxyKmipClient -> TLS on loopback -> KmipServer's session threads -> engine ->
    SQLite, with real restarts of the server PROCESS on the same configuration and database."""
    import shutil
    import sqlite3
    from .. import sysdrv
    tid, seed, nsteps, pki = args
    common.scratch()
    sysdrv.install_wrap_socket()
    r = random.Random(seed)
    intern = E.new_interner()
    rsa = E.rsa_pair()
    root = os.path.join(common.scratch(), "sys05_%s" % tid)
    sysm = sysdrv.System(root, tls_client_auth=True, issue=lambda *a: None)
    txt = open(sysm.conf).read().replace(os.path.join(os.path.dirname(root), "pki"), pki)
    open(sysm.conf, "w").write(txt)
    sysm.pki = pki
    steps, uids, skipped = [], [], 0

    def idate(u):
        con = sqlite3.connect("file:%s?mode=ro" % sysm.db, uri=True, timeout=10)
        try:
            return con.execute("select initial_date from managed_objects where uid = ?", (u,)).fetchone()[0]
        finally:
            con.close()
    try:
        sysm.start()
        for i in range(nsteps):
            ver = r.choice(G.VERSIONS)
            v10 = ver[0] * 10 + ver[1]
            k = r.random()
            if k > 0.93 and uids:
                sysm.stop()
                sysm.start()
                steps.append({"kind": "restart"})
                continue
            cl = sysm.client(os.path.join(pki, "alice.pem"), os.path.join(pki, "alice.key"), ver=ver)
            try:
                cl.open()
            except Exception as e:
                steps.append({"kind": "noop", "why": "connect failed: %s" % str(e)[:60]})
                continue
            try:
                if k < 0.35 or not uids:
                    obj, spec = rnd_object(r, rsa)
                    extra = None
                    try:
                        if r.random() < 0.5 and ver < (2, 0):
                            extra = {"groups": [r.choice(["og1", "og2", "og3"]) for _ in range(r.choice([1, 1, 2]))],
                                     "appinfo": [(r.choice(["ns1", "ns2"]), r.choice(["d1", "d2"])) for _ in range(r.choice([0, 1]))],
                                     "sensitive": False}
                            uid = register_with_attributes(cl, obj, extra, ver)
                        else:
                            uid = cl.register(obj)
                    except Exception as e:
                        skipped += 1
                        steps.append({"kind": "noop", "why": "register refused: %s" % str(e)[:80], "otype": TYPENAME[type(obj)], "ver": v10})
                        continue
                    u = A.to_uid(uid)
                    o, rec, x = supplied(obj, spec, u, intern, idate(u), "alice", extra)
                    steps.append({"kind": "put", "uid": u, "rec": o, "x": x, "gen": False, "ver": v10})
                    uids.append(u)
                elif k < 0.42:
                    ln = r.choice([128, 256])
                    mask = r.sample(ALLMASK, 2)
                    u = A.to_uid(cl.create(enums.CryptographicAlgorithm.AES, ln, name="gen", cryptographic_usage_mask=mask))
                    steps.append({"kind": "put", "uid": u, "gen": True, "x": "{}", "ver": v10, "rec": {
                        "uid": u, "type": "SymmetricKey", "owner": "alice", "policy": "default", "state": "PreActive",
                        "mask": sorted(set(m.name for m in mask) | {"ENCRYPT", "DECRYPT"}), "names": ["gen"], "groups": [], "appinfo": [],
                        "sensitive": False, "idate": idate(u), "alg": "AES", "len": ln, "fmt": "RAW", "val": "gen", "sub": "NA"}})
                    uids.append(u)
                elif k < 0.72:
                    u = r.choice(uids)
                    try:
                        got = cl.get(str(u))
                    except Exception as e:
                        steps.append({"kind": "getfail", "uid": u, "why": str(e)[:100], "ver": v10})
                        continue
                    rec, x = proj(got, intern)
                    steps.append({"kind": "get", "uid": u, "rec": rec, "x": x, "ver": v10})
                elif k < 0.88:
                    u = r.choice(uids)
                    try:
                        _, attrs = cl.get_attributes(str(u))
                    except Exception as e:
                        steps.append({"kind": "getfail", "uid": u, "why": "attrs: " + str(e)[:100], "ver": v10})
                        continue
                    steps.append({"kind": "attrs", "uid": u, "ver": v10, "attrs": [T.norm_attr(A.abs_attribute(a)) for a in attrs]})
                else:
                    u = r.choice(uids)
                    try:
                        names = cl.get_attribute_list(str(u))
                    except Exception as e:
                        steps.append({"kind": "getfail", "uid": u, "why": "names: " + str(e)[:100], "ver": v10})
                        continue
                    steps.append({"kind": "names", "uid": u, "ver": v10, "names": list(names)})
            finally:
                try:
                    cl.close()
                except Exception:
                    pass
    finally:
        sysm.stop()
        shutil.rmtree(root, ignore_errors=True)
    return {"tid": tid, "steps": steps, "skipped": skipped}


def system_histories(quick):
    import concurrent.futures
    from .. import sysdrv
    pki = os.path.join(common.scratch(), "pki05")
    issue = sysdrv.make_pki(pki)
    issue("alice", ["alice"], "client")
    n, m = (8, 40) if quick else (16, 120)
    with concurrent.futures.ProcessPoolExecutor(max_workers=min(common.NCPU, 8)) as pool:
        return list(pool.map(_sys_history, [("s%d" % i, common.SEED * 977 + i, m, pki) for i in range(n)]))


def check(run, tier):
    quick = tier == "quick"
    run.rule = ("TraceC05.tla keeps an abstract store built from what the CLIENT supplied (never from the database) and checks every "
                "later Get / GetAttributes / GetAttributeList against it; the traces come from a real ProxyKmipClient wired to a real "
                "KmipSession + KmipEngine + SQLite file: seeded random objects of all seven stored types (values of lengths 1..700, "
                "every usage-mask bit, all enumeration members for the type-specific fields, split keys with 63/64/127/255-bit prime "
                "field sizes, key-wrapping data with every sub-field incl. explicit 0 / False values, long names), server-generated "
                "keys (length, same bytes on every later Get), reads under a randomly chosen KMIP version per call, activations, "
                "engine restarts on the same file. distinct = distinct (step kind, object type, version, outcome).")
    E.rsa_pair()
    n, m = (96, 70) if quick else (400, 120)
    with multiprocessing.Pool(common.NCPU) as pool:
        traces = pool.map(_history, [("c%d" % i, common.SEED * 131 + i, m) for i in range(n)])
    # the same pipeline on the whole system (real TLS, the server as its own process, real restarts of that process)
    systraces = system_histories(quick)
    run.extra["system_histories"] = {"servers": len(systraces), "steps": sum(len(t["steps"]) for t in systraces),
                                     "process_restarts": sum(1 for t in systraces for s in t["steps"] if s["kind"] == "restart")}
    traces = list(traces) + systraces
    path = os.path.join(common.scratch(), "c05.json")
    json.dump({"polsets": [], "traces": [], "hists": [], "c5": [{"tid": t["tid"], "steps": [dict(s, **({"x": s.get("x", "")})) for s in t["steps"]]} for t in traces]},
              open(path, "w"))
    cfg = tlc.write_cfg("TraceC05.cfg", 'SPECIFICATION CSpec\nCONSTANT Mut = "none"\nCHECK_DEADLOCK FALSE\n')
    res = tlc.run("TraceC05", cfg, env={"TRACE_FILE": path})
    nsteps = sum(len(t["steps"]) for t in traces)
    if res.distinct != nsteps + len(traces):
        raise common.MachineryFailure("TraceC05 consumed %d states, expected %d" % (res.distinct, nsteps + len(traces)))
    run.add_tlc(res, "TraceC05: %d traces, %d steps" % (len(traces), nsteps))
    by = {t["tid"]: t for t in traces}
    for v in res.tag("V"):
        t = by[v["tid"]]
        s = t["steps"][v["i"] - 1]
        put = next((x for x in t["steps"][:v["i"]] if x.get("kind") == "put" and x["uid"] == s["uid"]), None)
        for c in v["clauses"]:
            run.violation(c, {"otype": put["rec"]["type"] if put else "?", "ver": s.get("ver"), "kind": s["kind"]},
                          {"supplied": put, "returned": s})
    kinds = {}
    for t in traces:
        for s in t["steps"]:
            key = (s["kind"], (s.get("rec") or {}).get("type"), s.get("ver"))
            kinds[key] = kinds.get(key, 0) + 1
            run.case(key)
            if s["kind"] == "getfail":
                run.note_drift({"what": ["read refused"], "why": s["why"][:80], "ver": s.get("ver")})
            if s["kind"] == "noop" and "register refused" in s.get("why", ""):
                run.note_drift({"what": ["register refused"], "why": s["why"][:80], "otype": s.get("otype")})
    run.traces += len(traces)
    run.extra["steps"] = nsteps
    run.extra["puts"] = sum(v for k, v in kinds.items() if k[0] == "put")
    run.extra["gets"] = sum(v for k, v in kinds.items() if k[0] == "get")
    run.extra["attribute_reads"] = sum(v for k, v in kinds.items() if k[0] in ("attrs", "names"))
    run.sample({"trace": traces[0]["steps"][:3]})
