"""C08 - batch results are complete and failed items leave no trace."""
from .. import common, engcheck as E, absmap as A, engdrv as D

ONLY = {"C08"}


def check(run, tier):
    quick = tier == "quick"
    run.rule = ("leg A: TLC, all batches of <= 2 items (thorough: depth 3 histories) over succeeding and failing operations x "
                "{no option, Continue, Undo} x batch-id patterns incl. a missing id, identifier-less items; leg B: every model "
                "transition executed on the real engine with a committed-state snapshot after every executed item; leg C: "
                "seeded random batches of 1-4 items. distinct = distinct (operations of the batch, option, statuses) tuples.")
    E.model_check(run, "MC_C08", "MenuC08", "CheckedC08", 2 if quick else 3, 3)
    edges = E.emit_edges(run, "MC_C08", "EdgeMenuC08", 2, 2)
    traces = E.replay_edges(run, edges)
    n, m = (48, 40) if quick else (400, 60)
    w = {"Create": 3, "Register": 3, "Activate": 2, "Revoke": 2, "Destroy": 2, "Attr": 4, "Get": 1, "GetAttributes": 1}

    class G(object):
        pass
    traces += E.random_histories(run, n, m, common.SEED, genkw={"weights": w, "users": ("alice", "bob")},
                                 batch_p=0.8)
    traces += injected_failures(run, quick)
    traces += attr_then_commit(run, quick)
    traces += placeholder_batches(run, quick)
    traces += over_connections(run, quick)
    refused_for_size(run)
    E.judge(run, traces, only=ONLY, name="c08")
    E.summarise(run, traces)
    for t in traces:
        for s in t["steps"]:
            if s.get("kind") == "req" and len(s["req"]["items"]) > 1:
                run.case(("batch", tuple(i["op"] for i in s["req"]["items"]), s["req"]["opt"],
                          tuple(r["status"] for r in s["res"]["items"]), s["res"]["kind"]))


def injected_failures(run, quick):
    """Batches in which one handler dies with an exception its authors did not anticipate
    (injected RuntimeError): the item must be reported as failed, Stop must stop there, Continue
    must go on, and nothing the failed item touched may be committed by a later item."""
    from .. import engdrv as D, engtrace as T
    traces = []
    ops = ["GetAttributes", "Activate", "ModifyAttribute", "Get", "Destroy"]
    k = 0
    for victim in ops:
        for opt in ("None", "Stop", "Continue"):
            for pos in (0, 1):
                k += 1
                drv = D.EngineDriver(intern=E.new_interner())
                try:
                    rec = T.Recorder(drv, "inj%d" % k)
                    for _ in range(3):
                        rec.request(D.one("Create", {"otype": "SymmetricKey", "attrs": [
                            {"name": "Cryptographic Algorithm", "v": "AES"}, {"name": "Cryptographic Length", "v": 128},
                            {"name": "Cryptographic Usage Mask", "v": ["ENCRYPT"]}, {"name": "Name", "idx": 0, "v": "n1"}]}))
                    eng = drv.engine
                    attr = {"GetAttributes": "_process_get_attributes", "Activate": "_process_activate",
                            "ModifyAttribute": "_process_modify_attribute", "Get": "_process_get",
                            "Destroy": "_process_destroy"}[victim]
                    inner = getattr(eng, attr, None)
                    if inner is None:
                        raise common.MachineryFailure("engine has no %s to inject a fault into" % attr)
                    state = {"n": 0}

                    def boom(payload, inner=inner, state=state):
                        state["n"] += 1
                        if state["n"] == 1:
                            raise RuntimeError("injected internal error")
                        return inner(payload)
                    setattr(eng, attr, boom)
                    vp = {"uid": 1}
                    if victim == "ModifyAttribute":
                        vp = {"uid": 1, "attr": {"name": "Name", "idx": 0, "v": "n2"}}
                    items = [{"op": "Activate", "bid": "a", "p": {"uid": 2}},
                             {"op": "Revoke", "bid": "c", "p": {"uid": 3, "code": "KEY_COMPROMISE"}}]
                    items.insert(pos, {"op": victim, "bid": "b", "p": vp})
                    rec.request({"user": "alice", "groups": None, "ver": [1, 2], "opt": opt, "items": items})
                    rec.request(D.one("Locate", {"filters": []}))
                    rec.close()
                    tr = rec.trace()
                    tr["raw"] = rec.raw
                    tr["injected"] = "%s raises RuntimeError at position %d, option %s" % (victim, pos, opt)
                    traces.append(tr)
                    run.case(("inject", victim, opt, pos))
                finally:
                    drv.close()
    run.extra["injected_internal_errors"] = k
    return traces


ATTR_VALUES = {
    "Name": ["n2", "n1", "fresh", ""], "Object Group": ["og2", "og1", "fresh", ""],
    "Application Specific Information": [["ns", "d2"], ["ns", "d1"], ["zz", "zz"], ["backup", ""], ["", "d9"]],
    "Sensitive": [True, False], "Operation Policy Name": ["public", "default"], "Cryptographic Usage Mask": [["SIGN"], ["ENCRYPT"]],
    "State": ["Active"], "Cryptographic Length": [256, 128], "Cryptographic Algorithm": ["AES"], "Initial Date": [5],
    "Object Type": ["SecretData"], "Unique Identifier": ["77"], "Contact Information": ["me"], "x-custom": ["zz"]}


def _attr_batches(args):
    """[attribute operation on object 1, committing operation on object 2] with Continue: whatever the first item answers,
    a failed first item must leave nothing for the second item's commit to flush."""
    from .. import engdrv as D, engtrace as T
    wid, variants = args
    common.scratch()
    out = []
    drv = D.EngineDriver(intern=E.new_interner())
    try:
        mk = {"otype": "SymmetricKey", "attrs": [
            {"name": "Cryptographic Algorithm", "v": "AES"}, {"name": "Cryptographic Length", "v": 128},
            {"name": "Cryptographic Usage Mask", "v": ["ENCRYPT"]}, {"name": "Name", "idx": 0, "v": "n1"},
            {"name": "Name", "idx": 1, "v": "n2"}, {"name": "Object Group", "idx": 0, "v": "og1"},
            {"name": "Object Group", "idx": 1, "v": "og2"},
            {"name": "Application Specific Information", "idx": 0, "v": ["ns", "d1"]},
            {"name": "Application Specific Information", "idx": 1, "v": ["ns", "d2"]}]}
        for _ in range(2):
            drv.request(D.one("Create", mk))
        snap = drv.db + ".attr"
        drv.snapshot(snap)
        for k, (ver, item, second) in enumerate(variants):
            drv.load_snapshot(snap)
            rec = T.Recorder(drv, "ab%d-%d" % (wid, k))
            try:
                rec.request({"user": "alice", "groups": None, "ver": list(ver), "opt": "Continue",
                             "items": [dict(item, bid="a"), dict(second, bid="b")]})
            except ValueError:
                rec.close()
                continue          # a request the library cannot encode under this version (custom names under 2.0)
            rec.request(D.one("GetAttributes", {"uid": 1, "names": []}, ver=ver))
            rec.close()
            tr = rec.trace()
            tr["raw"] = rec.raw
            out.append(tr)
    finally:
        drv.close()
    return out


def placeholder_batches(run, quick):
    """[creating item, an unrelated item that FAILS, identifier-less items] with Continue: the failed item must not disturb
    the later ones - they address the object the first item created (C08_placeholder in TraceEngine.tla)."""
    from .. import engdrv as D, engtrace as T
    sym = {"otype": "SymmetricKey", "attrs": [{"name": "Cryptographic Algorithm", "v": "AES"}, {"name": "Cryptographic Length", "v": 128},
                                              {"name": "Cryptographic Usage Mask", "v": ["ENCRYPT"]}]}
    creators = [("Create", sym),
                ("Register", {"otype": "SecretData", "attrs": [{"name": "Cryptographic Usage Mask", "v": ["DERIVE_KEY"]}],
                              "obj": {"type": "SecretData", "val": "pw"}})]
    failing = [("Get", {"uid": 424242}), ("Activate", {"uid": 424242}), ("Destroy", {"uid": 424242}),
               ("Create", {"otype": "SymmetricKey", "attrs": [{"name": "Cryptographic Algorithm", "v": "AES"}]}),
               ("ModifyAttribute", {"uid": 424242, "attr": {"name": "Name", "idx": 0, "v": "zz"}}),
               ("Revoke", {"uid": 424242, "code": "KEY_COMPROMISE"}), ("GetAttributes", {"uid": 424242, "names": []}),
               # items that get as far as the database before they fail: a value the storage cannot hold (a prime field
               # size beyond 64 bits), refused by the store at flush time - the unit of work must not stay broken
               ("Register", {"otype": "SplitKey", "attrs": [{"name": "Cryptographic Usage Mask", "v": ["ENCRYPT"]}],
                             "obj": {"type": "SplitKey", "val": "k16", "alg": "AES", "len": 128, "fmt": "RAW",
                                     "prime": A.BIG_PRIME, "smethod": "POLYNOMIAL_SHARING_PRIME_FIELD"}}),
               ("Register", {"otype": "SymmetricKey", "attrs": [{"name": "Cryptographic Usage Mask", "v": ["ENCRYPT"]}],
                             "obj": {"type": "SymmetricKey", "val": "k16", "alg": "AES", "len": 192, "fmt": "RAW"}}),
               ("Destroy", {"uid": 1}), ("Activate", {"uid": 1})]        # object 1 is active: Destroy refused, Activate refused
    later = [[("Activate", {"uid": 0}), ("GetAttributes", {"uid": 0, "names": ["State"]})],
             [("GetAttributeList", {"uid": 0}), ("Destroy", {"uid": 0})],
             [("Get", {"uid": 0}), ("Revoke", {"uid": 0, "code": "KEY_COMPROMISE"})],
             [("Create", sym), ("Locate", {"filters": [], "offset": -1, "max": -1})],
             [("ModifyAttribute", {"uid": 1, "attr": {"name": "Name", "idx": 0, "v": "renamed"}}), ("Get", {"uid": 1})]]
    traces = []
    drv = D.EngineDriver(intern=E.new_interner())
    try:
        drv.request(D.one("Create", dict(sym, attrs=sym["attrs"] + [{"name": "Name", "idx": 0, "v": "first"}])))
        drv.request(D.one("Activate", {"uid": 1}))
        snap = drv.db + ".ph"
        drv.snapshot(snap)
        k = 0
        for cr in creators:
            for fl in failing:
                for lt in later:
                    for ver in ([(1, 2)] if quick else [(1, 0), (1, 2), (2, 0)]):
                        k += 1
                        drv.load_snapshot(snap)
                        rec = T.Recorder(drv, "ph%d" % k)
                        f2 = fl
                        if fl[0] == "ModifyAttribute" and ver >= (2, 0):
                            f2 = ("ModifyAttribute", {"uid": 424242, "cur": None, "new": {"name": "Name", "v": "zz"}})
                        lt2 = [(o, ({"uid": 1, "cur": {"name": "Name", "v": "first"}, "new": {"name": "Name", "v": "renamed"}}
                                   if o == "ModifyAttribute" and ver >= (2, 0) else q)) for (o, q) in lt]
                        items = [cr, f2] + lt2
                        rec.request({"user": "alice", "groups": None, "ver": list(ver), "opt": "Continue",
                                     "items": [{"op": o, "bid": "b%d" % i, "p": dict(p)} for i, (o, p) in enumerate(items)]})
                        rec.close()
                        tr = rec.trace()
                        tr["raw"] = rec.raw
                        traces.append(tr)
    finally:
        drv.close()
    run.extra["placeholder_batches"] = len(traces)
    return traces


def attr_then_commit(run, quick):
    import multiprocessing
    variants = []
    seconds = [{"op": "Activate", "p": {"uid": 2}}, {"op": "ModifyAttribute", "p": {"uid": 2, "attr": {"name": "Name", "idx": 0, "v": "other"}}}]
    for name, vals in ATTR_VALUES.items():
        for v in vals:
            for idx in (-1, 0, 1, 2):
                variants.append(((1, 2), {"op": "ModifyAttribute", "p": {"uid": 1, "attr": {"name": name, "idx": idx, "v": v}}}, seconds[0]))
            for cur in (None, vals[0], vals[-1]):
                variants.append(((2, 0), {"op": "ModifyAttribute", "p": {"uid": 1, "cur": None if cur is None else {"name": name, "v": cur},
                                                                       "new": {"name": name, "v": v}}},
                                 {"op": "Activate", "p": {"uid": 2}}))
            variants.append(((2, 0), {"op": "SetAttribute", "p": {"uid": 1, "new": {"name": name, "v": v}}}, seconds[0]))
            variants.append(((2, 0), {"op": "DeleteAttribute", "p": {"uid": 1, "cur": {"name": name, "v": v}, "ref": None}}, seconds[0]))
        for idx in (-1, 0, 1, 2):
            variants.append(((1, 2), {"op": "DeleteAttribute", "p": {"uid": 1, "name": name, "idx": idx}}, seconds[0]))
        variants.append(((2, 0), {"op": "DeleteAttribute", "p": {"uid": 1, "cur": None, "ref": name}}, seconds[0]))
    if not quick:
        variants += [(v, it, seconds[1] if v < (2, 0) else sec) for (v, it, sec) in variants]
    n = common.NCPU
    with multiprocessing.Pool(n) as pool:
        outs = pool.map(_attr_batches, [(i, variants[i::n]) for i in range(n)])
    traces = [t for o in outs for t in o]
    run.extra["attribute_operation_then_commit_batches"] = len(traces)
    return traces


def _conn_history(args):
    """Batches sent over persistent client connections (one KmipSession per user).  Between them the same clients send
    read-only requests that carry a small Maximum Response Size (those are not part of the trace: a client that asks for a
    limit accepts Response Too Large).  Every recorded request carries NO limit, so each executed item must be reported."""
    from .. import engdrv as D, engtrace as T, enggen as G
    tid, seed, nreq = args
    common.scratch()
    D.CLOCK.now = 3000000 + (seed % 1000) * 1000
    drv = D.SessionDriver(intern=E.new_interner())
    try:
        rec = T.Recorder(drv, tid)
        w = {"Create": 3, "Register": 3, "Activate": 2, "Revoke": 2, "Destroy": 2, "Attr": 4, "Get": 1, "GetAttributes": 1}
        gen = G.Gen(seed, users=("alice", "bob"), weights=w)
        limited = 0
        for i in range(nreq):
            D.CLOCK.now += gen.r.choice([0, 1, 2])
            if gen.r.random() < 0.3:
                q = D.one(gen.r.choice(["Query", "DiscoverVersions"]), {}, user=gen.r.choice(["alice", "bob"]),
                          maxsize=gen.r.choice([8, 64, 256, 100000]))
                drv.send(q)
                limited += 1
            req = gen.request(0.7)
            res = rec.request(req)
            gen.observe(res, drv.state())
        rec.close()
        tr = rec.trace()
        tr["raw"] = rec.raw
        tr["limited"] = limited
        return tr
    finally:
        drv.close()


def refused_for_size(run):
    """Whatever a client is told 'failed' has not happened - also when the failure is 'Response Too Large': state-changing
    requests carrying a Maximum Response Size smaller than their answer, sent through a real session; the store is compared
    before and after."""
    from .. import sessdrv as S, absmap as A
    drv = D.EngineDriver(intern=E.new_interner())
    cert = S.make_cert(1, "client", cn="alice")
    sym = {"otype": "SymmetricKey", "attrs": [{"name": "Cryptographic Algorithm", "v": "AES"}, {"name": "Cryptographic Length", "v": 128},
                                              {"name": "Cryptographic Usage Mask", "v": ["ENCRYPT"]}, {"name": "Name", "idx": 0, "v": "n1"},
                                              {"name": "Object Group", "idx": 0, "v": "og1"}]}
    n = 0
    try:
        drv.request(D.one("Create", sym))
        snap = drv.db + ".size"
        drv.snapshot(snap)
        cells = [((1, 2), "Create", sym), ((1, 2), "Activate", {"uid": 1}), ((1, 2), "Destroy", {"uid": 1}),
                 ((1, 2), "Revoke", {"uid": 1, "code": "KEY_COMPROMISE"}),
                 ((1, 4), "ModifyAttribute", {"uid": 1, "attr": {"name": "Name", "idx": 0, "v": "x" * 300}}),
                 ((1, 2), "DeleteAttribute", {"uid": 1, "name": "Object Group", "idx": 0}),
                 ((2, 0), "SetAttribute", {"uid": 1, "new": {"name": "Sensitive", "v": True}})]
        for ver, op, p in cells:
            for limit in (8, 64, 0):
                drv.load_snapshot(snap)
                before = drv.state()
                req = D.one(op, dict(p), ver=ver)
                req["maxsize"] = limit
                data = A.encode(A.build_request(req, drv.intern, now=int(D.CLOCK.now)), A.KV(tuple(ver)))
                conn = S.FakeConn(data, cert=cert)
                S.run_session(drv.engine, conn)
                after = drv.state()
                n += 1
                told = A.abs_response(A.decode_response(conn.sent[0]), drv.intern)["items"] if conn.sent else []
                reason = told[0]["reason"] if told else "no answer"
                run.case(("size-limited", op, limit, reason, before == after))
                if told and told[0]["status"] != "Success" and before != after:
                    run.violation("C08_refused_but_applied", {"op": op, "reason": reason, "ver": ver[0] * 10 + ver[1]},
                                  {"request": req, "maximum_response_size": limit, "answer": told[0],
                                   "objects_before": len(before["objs"]), "objects_after": len(after["objs"])})
        # a batch whose LATER item cannot be encoded in the response (KMIP 2.0 GetAttributes with nothing to report: the known
        # finding of C13): the earlier items were executed and committed - their results must not be lost with it
        for names in (["Activation Date"], ["Contact Information"]):
            drv.load_snapshot(snap)
            before = drv.state()
            req = {"user": "alice", "groups": None, "ver": [2, 0], "opt": "Continue", "items": [
                {"op": "Create", "bid": "b1", "p": sym}, {"op": "GetAttributes", "bid": "b2", "p": {"uid": 0, "names": names}}]}
            data = A.encode(A.build_request(req, drv.intern, now=int(D.CLOCK.now)), A.KV((2, 0)))
            conn = S.FakeConn(data, cert=cert)
            S.run_session(drv.engine, conn)
            after = drv.state()
            n += 1
            told = A.abs_response(A.decode_response(conn.sent[0]), drv.intern)["items"] if conn.sent else []
            run.case(("unencodable-later-item", tuple(names), len(told), before == after))
            if before != after and not any(t["status"] == "Success" for t in told):
                run.violation("C08_refused_but_applied", {"op": "Create+GetAttributes", "reason": told[0]["reason"] if told else "no answer", "ver": 20},
                              {"request": req, "answer": told, "objects_before": len(before["objs"]), "objects_after": len(after["objs"])})
    finally:
        drv.close()
    run.traces += n
    run.extra["size_limited_state_changing_requests"] = n


def over_connections(run, quick):
    import multiprocessing
    from .. import sessdrv as S
    for u in ("alice", "bob"):
        S.make_cert(1, "client", cn=u)
    E.rsa_pair()
    n, m = (16, 30) if quick else (128, 50)
    with multiprocessing.Pool(common.NCPU) as pool:
        out = pool.map(_conn_history, [("conn%d" % i, common.SEED * 7919 + i, m) for i in range(n)])
    run.extra["connection_histories"] = {"histories": n, "requests_each": m,
                                         "size_limited_requests_in_between": sum(t.pop("limited") for t in out)}
    return out
