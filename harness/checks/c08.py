"""C08 - batch results are complete and failed items leave no trace."""
from .. import common, engcheck as E

ONLY = {"C08"}


def check(run, tier):
    quick = tier == "quick"
    run.rule = ("leg A: TLC, all batches of <= 2 items (thorough: depth 3 histories) over succeeding and failing operations x "
                "{no option, Continue, Undo} x batch-id patterns incl. a missing id, identifier-less items; leg B: every model "
                "transition executed on the real engine with a committed-state snapshot after every executed item; leg C: "
                "seeded random batches of 1-4 items. distinct = distinct (operations of the batch, option, statuses) tuples.")
    E.model_check(run, "MC_C08", "MenuC08", "CheckedC08", 2 if quick else 3, 3)
    edges = E.emit_edges(run, "MC_C08", "EdgeMenuC08", 2, 2)
    traces = E.replay_edges(run, edges)
    n, m = (48, 40) if quick else (400, 60)
    w = {"Create": 3, "Register": 3, "Activate": 2, "Revoke": 2, "Destroy": 2, "Attr": 4, "Get": 1, "GetAttributes": 1}

    class G(object):
        pass
    traces += E.random_histories(run, n, m, common.SEED, genkw={"weights": w, "users": ("alice", "bob")},
                                 batch_p=0.8)
    E.judge(run, traces, only=ONLY, name="c08")
    E.summarise(run, traces)
    for t in traces:
        for s in t["steps"]:
            if s.get("kind") == "req" and len(s["req"]["items"]) > 1:
                run.case(("batch", tuple(i["op"] for i in s["req"]["items"]), s["req"]["opt"],
                          tuple(r["status"] for r in s["res"]["items"]), s["res"]["kind"]))
