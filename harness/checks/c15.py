"""C15 - attribute operations change only what they may, exactly as asked."""
from .. import common, engcheck as E, enggen as G, engdrv as D

ONLY = {"C15"}


def check(run, tier):
    quick = tier == "quick"
    vers = "= {12, 20}" if quick else "= {10, 12, 14, 20}"
    run.rule = ("leg A: TLC, MC_C15: sequences of Set/Modify/DeleteAttribute (1.x index form and 2.0 current/new/reference form) "
                "over 15 attribute names (all fixed attributes, the three stored multi-valued ones, unstored and unknown names) x "
                "index absent/0/1/2/negative x present/new value x 3 object types with 0-2 instances, by owner and non-owner, "
                "checked against C15_fixed / C15_exact / C15_fail; leg B: every transition executed on the real engine with a "
                "full before/after projection of all raw tables; leg C: random interleavings with other operations. "
                "distinct = distinct (operation, form, attribute, index, object type, status, reason) tuples.")
    kw = dict(mkreq="Mk", consts={"Vers": vers, "LeafOps": "= FALSE"}, restarts=False)
    E.model_check(run, "MC_C15", "MenuC15", "CheckedC15", 3 if quick else 4, 1, **kw)
    kw = dict(mkreq="Mk", consts={"Vers": vers, "LeafOps": "= TRUE"}, restarts=False, view="LeafView")
    E.model_check(run, "MC_C15", "MenuC15", "CheckedC15", 3, 2, **kw)
    edges = E.emit_edges(run, "MC_C15", "MenuC15", 3, 2, **kw)
    traces = E.replay_edges(run, edges)
    n, m = (48, 50) if quick else (400, 80)
    w = {"Attr": 12, "Create": 3, "Register": 4, "CreateKeyPair": 0.5, "GetAttributes": 2, "Activate": 1, "Destroy": 0.5,
         "Locate": 0.5}
    traces += E.random_histories(run, n, m, common.SEED, genkw={
        "weights": w, "users": ("alice", "bob"), "versions": [(1, 0), (1, 2), (1, 4), (2, 0)]})
    # text that is the identifier of no object although a lenient store would read it as one ('01', ' 1', '1.0' ...)
    traces += E.alias_identifier_traces(quick, prefix="c15alias")
    E.judge(run, traces, only=ONLY, name="c15")
    # "an unsuccessful call changes nothing": a failed attribute operation followed, in the same batch, by an operation that
    # commits - a change the failed item left in the shared unit of work shows up as a change the later item did not ask for
    from . import c08
    poisoned = c08.attr_then_commit(run, quick)
    E.judge(run, poisoned, only={"C15", "C08"}, name="c15batch")
    traces += poisoned
    E.summarise(run, traces)
    for t in traces:
        for s in t["steps"]:
            if s.get("kind") != "req":
                continue
            for k, it in enumerate(s["req"]["items"]):
                if it["op"] in ("SetAttribute", "ModifyAttribute", "DeleteAttribute") and k < len(s["res"]["items"]):
                    p = it["p"]
                    nm = p.get("name") or (p.get("attr") or p.get("new") or p.get("cur") or {}).get("name") or p.get("ref")
                    idx = p.get("idx", (p.get("attr") or {}).get("idx"))
                    r = s["res"]["items"][k]
                    run.case(("attr", it["op"], s["req"]["ver"] >= 20, nm, idx, r["status"], r["reason"]))
