"""C14 - Locate returns exactly the permitted, matching objects, newest first."""
from .. import common, engcheck as E, enggen as G, engdrv as D

ONLY = {"C14"}
ALLF = ('= {"Name", "State", "Object Type", "Cryptographic Algorithm", "Cryptographic Length", "Cryptographic Usage Mask", '
        '"Operation Policy Name", "Object Group", "Application Specific Information", "Certificate Type", '
        '"Unique Identifier", "Initial Date", "@none"}')


def check(run, tier):
    quick = tier == "quick"
    run.rule = ("leg A: TLC, MC_C14: stores of <= 3 objects (mixed types, two owners, two policies, states, a key pair with equal "
                "dates) x conjunctions of <= 2 filters from the full filter list x offsets/maxima -1..3 x two requesters, checked "
                "against the declarative LocateSet / order / page predicates (independent of the handler model); leg B: every "
                "Locate transition of a smaller graph executed on the real engine; leg C: random stores of 10-20 objects with "
                "random conjunctions of up to 3 filters and paging, each validated by TraceEngine.tla (C14_set, C14_order, "
                "C14_page). distinct = distinct (filter names, paging, requester kind, result size) tuples.")
    kw = dict(mkreq="Mk", view="LocView", restarts=False)
    E.model_check(run, "MC_C14", "MenuC14", "CheckedC14", 5, 3, consts={"SecondFilters": ALLF if not quick else '= {"@none", "Object Type", "State", "Initial Date"}'}, **kw)
    edges = E.emit_edges(run, "MC_C14", "MenuC14", 4, 2, consts={"SecondFilters": '= {"@none", "Object Type"}' if quick else ALLF}, **kw)
    traces = E.replay_edges(run, edges)
    n, m = (48, 60) if quick else (400, 90)
    pols = D.builtin_policies() + G.extra_policies()
    idents = [("alice", None), ("bob", None), ("bob", ["gA"]), ("carol", ["gA", "gB"])]
    w = {"Locate": 12, "Create": 3, "Register": 4, "CreateKeyPair": 1, "Activate": 1.5, "Revoke": 1, "Destroy": 0.7,
         "Attr": 1, "Get": 0.2, "GetAttributes": 0.2, "Encrypt": 0, "Decrypt": 0, "Sign": 0, "SignatureVerify": 0, "MAC": 0,
         "DeriveKey": 0.2, "Query": 0, "DiscoverVersions": 0, "Rekey": 0, "GetAttributeList": 0.1}
    traces += E.random_histories(run, n, m, common.SEED, pols=pols, batch_p=0.1, genkw={
        "weights": w, "idents": idents, "versions": [(1, 2), (1, 4), (2, 0)],
        "policies": ["default", "public", "open", "grouped", "partial"]})
    E.judge(run, traces, only=ONLY, name="c14")
    E.summarise(run, traces)
    nloc = 0
    for t in traces:
        for s in t["steps"]:
            if s.get("kind") != "req":
                continue
            for k, it in enumerate(s["req"]["items"]):
                if it["op"] == "Locate" and k < len(s["res"]["items"]):
                    nloc += 1
                    r = s["res"]["items"][k]
                    run.case(("locate", tuple(f["name"] for f in it["p"]["filters"]), it["p"]["offset"], it["p"]["max"],
                              s["req"]["hasg"], len(r["uids"]), r["status"]))
    run.extra["locate_requests_on_real_engine"] = nloc
