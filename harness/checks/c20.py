"""C20 - secrets stay out of logs and error messages at the default log level."""
import base64
import json
import logging
import multiprocessing
import os
import random

from .. import common, tlc, absmap as A, engdrv as D, engcheck as E, sessdrv as S, enggen as G, clientdrv as C

LEVEL = "exploration"

CANARIES = {
    "k16": bytes.fromhex("c0ffee11d00dfeed5ca1ab1e0ddba11a"),
    "k32": bytes.fromhex("7e57ab1ec0de5afe0ff1cec0a1e5ced0deadc0de8badf00dfeedfacecafebeef"),
    "pw": b"S3cr3t-Canary-Passw0rd!",
    "plain": b"TOP-SECRET-PLAINTEXT-CANARY-0123",
    "credpw": b"Cr3dential-P@ss-Canary",
    # a password that is not valid UTF-8 (a legacy client's Latin-1 / binary password), same length as credpw
    "credbin": bytes.fromhex("c328a0a1e2f0ff8c9d3eb17a44c1e9f5aa0b7c6d5e4f"),
}


def forms(b):
    out = {b.decode("latin-1"), b.hex(), b.hex().upper(), base64.b64encode(b).decode(), repr(b), repr(bytearray(b)),
           str(list(b)), " ".join("%02x" % x for x in b), ":".join("%02x" % x for x in b), "\\x".join("%02x" % x for x in b)}
    return [f for f in out if len(f) >= 8]


class Cap(logging.Handler):
    def __init__(self):
        logging.Handler.__init__(self, level=logging.DEBUG)
        self.recs = []
        self.fmt = logging.Formatter("%(message)s")

    def emit(self, record):
        try:
            text = self.fmt.format(record)      # includes the formatted exception, if any
        except Exception as e:
            text = "<unformattable %r>" % (e,)
        self.recs.append((record.levelno, record.name, text))


def tainted(text, needles):
    return any(n in text for n in needles)


def _history(args):
    wid, seed, nreq = args
    common.scratch()
    S.bound_rsa()          # damaged frames may ask for absurd RSA key sizes
    r = random.Random(seed)
    intern = A.Interner()
    rsa = E.rsa_pair()
    for k, v in CANARIES.items():
        intern.define(k, v)
    intern.define("rsapriv", rsa["priv"])
    intern.define("rsapub", rsa["pub"])
    needles = []
    for v in CANARIES.values():
        needles += forms(v)
    needles += forms(rsa["priv"][40:72])          # a slice of the private key material
    cap = Cap()
    root = logging.getLogger()
    root.addHandler(cap)
    root.setLevel(logging.DEBUG)
    logging.getLogger("kmip").setLevel(logging.DEBUG)
    out = []
    try:
        drv = D.EngineDriver(intern=intern)
        cert = S.make_cert(1, "client")
        gen = G.Gen(seed, users=("alice",), versions=G.VERSIONS + [(3, 0)])
        algs = ["AES", "TRIPLE_DES", "CAMELLIA", "CAST5", "IDEA", "BLOWFISH", "RC4", "RSA", "HMAC_SHA256"]
        for i in range(nreq):
            D.CLOCK.now += 1
            req = gen.request(0.25)
            req["cred"] = ("alice", CANARIES["credpw"].decode())
            for it in req["items"]:
                p = it["p"]
                if it["op"] in ("Encrypt", "Decrypt"):
                    p["cp"] = {"alg": r.choice(algs), "mode": r.choice(["CBC", "ECB", "CTR", "GCM", "CFB", None]),
                               "pad": r.choice(["PKCS5", "ANSI_X923", "NONE", None])}
                    p["data"] = CANARIES["plain"].hex() if r.random() < 0.7 else CANARIES["plain"][:13].hex()
                    p["iv"] = r.choice([None, "00" * 16, "00" * 8, "00" * 3])
                if it["op"] == "MAC":
                    p["data"] = CANARIES["plain"].hex()
                    p["cp"] = {"alg": r.choice(["HMAC_SHA256", "HMAC_MD5", "AES", "RSA"])}
                if it["op"] in ("Sign", "SignatureVerify"):
                    p["data"] = CANARIES["plain"].hex()
                if it["op"] == "DeriveKey":
                    p["dp"] = {"cp": {"hash": r.choice(["SHA_256", "MD5", None]), "alg": r.choice([None, "AES"]), "mode": r.choice([None, "CBC"])},
                               "data": CANARIES["plain"].hex(), "salt": CANARIES["pw"].hex(), "iter": r.choice([None, 1, 1000])}
                    p["method"] = r.choice(["HMAC", "PBKDF2", "HASH", "ENCRYPT", "NIST800_108_C", "HKDF"])
            try:
                msg = A.build_request(req, intern, now=int(D.CLOCK.now))
                kv = A.KV(tuple(req["ver"]))
                data = A.encode(msg) if kv is None else A.encode(msg, kv)
            except Exception:
                continue
            if r.random() < 0.08:
                b = bytearray(data)
                b[r.randrange(8, len(b))] ^= 0x40
                data = bytes(b)
            mark = len(cap.recs)
            conn = S.FakeConn(data, cert=cert if r.random() < 0.97 else None)
            S.run_session(drv.engine, conn, via_run=(r.random() < 0.2))
            gen.observe(None, drv.state())
            ops = "+".join(it["op"] for it in req["items"])
            for (lvl, name, text) in cap.recs[mark:]:
                out.append({"id": "w%d.%d" % (wid, len(out)), "kind": "log", "level": lvl, "logger": name,
                            "tainted": tainted(text, needles), "ops": ops, "text": text[:300] if tainted(text, needles) else ""})
            for resp in conn.sent:
                try:
                    ar = A.abs_response(A.decode_response(resp), intern)
                    for it in ar["items"]:
                        if it["msg"]:
                            out.append({"id": "w%d.%d" % (wid, len(out)), "kind": "message", "level": 0, "logger": "",
                                        "tainted": tainted(it["msg"], needles), "ops": ops, "text": it["msg"][:300]})
                except Exception:
                    pass
        # directed sweep: every cryptographic refusal path on usable (Active, fully masked) canary keys
        if wid < 4:
            allbits = ["ENCRYPT", "DECRYPT", "SIGN", "VERIFY", "MAC_GENERATE", "WRAP_KEY", "DERIVE_KEY"]
            keys = {}
            for tok, ln in (("k16", 128), ("k32", 256)):
                rr = drv.request(D.one("Register", {"otype": "SymmetricKey", "attrs": [{"name": "Cryptographic Usage Mask", "v": allbits}],
                                                    "obj": {"type": "SymmetricKey", "val": tok, "alg": "AES", "len": ln, "fmt": "RAW"}}))
                keys[tok] = rr["items"][0]["pl"]["uid"]
                drv.request(D.one("Activate", {"uid": keys[tok]}))
            rr = drv.request(D.one("Register", {"otype": "SecretData", "attrs": [{"name": "Cryptographic Usage Mask", "v": allbits}],
                                                "obj": {"type": "SecretData", "val": "pw"}}))
            keys["pw"] = rr["items"][0]["pl"]["uid"]
            drv.request(D.one("Activate", {"uid": keys["pw"]}))
            sweep = []
            for u in keys.values():
                for alg in algs:
                    for mode in ["CBC", "ECB", "CTR", "GCM", None]:
                        for iv in [None, "00" * 16, "00" * 5]:
                            sweep.append(("Encrypt", {"uid": u, "cp": {"alg": alg, "mode": mode, "pad": "PKCS5"},
                                                      "data": CANARIES["plain"].hex(), "iv": iv}))
                            sweep.append(("Decrypt", {"uid": u, "cp": {"alg": alg, "mode": mode, "pad": "PKCS5"},
                                                      "data": CANARIES["plain"].hex(), "iv": iv}))
                    sweep.append(("MAC", {"uid": u, "cp": {"alg": alg}, "data": CANARIES["plain"].hex()}))
                for method in ["HMAC", "PBKDF2", "HASH", "ENCRYPT", "NIST800_108_C", "HKDF"]:
                    for h in ["SHA_256", "MD5", None]:
                        sweep.append(("DeriveKey", {"otype": "SymmetricKey", "uids": [u], "method": method,
                                                    "dp": {"cp": {"hash": h, "alg": "TRIPLE_DES" if h is None else "AES", "mode": "CBC", "pad": "PKCS5"},
                                                           "data": CANARIES["plain"].hex(), "salt": CANARIES["pw"].hex(), "iter": 10, "iv": "00" * 16},
                                                    "attrs": [{"name": "Cryptographic Algorithm", "v": "AES"}, {"name": "Cryptographic Length", "v": 128},
                                                              {"name": "Cryptographic Usage Mask", "v": ["ENCRYPT"]}]}))
                sweep.append(("Get", {"uid": u, "wrap": {"kuid": keys["k16"], "mode": "NIST_KEY_WRAP"}}))
                sweep.append(("Get", {"uid": u, "wrap": {"kuid": keys["k32"], "mode": "CBC"}}))
            # every Register refusal path: secret material under every key format type, object type and a wrong length
            from kmip.core import enums as kenums
            for fmt in [f.name for f in kenums.KeyFormatType]:
                for (ot, tok, extra) in (("SymmetricKey", "k16", {"alg": "AES", "len": 128}), ("SymmetricKey", "k32", {"alg": "AES", "len": 128}),
                                         ("SymmetricKey", "k16", {"alg": "TRIPLE_DES", "len": 192}),
                                         ("PrivateKey", "rsapriv", {"alg": "RSA", "len": 1024}), ("PrivateKey", "k32", {"alg": "RSA", "len": 2048}),
                                         ("PublicKey", "k32", {"alg": "RSA", "len": 1024}), ("SecretData", "pw", {}),
                                         ("SplitKey", "k16", {"alg": "AES", "len": 128, "parts": 3, "part": 1, "threshold": 2, "method": "XOR"})):
                    sweep.append(("Register", {"otype": ot, "attrs": [{"name": "Cryptographic Usage Mask", "v": ["ENCRYPT"]}],
                                               "obj": dict({"type": ot, "val": tok, "fmt": fmt}, **extra)}))
            for j, (op, p) in enumerate(sweep):
                if j % 4 != wid:
                    continue
                req = D.one(op, p, ver=(1, 4))
                try:
                    data = A.encode(A.build_request(req, intern, now=int(D.CLOCK.now)), A.KV((1, 4)))
                except Exception:
                    continue
                mark = len(cap.recs)
                conn = S.FakeConn(data, cert=cert)
                S.run_session(drv.engine, conn)
                for (lvl, name, text) in cap.recs[mark:]:
                    out.append({"id": "w%d.%d" % (wid, len(out)), "kind": "log", "level": lvl, "logger": name,
                                "tainted": tainted(text, needles), "ops": "sweep:" + op, "text": text[:300] if tainted(text, needles) else ""})
                for resp in conn.sent:
                    try:
                        for it in A.abs_response(A.decode_response(resp), intern)["items"]:
                            if it["msg"]:
                                out.append({"id": "w%d.%d" % (wid, len(out)), "kind": "message", "level": 0, "logger": "",
                                            "tainted": tainted(it["msg"], needles), "ops": "sweep:" + op, "text": it["msg"][:300]})
                    except Exception:
                        pass
        # transparent key material: the Key Material of a Register request is a STRUCTURE (Transparent Symmetric Key, RSA
        # private key ...) whose fields hold the secret.  The library's own writer cannot produce it, so the frames are
        # assembled at TTLV level from a good Register; the server's codec refuses them - and must not log what they held.
        if wid < 4:
            from .. import rawttlv as RT
            from kmip.core import enums as kenums
            T = kenums.Tags
            shapes = [("TRANSPARENT_SYMMETRIC_KEY", [[T.KEY.value, RT.BYTES, CANARIES["k32"]]]),
                      ("TRANSPARENT_RSA_PRIVATE_KEY", [[T.MODULUS.value, RT.BIGINT, CANARIES["k32"]], [T.PRIVATE_EXPONENT.value, RT.BIGINT, CANARIES["k16"]]]),
                      ("TRANSPARENT_DSA_PRIVATE_KEY", [[T.P.value, RT.BIGINT, CANARIES["k32"]], [T.X.value, RT.BIGINT, CANARIES["k16"]]]),
                      ("TRANSPARENT_ECDSA_PRIVATE_KEY", [[T.RECOMMENDED_CURVE.value, RT.ENUM, b"\x00\x00\x00\x01"], [T.D.value, RT.BIGINT, CANARIES["k32"]]]),
                      ("RAW", [[T.KEY.value, RT.BYTES, CANARIES["k32"]]]), ("OPAQUE", [[T.KEY.value, RT.TEXT, CANARIES["pw"]]])]
            k = 0
            for ver in ((1, 0), (1, 4), (2, 0)):
                for (ot, tok, extra) in (("SymmetricKey", "k16", {"alg": "AES", "len": 128, "fmt": "RAW"}),
                                         ("PrivateKey", "k16", {"alg": "RSA", "len": 1024, "fmt": "RAW"}),
                                         ("SecretData", "pw", {})):
                    req = D.one("Register", {"otype": ot, "attrs": [{"name": "Cryptographic Usage Mask", "v": ["ENCRYPT"]}],
                                             "obj": dict({"type": ot, "val": tok}, **extra)}, ver=ver)
                    try:
                        good = A.encode(A.build_request(req, intern, now=int(D.CLOCK.now)), A.KV(tuple(ver)))
                    except Exception:
                        continue
                    for fmt, fields in shapes:
                        k += 1
                        if k % 4 != wid:
                            continue
                        tree = RT.parse(good)
                        n1 = RT.rewrite(tree, T.KEY_MATERIAL.value, lambda node: [node[0], RT.STRUCT, [list(f) for f in fields]])
                        RT.rewrite(tree, T.KEY_FORMAT_TYPE.value, lambda node: [node[0], node[1], kenums.KeyFormatType[fmt].value.to_bytes(4, "big")])
                        if n1 != 1:
                            raise common.MachineryFailure("C20: no key material node in the Register frame")
                        data = RT.serialise(tree)
                        mark = len(cap.recs)
                        conn = S.FakeConn(data, cert=cert)
                        S.run_session(drv.engine, conn, via_run=(r.random() < 0.3))
                        for (lvl, name, text) in cap.recs[mark:]:
                            out.append({"id": "w%d.%d" % (wid, len(out)), "kind": "log", "level": lvl, "logger": name,
                                        "tainted": tainted(text, needles), "ops": "transparent-key-material:" + fmt,
                                        "text": text[:300] if tainted(text, needles) else ""})
                        for resp in conn.sent:
                            try:
                                for it in A.abs_response(A.decode_response(resp), intern)["items"]:
                                    if it["msg"]:
                                        out.append({"id": "w%d.%d" % (wid, len(out)), "kind": "message", "level": 0, "logger": "",
                                                    "tainted": tainted(it["msg"], needles), "ops": "transparent-key-material:" + fmt,
                                                    "text": it["msg"][:300]})
                            except Exception:
                                pass
        # damaged credentials: the password item of a valid request replaced, at byte level, by a password that is not valid
        # UTF-8, by a shorter / longer one, with another item type (the request then fails to parse - the failure is logged)
        if wid < 4:
            assert len(CANARIES["credbin"]) == len(CANARIES["credpw"])
            for ver in G.VERSIONS:
                req = D.one("Query", {}, ver=ver)
                req["cred"] = ("alice", CANARIES["credpw"].decode())
                try:
                    good = A.encode(A.build_request(req, intern, now=int(D.CLOCK.now)), A.KV(tuple(ver)))
                except Exception:
                    continue
                at = good.find(CANARIES["credpw"])
                if at < 0:
                    continue
                variants = [good[:at] + CANARIES["credbin"] + good[at + len(CANARIES["credpw"]):]]
                for typ in (1, 2, 5, 8, 9, 12):
                    b = bytearray(variants[0] if typ % 2 else good)
                    b[at - 5] = typ                      # the item type byte of the password
                    variants.append(bytes(b))
                for ln in (3, 21, 23, 64, 0x7fffffff):
                    b = bytearray(variants[0])
                    b[at - 4:at] = ln.to_bytes(4, "big")
                    variants.append(bytes(b))
                for data in variants:
                    mark = len(cap.recs)
                    conn = S.FakeConn(data, cert=cert)
                    S.run_session(drv.engine, conn, via_run=(r.random() < 0.3))
                    for (lvl, name, text) in cap.recs[mark:]:
                        out.append({"id": "w%d.%d" % (wid, len(out)), "kind": "log", "level": lvl, "logger": name,
                                    "tainted": tainted(text, needles), "ops": "credential-bytes", "text": text[:300] if tainted(text, needles) else ""})
                    for resp in conn.sent:
                        try:
                            for it in A.abs_response(A.decode_response(resp), intern)["items"]:
                                if it["msg"]:
                                    out.append({"id": "w%d.%d" % (wid, len(out)), "kind": "message", "level": 0, "logger": "",
                                                "tainted": tainted(it["msg"], needles), "ops": "credential-bytes", "text": it["msg"][:300]})
                        except Exception:
                            pass
        drv.close()
        # client side: library logs while talking to the in-process server, credentials from a configuration file
        mark = len(cap.recs)
        conf = os.path.join(common.scratch(), "pykmip_%d.conf" % wid)
        open(conf, "w").write("[client]\nhost=127.0.0.1\nport=5696\nusername=alice\npassword=%s\nssl_version=PROTOCOL_TLS\n"
                              "keyfile=/nonexistent\ncertfile=/nonexistent\nca_certs=/nonexistent\ncert_reqs=CERT_REQUIRED\n"
                              "do_handshake_on_connect=True\nsuppress_ragged_eofs=True\n" % CANARIES["credpw"].decode())
        drv2 = D.EngineDriver(intern=intern)
        try:
            from kmip.core import enums
            from kmip.pie import objects as pobj
            # the ways a client can be given its password: file only, file + the same / another password as argument
            # (after a rotation the file is stale), argument only - whichever wins, neither may reach the log
            other = (CANARIES["credbin"][:6].hex() + "-Rotated-Canary-Pw")
            needles.extend(forms(other.encode()))
            for kwargs in ({"config": "client", "config_file": conf},
                           {"config": "client", "config_file": conf, "password": other, "username": "alice"},
                           {"config": "client", "config_file": conf, "password": CANARIES["credpw"].decode(), "username": "bob"},
                           {"password": other, "username": "alice"},
                           {"config": "nosuchsection", "config_file": conf, "password": other}):
                try:
                    cl = C.make_client(C.PipeSocket(drv2.engine), (1, 2), **kwargs)
                    cl.get("999999")
                except Exception:
                    pass
                try:
                    from kmip.services import kmip_client
                    kmip_client.KMIPProxy(**kwargs)
                except Exception:
                    pass
            for ver in [(1, 2), (2, 0)]:
                sock = C.PipeSocket(drv2.engine)
                cl = C.make_client(sock, ver, config="client", config_file=conf)
                for step in range(6):
                    try:
                        if step == 0:
                            u = cl.register(pobj.SymmetricKey(enums.CryptographicAlgorithm.AES, 128, CANARIES["k16"],
                                                              masks=[enums.CryptographicUsageMask.ENCRYPT, enums.CryptographicUsageMask.DECRYPT]))
                        elif step == 1:
                            cl.get(u)
                        elif step == 2:
                            cl.activate(u)
                        elif step == 3:
                            cl.encrypt(CANARIES["plain"], uid=u, cryptographic_parameters={
                                "cryptographic_algorithm": enums.CryptographicAlgorithm.AES,
                                "block_cipher_mode": enums.BlockCipherMode.CBC, "padding_method": enums.PaddingMethod.PKCS5},
                                iv_counter_nonce=b"\x00" * 16)
                        elif step == 4:
                            cl.register(pobj.SecretData(CANARIES["pw"], enums.SecretDataType.PASSWORD))
                        else:
                            cl.get("999999")
                    except Exception:
                        pass
            # responses that carry key material and are cut short / damaged on their way to the client: the client raises -
            # and must not put what it had received into its log
            for ver in [(1, 2), (2, 0)]:
                sock0 = C.PipeSocket(drv2.engine)
                cl0 = C.make_client(sock0, ver)
                try:
                    u = cl0.register(pobj.SymmetricKey(enums.CryptographicAlgorithm.AES, 256, CANARIES["k32"],
                                                       masks=[enums.CryptographicUsageMask.ENCRYPT]))
                except Exception:
                    continue
                probe = C.PipeSocket(drv2.engine)
                try:
                    C.make_client(probe, ver).get(u)
                except Exception:
                    pass
                full = probe.responses[-1] if probe.responses else b""
                cuts = sorted(set([5, 8, 9, len(full) // 2, len(full) - 20, len(full) - 8, len(full) - 1]))
                tampers = [(lambda b, c=c: b[:c]) for c in cuts if 0 < c < len(full)]
                tampers.append(lambda b: b[:12] + bytes([b[12] ^ 0x08]) + b[13:])            # a damaged type byte
                tampers.append(lambda b: b[:4] + (len(b) + 64).to_bytes(4, "big") + b[8:])    # announces more than arrives
                tampers.append(lambda b: b + b"\x00" * 8)
                for tp in tampers:
                    sock = C.PipeSocket(drv2.engine, tamper=tp, plan=[r.choice([1, 7, 8, 64, 10 ** 6]) for _ in range(8)] + [10 ** 6])
                    try:
                        C.make_client(sock, ver).get(u)
                    except Exception:
                        pass
        finally:
            drv2.close()
        for (lvl, name, text) in cap.recs[mark:]:
            out.append({"id": "w%d.%d" % (wid, len(out)), "kind": "log", "level": lvl, "logger": name,
                        "tainted": tainted(text, needles), "ops": "client", "text": text[:300] if tainted(text, needles) else ""})
    finally:
        root.removeHandler(cap)
    return out


def check(run, tier):
    quick = tier == "quick"
    run.rule = ("histories with high-entropy canaries as key material, secret data, request credentials, plaintext, derivation data "
                "and salt run against a real KmipSession + KmipEngine (random requests of every operation in every version incl. "
                "unsupported ones, cryptographic parameters over all algorithm / mode / padding combinations, damaged frames, "
                "unauthenticated connections, run() and _handle_message_loop entry points) and through a real ProxyKmipClient "
                "configured from a file holding the password; credentials damaged at byte level (a password that is not valid UTF-8, "
                "other item types and lengths); Get responses carrying key material cut short / damaged on their way to the client; "
                "every log record of every logger (formatted, including exception "
                "text) and every result message is searched for each canary in 10 encodings; TraceC20.tla states the invariant "
                "(no tainted record at level >= INFO, no tainted result message) and the positive control (the canary IS visible at "
                "DEBUG). distinct = distinct (logger, level, operations) record classes.")
    E.rsa_pair()
    S.make_cert(1, "client")
    n = common.NCPU
    nreq = 300 if quick else 1500
    with multiprocessing.Pool(n) as pool:
        outs = pool.map(_history, [(i, common.SEED * 31 + i, nreq) for i in range(n)])
    recs = [x for o in outs for x in o]
    path = os.path.join(common.scratch(), "c20.json")
    json.dump([{"id": x["id"], "kind": x["kind"], "level": x["level"], "tainted": x["tainted"]} for x in recs], open(path, "w"))
    cfg = tlc.write_cfg("TraceC20.cfg", "SPECIFICATION Spec\nCHECK_DEADLOCK FALSE\n")
    res = tlc.run("TraceC20", cfg, env={"TRACE_FILE": path})
    if res.distinct != 2 * len(recs):
        raise common.MachineryFailure("TraceC20 consumed %d states for %d records" % (res.distinct, len(recs)))
    run.add_tlc(res, "TraceC20: %d log records / result messages" % len(recs))
    by = {x["id"]: x for x in recs}
    if not res.tag("CTRL"):
        raise common.MachineryFailure("C20 positive control failed: no canary was seen at DEBUG level, the search would find nothing")
    for v in res.tag("V"):
        x = by[v["id"]]
        run.violation("C20_leak_in_" + x["kind"], {"logger": x["logger"], "level": x["level"], "ops": x["ops"][:40]},
                      {"record": x})
    for x in recs:
        run.case((x["kind"], x["logger"], x["level"], x["ops"][:30]))
    run.evaluations = len(recs)
    run.traces += n
    run.extra["records_checked"] = len(recs)
    run.extra["tainted_debug_records_positive_control"] = len(res.tag("CTRL"))
    run.extra["info_or_above"] = sum(1 for x in recs if x["kind"] == "log" and x["level"] >= 20)
    run.extra["result_messages"] = sum(1 for x in recs if x["kind"] == "message")
    run.sample({"record": next(x for x in recs if x["kind"] == "message")})
    run.assumptions.append("substring search for the canaries in 10 encodings (raw, hex lower/upper, base64, repr, decimal list, "
                           "separated hex); a leak in another encoding is missed")
