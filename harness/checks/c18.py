"""C18 - policies in force follow the policy files; built-in policies are untouchable."""
import copy
import json
import logging
import os
import random
import shutil

from .. import common, tlc

common.use_repo()
from kmip.core import enums, policy as core_policy  # noqa
from kmip.services.server import monitor as monitor_mod  # noqa

DEFS = {
    "d1": {"preset": {"SYMMETRIC_KEY": {"GET": "ALLOW_ALL"}}},
    "d2": {"preset": {"SYMMETRIC_KEY": {"GET": "DISALLOW_ALL"}}},
    "d3": {"groups": {"g1": {"SYMMETRIC_KEY": {"GET": "ALLOW_OWNER", "DESTROY": "ALLOW_ALL"}}}},
}
PARSED = None


def parsed_defs():
    global PARSED
    if PARSED is None:
        PARSED = {}
        d = os.path.join(common.scratch(), "defs")
        os.makedirs(d, exist_ok=True)
        for k, v in DEFS.items():
            p = os.path.join(d, k + ".json")
            json.dump({"x": v}, open(p, "w"))
            PARSED[k] = core_policy.read_policy_from_file(p)["x"]
    return PARSED


def token(defn):
    for k, v in parsed_defs().items():
        if v == defn:
            return k
    for name in ("default", "public"):
        if defn == core_policy.policies[name]:
            return "builtin"
    return "?" + repr(defn)[:40]


class RealMonitor(object):
    """A real PolicyDirectoryMonitor over a real directory with controlled mtimes; scans are
    called directly (live_monitoring is irrelevant: scan_policies is the unit the loop calls)."""

    def __init__(self, tag):
        self.dir = os.path.join(common.scratch(), "pol_%s" % tag)
        shutil.rmtree(self.dir, ignore_errors=True)
        os.makedirs(self.dir)
        self.store = dict(copy.deepcopy(core_policy.policies))
        self.mon = monitor_mod.PolicyDirectoryMonitor(self.dir, self.store, live_monitoring=False)
        self.mon.logger = logging.getLogger("kmip.server.monitor.verif")
        self.mon.logger.disabled = True

    def write(self, f, content, valid, mtime, how="text"):
        path = os.path.join(self.dir, f)
        if os.path.islink(path):
            os.unlink(path)
        if how == "symlink":
            # an invalid "document" of another kind: a *.json entry that cannot be opened (a dangling symbolic link)
            if os.path.exists(path):
                os.unlink(path)
            os.symlink(os.path.join(self.dir, "no-such-target"), path)
            return
        with open(path, "w") as fh:
            if valid:
                json.dump({n: DEFS[d] for n, d in sorted(content.items()) if d != "none"}, fh, sort_keys=True)
            else:
                fh.write("{ this is not a policy document")
        os.utime(path, (mtime, mtime))

    def write_text(self, f, text, mtime):
        path = os.path.join(self.dir, f)
        with open(path, "w") as fh:
            fh.write(text)
        os.utime(path, (mtime, mtime))

    def remove(self, f):
        os.unlink(os.path.join(self.dir, f))

    def scan(self):
        """Returns (raised, store tokens)."""
        raised = ""
        try:
            self.mon.scan_policies()
        except Exception as e:
            raised = "%s: %s" % (type(e).__name__, e)
        return raised, {n: token(d) for n, d in self.store.items()}

    # snapshots for the edge walk
    def snapshot(self):
        files = {}
        for f in os.listdir(self.dir):
            p = os.path.join(self.dir, f)
            files[f] = (open(p).read(), os.path.getmtime(p))
        m = self.mon
        return {"files": files, "store": copy.deepcopy(dict(self.store)),
                "ts": copy.deepcopy(m.file_timestamps), "cache": copy.deepcopy(m.policy_cache),
                "pfiles": list(m.policy_files), "pmap": dict(m.policy_map)}

    def restore(self, snap):
        for f in os.listdir(self.dir):
            os.unlink(os.path.join(self.dir, f))
        for f, (text, mt) in snap["files"].items():
            p = os.path.join(self.dir, f)
            open(p, "w").write(text)
            os.utime(p, (mt, mt))
        self.store.clear()
        self.store.update(copy.deepcopy(snap["store"]))
        m = self.mon
        # file timestamps / policy_files hold absolute paths of this directory already
        m.file_timestamps = copy.deepcopy(snap["ts"])
        m.policy_cache = copy.deepcopy(snap["cache"])
        m.policy_files = list(snap["pfiles"])
        m.policy_map = dict(snap["pmap"])

    def close(self):
        shutil.rmtree(self.dir, ignore_errors=True)


def cfg18(name, drop, files, names, defs, maxev, pend, emit=False, inv=True):
    lines = ["SPECIFICATION Spec", "CONSTANTS", "  DROP_STALE = %s" % ("TRUE" if drop else "FALSE"),
             "  Files <- %s" % files, "  Names = %s" % names, "  Defs = %s" % defs,
             "  MaxEvents = %d" % maxev, "  MaxPending = %d" % pend]
    if inv:
        lines += ["INVARIANT C18", "INVARIANT ReservedUntouched"]
    if emit:
        lines += ["ACTION_CONSTRAINT Emit"]
    lines += ["VIEW view", "CHECK_DEADLOCK FALSE"]
    return tlc.write_cfg(name, "\n".join(lines) + "\n")


def canon(x):
    x = copy.deepcopy(x)
    for k in ("pfiles", "hascache"):
        x["ms"][k] = sorted(x["ms"][k])
    x["gs"]["has"] = sorted(x["gs"]["has"])
    x.pop("ideal", None)
    return common.jdump(x)


def replay_edges(run, edges):
    """Walk TLC's transition graph on a real monitor: for every explored transition restore the
    real snapshot of its source state, apply the event, compare after every scan."""
    rm = RealMonitor("edges")
    try:
        snaps = {}
        nscan = 0
        for e in edges:
            fk = canon(e["from"])
            if not snaps:
                snaps[fk] = rm.snapshot()
            if fk not in snaps:
                raise common.MachineryFailure("C18 edge walk: source state not reached yet")
            rm.restore(snaps[fk])
            ev = e["ev"]
            if ev["kind"] == "write":
                rm.write(ev["f"], ev["content"], ev["valid"], ev["mtime"])
            elif ev["kind"] == "remove":
                rm.remove(ev["f"])
            else:
                nscan += 1
                raised, store = rm.scan()
                want = {n: d for n, d in e["to"]["ideal"].items() if d != "none"}
                model = {n: d for n, d in e["to"]["ms"]["store"].items() if d != "none"}
                run.case(("scan", tuple(sorted(store.items()))))
                if raised or store != want:
                    run.violation("C18_store" if not raised else "C18_scan_raises",
                                  {"names": sorted(n for n in set(store) | set(want) if store.get(n) != want.get(n)),
                                   "raised": raised.split(":")[0]},
                                  {"files_before_scan": e["from"]["files"], "observed_store": store,
                                   "prescribed_store": want, "raised": raised, "events_so_far": e["nev"]})
                if store != model:
                    run.note_drift({"what": ["store"], "observed": store, "model": model})
            tk = canon(e["to"])
            if tk not in snaps:
                snaps[tk] = rm.snapshot()
        run.traces += nscan
        run.extra["edge_scans_on_real_monitor"] = nscan
        run.extra["edge_states_with_real_snapshot"] = len(snaps)
    finally:
        rm.close()


def random_traces(run, n, length, seed):
    files = ["a.json", "b.json", "c.json", "d.json"]
    names = ["p", "q", "r", "default"]
    defs = ["d1", "d2", "d3"]
    traces = []
    for k in range(n):
        r = random.Random(seed * 7919 + k)
        multi = k % 2 == 1          # odd traces: several files may disappear between two scans
        rm = RealMonitor("rnd%d" % k)
        steps = []
        present = {}
        gone = {}          # removed files as they were: (content, valid, mtime)
        unopen = set()     # files currently represented by an entry that cannot be opened
        ever_unopen = set()
        mt = {}
        clock = 100
        try:
            pending_removal = False
            for i in range(length):
                x = r.random()
                if gone and r.random() < 0.12:
                    # a removed file comes back exactly as it was, old modification time included
                    f = r.choice(sorted(gone))
                    content, valid, old = gone.pop(f)
                    rm.write(f, content, valid, old)
                    present[f] = content
                    mt[f] = (valid, old)
                    steps.append({"kind": "write", "f": f, "content": {nm: content.get(nm, "none") for nm in content},
                                  "valid": valid, "mtime": old})
                    continue
                if x < 0.45 or not present:
                    f = r.choice(files)
                    content = {nm: r.choice(defs) for nm in names if r.random() < (0.5 if nm != "default" else 0.1)}
                    valid = r.random() < 0.85
                    if not valid and f in present:
                        content = present[f]
                    clock += 1
                    when = clock
                    # (never for a file that was once represented by an unopenable entry: the monitor could not read that
                    # entry's time, the trace records one - an older time could coincide with it and make the two disagree
                    # about "changed" for a reason that has nothing to do with the property)
                    if f in present and f not in ever_unopen and r.random() < 0.2 and mt[f][1] > 1:
                        when = max(1, mt[f][1] - r.randrange(1, 4))      # a backup restored over the file: an OLDER time
                    how = "text"
                    if not valid and when == clock and r.random() < 0.3:
                        how = "symlink"                                    # an entry that cannot be opened at all
                        unopen.add(f)
                        ever_unopen.add(f)
                    elif when == clock:
                        unopen.discard(f)
                    rm.write(f, content, valid, when, how=how)
                    present[f] = content
                    mt[f] = (valid, when)
                    gone.pop(f, None)
                    steps.append({"kind": "write", "f": f, "content": {nm: content.get(nm, "none") for nm in content},
                                  "valid": valid, "mtime": when})
                elif x < 0.6 and present and (not pending_removal or multi):
                    f = r.choice(sorted(present))
                    rm.remove(f)
                    unopen.discard(f)
                    gone[f] = (present[f], mt[f][0], mt[f][1])
                    del present[f]
                    pending_removal = True
                    steps.append({"kind": "remove", "f": f})
                else:
                    raised, store = rm.scan()
                    pending_removal = False
                    steps.append({"kind": "scan", "store": {kk: v for kk, v in store.items()}, "raised": bool(raised),
                                  "raised_text": raised})
            raised, store = rm.scan()
            steps.append({"kind": "scan", "store": store, "raised": bool(raised), "raised_text": raised})
        finally:
            rm.close()
        traces.append({"tid": "r%d" % k, "steps": steps})
    path = os.path.join(common.scratch(), "c18traces.json")
    json.dump(traces, open(path, "w"))
    cfg = tlc.write_cfg("TraceC18.cfg", "SPECIFICATION Spec\nCONSTANTS\n  DROP_STALE = TRUE\n  Files <- FilesABCD\n"
                        '  Names = {"p", "q", "r"}\n  Defs = {"d1", "d2", "d3"}\nCHECK_DEADLOCK FALSE\n')
    res = tlc.run("TraceC18", cfg, env={"TRACE_FILE": path})
    nsteps = sum(len(t["steps"]) for t in traces)
    if res.distinct != nsteps + len(traces):
        raise common.MachineryFailure("C18 trace validation consumed %d states, expected %d" % (res.distinct, nsteps + len(traces)))
    run.add_tlc(res, "TraceC18: %d traces, %d steps" % (len(traces), nsteps))
    run.traces += len(traces)
    by = {t["tid"]: t for t in traces}
    for v in res.tag("V"):
        t = by[v["tid"]]
        run.violation("C18_store" if not v["raised"] else "C18_scan_raises", {"names": sorted(v["names"])},
                      {"events": t["steps"][:v["i"]]})
    for d in res.tag("D"):
        run.note_drift({"what": ["store"], "names": d["names"]})
    for t in traces:
        run.case(("trace", t["tid"], len(t["steps"])))
    run.sample({"trace": traces[0]["steps"][:6]})


# ---------------------------------------------------------------- documents

SECTION_JSON = {
    "ok": {"SYMMETRIC_KEY": {"GET": "ALLOW_ALL", "DESTROY": "ALLOW_OWNER"}},
    "empty": {}, "list": ["x"], "string": "x", "number": 5, "null": None, "zero": 0, "false": False, "emptystr": "", "emptylist": [],
    "badtype": {"NOT_A_TYPE": {"GET": "ALLOW_ALL"}},
    "ops_list": {"SYMMETRIC_KEY": ["GET"]}, "ops_string": {"SYMMETRIC_KEY": "GET"},
    "badop": {"SYMMETRIC_KEY": {"NOPE": "ALLOW_ALL"}}, "badperm": {"SYMMETRIC_KEY": {"GET": "MAYBE"}},
    "perm_number": {"SYMMETRIC_KEY": {"GET": 5}},
    "ops_number": {"SYMMETRIC_KEY": 7}, "ops_null": {"SYMMETRIC_KEY": None},
    "perm_list": {"SYMMETRIC_KEY": {"GET": ["ALLOW_OWNER", "ALLOW_ALL"]}}, "perm_object": {"SYMMETRIC_KEY": {"GET": {"ALLOW_ALL": True}}},
    "perm_null": {"SYMMETRIC_KEY": {"GET": None}}, "perm_bool": {"SYMMETRIC_KEY": {"GET": True}},
}


def render_policy(p):
    sh = p["shape"]
    if sh == "sections":
        o = {}
        if p["preset"] != "absent":
            o["preset"] = SECTION_JSON[p["preset"]]
        g = p["groups"]
        if g == "ok":
            o["groups"] = {"g1": SECTION_JSON["ok"], "g2": SECTION_JSON["ok"]}
        elif g == "empty":
            o["groups"] = {}
        elif g == "list":
            o["groups"] = ["g1"]
        elif g == "string":
            o["groups"] = "g1"
        elif g in ("null", "zero", "false", "emptystr", "emptylist"):
            o["groups"] = SECTION_JSON[g]
        elif g == "group_section_bad":
            o["groups"] = {"g1": SECTION_JSON["badperm"]}
        return o
    if sh == "legacy":
        return SECTION_JSON[p["preset"]]
    return {"empty": {}, "list": ["x"], "string": "x", "number": 7,
            "unknown_section": {"presets": SECTION_JSON["ok"]},
            "mixed": {"preset": SECTION_JSON["ok"], "SYMMETRIC_KEY": {"GET": "ALLOW_ALL"}}}[sh]


def render_doc(d):
    top = d["top"]
    if top == "object":
        o = {"first": render_policy(d["first"])}
        if d["second"]["shape"] != "none":
            o["second"] = render_policy(d["second"])
        return json.dumps(o)
    return {"list": "[]", "string": '"x"', "number": "5", "badjson": "{ not json", "emptyfile": ""}[top]


def documents(run, quick):
    cfg = tlc.write_cfg("PolicyDoc.cfg", "SPECIFICATION Spec\nCONSTANT Second <- %s\nINVARIANT Emit\nCHECK_DEADLOCK FALSE\n"
                        % ("SecondQuick" if quick else "SecondAll"))
    res = tlc.run("PolicyDoc", cfg, workers=1)
    docs = res.tag("DOC")
    if len(docs) != res.distinct:
        raise common.MachineryFailure("PolicyDoc: %d documents printed for %d states" % (len(docs), res.distinct))
    run.add_tlc(res, "PolicyDoc: bounded document grammar")
    d = os.path.join(common.scratch(), "docs")
    os.makedirs(d, exist_ok=True)
    rm = RealMonitor("docs")
    try:
        rm.write("keep.json", {"keep": "d1"}, True, 50)
        raised, base = rm.scan()
        snap = rm.snapshot()
        nbad = 0
        for i, rec in enumerate(docs):
            text = render_doc(rec["doc"])
            path = os.path.join(d, "doc.json")
            open(path, "w").write(text)
            verdict, exc = "ok", ""
            try:
                core_policy.read_policy_from_file(path)
            except ValueError:
                verdict = "ValueError"
            except Exception as e:
                verdict, exc = "other", "%s: %s" % (type(e).__name__, e)
            run.case(("doc", verdict, rec["valid"], rec["doc"]["top"], rec["doc"]["first"]["shape"], rec["doc"]["first"]["preset"],
                      rec["doc"]["first"]["groups"], rec["doc"]["second"]["shape"]))
            want = "ok" if rec["valid"] else "ValueError"
            if verdict != want:
                nbad += 1
                run.violation("C18_document", {"top": rec["doc"]["top"], "first": rec["doc"]["first"], "second": rec["doc"]["second"]["shape"],
                                               "got": verdict, "want": want}, {"document": text, "exception": exc})
            # through a real scan: never raises, a rejected file leaves the loaded policies alone
            rm.restore(snap)
            rm.write_text("zz.json", text, 60 + i)
            raised, store = rm.scan()
            if raised or store.get("keep") != "d1" or store.get("default") != "builtin" or store.get("public") != "builtin" \
                    or (not rec["valid"] and store != base):
                run.violation("C18_scan_document", {"top": rec["doc"]["top"], "first": rec["doc"]["first"], "raised": raised.split(":")[0]},
                              {"document": text, "raised": raised, "store": store})
        run.traces += len(docs)
        run.extra["documents"] = len(docs)
        run.sample({"document": render_doc(docs[len(docs) // 2]["doc"]), "valid": docs[len(docs) // 2]["valid"]})
    finally:
        rm.close()


# ---------------------------------------------------------------- the whole system

SYS_DEFS = {"d1": {"preset": {"SYMMETRIC_KEY": {"GET": "ALLOW_ALL"}}},
            "d2": {"preset": {"SYMMETRIC_KEY": {"GET": "ALLOW_OWNER"}}}}


def _system_trace(args):
    """A real KmipServer with live policy monitoring (the monitor runs as its own process and scans once a second); policy
    files are written into its directory while it serves; the policies IN FORCE are observed from outside, through the access
    decisions of the running engine: for a key under policy n, (owner may Get, another client may Get) is (yes, yes) under
    the allow-all definition, (yes, no) under allow-owner, (no, no) when no policy of that name is in force."""
    import time
    from .. import sysdrv
    k, seed, nev, pki = args
    common.scratch()
    sysdrv.install_wrap_socket()
    from kmip.core import enums as kenums
    root = os.path.join(common.scratch(), "sys18_%d" % k)
    sysm = sysdrv.System(root, tls_client_auth=True, issue=lambda *a: None)
    txt = open(sysm.conf).read().replace(os.path.join(os.path.dirname(root), "pki"), pki)
    open(sysm.conf, "w").write(txt)
    sysm.pki = pki
    r = random.Random(seed)
    files, names = ["a.json", "b.json", "c.json"], ["p", "q", "default"]
    steps, present, clock = [], {}, int(time.time()) - 100000
    try:
        sysm.start()
        alice = sysm.client(os.path.join(pki, "alice.pem"), os.path.join(pki, "alice.key"))
        bob = sysm.client(os.path.join(pki, "bob.pem"), os.path.join(pki, "bob.key"))
        alice.open()
        bob.open()
        keys = {}
        for n in ("p", "q", "default", "public"):
            keys[n] = alice.create(kenums.CryptographicAlgorithm.AES, 128, operation_policy_name=n)

        def can(cl, uid):
            try:
                cl.get(uid)
                return True
            except Exception:
                return False

        def observe():
            out = {}
            for n, u in keys.items():
                a, b = can(alice, u), can(bob, u)
                if n in ("default", "public"):
                    # built-ins: 'default' lets the owner Get a symmetric key, 'public' speaks about templates only
                    out[n] = "builtin" if (a, b) == ((True, False) if n == "default" else (False, False)) else "?%s%s" % (a, b)
                elif (a, b) == (True, True):
                    out[n] = "d1"
                elif (a, b) == (True, False):
                    out[n] = "d2"
                elif (a, b) != (False, False):
                    out[n] = "?%s%s" % (a, b)
            return out

        def settle():
            t0 = time.time()
            time.sleep(1.4)
            last = observe()
            while time.time() - t0 < 15:
                time.sleep(0.7)
                cur = observe()
                if cur == last and time.time() - t0 >= 2.8:
                    return cur
                last = cur
            return last
        base = settle()
        steps.append({"kind": "scan", "store": base, "raised": False})
        for i in range(nev):
            x = r.random()
            if x < 0.7 or not present:
                f = r.choice(files)
                content = {nm: r.choice(["d1", "d2"]) for nm in names if r.random() < (0.6 if nm != "default" else 0.15)}
                valid = r.random() < 0.85
                if not valid and f in present:
                    content = present[f]
                clock += 2
                path = os.path.join(sysm.policy_dir, f)
                tmp = path + ".tmp~"
                with open(tmp, "w") as fh:
                    if valid:
                        json.dump({n: SYS_DEFS[d] for n, d in sorted(content.items())}, fh, sort_keys=True)
                    else:
                        fh.write("{ this is not a policy document")
                os.utime(tmp, (clock, clock))
                os.replace(tmp, path)
                present[f] = content
                steps.append({"kind": "write", "f": f, "content": dict(content), "valid": valid, "mtime": clock})
            else:
                f = r.choice(sorted(present))
                os.unlink(os.path.join(sysm.policy_dir, f))
                del present[f]
                steps.append({"kind": "remove", "f": f})
            steps.append({"kind": "scan", "store": settle(), "raised": False})
        alice.close()
        bob.close()
        alive = sysm.proc is not None and sysm.proc.is_alive()
    finally:
        sysm.stop()
        shutil.rmtree(root, ignore_errors=True)
    return {"tid": "sys%d" % k, "steps": steps, "alive": alive}


def system_traces(run, quick):
    """Leg D: the monitor as it runs in production - its own process, scanning once a second, publishing into the dictionary
    the engine reads - observed end to end and validated by the same TraceC18.tla."""
    import concurrent.futures
    from .. import sysdrv
    pki = os.path.join(common.scratch(), "pki18")
    issue = sysdrv.make_pki(pki)
    issue("alice", ["alice"], "client")
    issue("bob", ["bob"], "client")
    n, nev = (6, 5) if quick else (16, 12)
    with concurrent.futures.ProcessPoolExecutor(max_workers=min(common.NCPU, 8)) as pool:
        traces = list(pool.map(_system_trace, [(k, common.SEED * 131 + k, nev, pki) for k in range(n)]))
    path = os.path.join(common.scratch(), "c18sys.json")
    json.dump(traces, open(path, "w"))
    cfg = tlc.write_cfg("TraceC18sys.cfg", "SPECIFICATION Spec\nCONSTANTS\n  DROP_STALE = TRUE\n  Files <- FilesABCD\n"
                        '  Names = {"p", "q", "r"}\n  Defs = {"d1", "d2", "d3"}\nCHECK_DEADLOCK FALSE\n')
    res = tlc.run("TraceC18", cfg, env={"TRACE_FILE": path})
    run.add_tlc(res, "TraceC18 (whole system): %d traces" % len(traces))
    by = {t["tid"]: t for t in traces}
    for v in res.tag("V"):
        t = by[v["tid"]]
        run.violation("C18_store", {"names": sorted(v["names"]), "level": "system"},
                      {"events": t["steps"][:v["i"]], "note": "policies in force observed through Get by the owner and by another client"})
    for d in res.tag("D"):
        run.note_drift({"what": ["store (system)"], "names": d["names"]})
    for t in traces:
        if not t["alive"]:
            run.violation("C18_scan_raises", {"level": "system"}, {"events": t["steps"], "note": "the server process died"})
        run.case(("system-trace", t["tid"], len(t["steps"])))
    run.traces += len(traces)
    run.extra["system_traces"] = {"servers": len(traces), "file_events_each": nev}


def check(run, tier):
    quick = tier == "quick"
    run.rule = ("leg A: TLC, MC_C18: all sequences of file events (write any content over 2 names + reserved 'default' x 2 "
                "definitions, break, remove) with a scan after every event (quick: 2 files, 5 events; thorough: 3 files, 5 events "
                "and 2 files with scans after up to 2 events), invariant C18 (store = definition of the most recently loaded "
                "file still defining the name) with the ghost of successfully loaded contents; leg B: every transition of a "
                "smaller graph executed on a real PolicyDirectoryMonitor over a real directory (restoring the real snapshot of "
                "the source state); leg C: random long event sequences on 4 files x 3 names x 3 definitions validated by "
                "TraceC18.tla; PolicyDoc.tla enumerates the document grammar (valid shapes and one defect per position), each "
                "document is fed to the real parser and to a real scan. distinct = distinct stores observed after scans + "
                "document classes.")
    res = tlc.run("MC_C18", cfg18("MC_C18_a.cfg", True, "FilesAB", '{"p", "q"}', '{"d1", "d2"}', 5, 1), allow_violation=True)
    run.add_tlc(res, "MC_C18 files=2 events=5 pending=1")
    if res.violated:
        raise common.MachineryFailure("leg A: the monitor specification violates %s" % res.violated)
    if not quick:
        for (fs, ev, pd) in (("FilesABC", 5, 1), ("FilesAB", 5, 2)):
            res = tlc.run("MC_C18", cfg18("MC_C18_b.cfg", True, fs, '{"p", "q"}', '{"d1", "d2"}', ev, pd),
                          allow_violation=True, timeout=3000, heap="20g")
            run.add_tlc(res, "MC_C18 %s events=%d pending=%d" % (fs, ev, pd))
            if res.violated:
                raise common.MachineryFailure("leg A: the monitor specification violates %s" % res.violated)
    run.extra["edge_graphs"] = []
    # (events, scans after up to `pending` events, definitions): the second graph lets two events happen between scans
    for (ev, pd, dfs) in ([(4, 1, '{"d1", "d2"}'), (4, 2, '{"d1"}')] if quick else [(5, 1, '{"d1", "d2"}'), (4, 2, '{"d1", "d2"}'), (5, 2, '{"d1"}')]):
        res = tlc.run("MC_C18", cfg18("MC_C18_e.cfg", True, "FilesAB", '{"p"}', dfs, ev, pd, emit=True, inv=True),
                      workers=1, timeout=1800, allow_violation=True)
        run.add_tlc(res, "MC_C18 edge graph events=%d pending=%d (invariant checked)" % (ev, pd))
        if res.violated:
            raise common.MachineryFailure("leg A: the monitor specification violates %s" % res.violated)
        edges = res.tag("E")
        if len(edges) + 1 != res.generated:
            raise common.MachineryFailure("C18 edge emission: %d edges for %d transitions" % (len(edges), res.generated))
        run.extra["edge_graphs"].append({"events": ev, "pending": pd, "definitions": dfs, "edges": len(edges), "states": res.distinct})
        replay_edges(run, edges)
    random_traces(run, 40 if quick else 400, 60 if quick else 120, common.SEED)
    documents(run, quick)
    system_traces(run, quick)
