"""C04 - object lifecycle is monotone and gates every cryptographic use."""
from .. import common, engcheck as E

ONLY = {"C04"}
CHECKED = "CheckedC04"


def check(run, tier):
    quick = tier == "quick"
    run.rule = ("leg A: TLC, all histories of MC_C04 (creation with 4 masks / 5 registered types, Activate, Revoke x3 codes, "
                "Destroy, 5 cryptographic uses, wrapping-key use) to the stated depth; leg B: every explored model "
                "transition executed on the real engine from the matching real state; leg C: seeded random histories; "
                "all real steps validated by TraceEngine.tla. distinct = distinct (operation, object type, state before, "
                "status, reason) tuples observed on the real engine.")
    # unbounded: tlaps/LifecycleProof.tla proves Lifecycle!Safety (over a history of any length an object is never again in a
    # state it has left); MC_C04 ASSUMEs (TLC evaluates it) that Lifecycle's step relation is the relation of clause C04_moves
    from .. import tlc
    nob = tlc.tlaps("LifecycleProof", deps=("Lifecycle",))
    run.extra["tlaps_proof"] = {"module": "spec/tlaps/LifecycleProof.tla", "theorem": "Lifecycle!Safety == Spec => []NeverReturns",
                                "obligations_proved": nob}
    run.extra["obligations"] = nob
    run.extra["discharged"] = nob
    # leg A
    E.model_check(run, "MC_C04", "MenuC04", CHECKED, 4 if quick else 5, 2)
    # leg B
    edges = E.emit_edges(run, "MC_C04", "MenuC04", 3 if quick else 4, 2)
    traces = E.replay_edges(run, edges)
    # leg C
    n, m = (48, 40) if quick else (400, 60)
    w = {"Activate": 3, "Revoke": 3, "Destroy": 2, "Encrypt": 2, "Decrypt": 1, "Sign": 1.5, "SignatureVerify": 1,
         "MAC": 2, "Get": 2, "DeriveKey": 1.5, "Locate": 0.3, "Attr": 0.5, "Query": 0.1, "DiscoverVersions": 0.1}
    traces += E.random_histories(run, n, m, common.SEED, genkw={"weights": w, "users": ("alice",)})
    # text that is the identifier of no object although a lenient store would read it as one ('01', ' 1', '1.0' ...)
    traces += E.alias_identifier_traces(quick, prefix="c04alias")
    E.judge(run, traces, only=ONLY, name="c04")
    E.summarise(run, traces)
