"""C11 - requests are isolated from each other's transient state."""
import multiprocessing
import os
import shutil

from .. import common, engcheck as E, engdrv as D, engtrace as T, enggen as G

ONLY = {"C11"}


def _mask_new(st, pre_uids):
    out = []
    for o in st["objs"]:
        o = dict(o)
        if o["uid"] not in pre_uids:
            o["val"] = "*"
        out.append(o)
    return {"objs": out, "seq": st["seq"]}


def _diff_history(args):
    """Every request of the history is a probe: its response (and effect) on the engine that
    served the history must equal its response on a fresh engine opened on a copy of the
    database taken just before the request."""
    tid, seed, nreq, genkw, pols = args
    common.scratch()
    D.CLOCK.now = 1000000 + (seed % 1000) * 1000
    intern = E.new_interner()
    drv = D.EngineDriver(policies=pols, intern=intern)
    mism = []
    probes = 0
    try:
        rec = T.Recorder(drv, tid)
        gen = G.Gen(seed, **genkw)
        for i in range(nreq):
            D.CLOCK.now += gen.r.choice([0, 1, 1, 2])
            req = gen.request(0.2)
            # identifier-less and version-sensitive probes are what carry-over would disturb
            if gen.r.random() < 0.35:
                op = gen.r.choice(["Get", "GetAttributes", "GetAttributeList", "Activate", "Destroy", "Revoke",
                                   "Encrypt", "MAC", "ModifyAttribute", "DeleteAttribute"])
                p = {"uid": 0}
                if op == "Revoke":
                    p["code"] = "KEY_COMPROMISE"
                if op == "Encrypt":
                    p.update(cp={"alg": "AES", "mode": "CBC", "pad": "PKCS5"}, data="00" * 16, iv="00" * 16)
                if op == "MAC":
                    p.update(cp={"alg": "HMAC_SHA256"}, data="0011")
                if op == "ModifyAttribute":
                    p = ({"uid": 0, "cur": None, "new": {"name": "Sensitive", "v": True}} if tuple(req["ver"]) >= (2, 0)
                         else {"uid": 0, "attr": {"name": "Name", "idx": 0, "v": "zz"}})
                if op == "DeleteAttribute":
                    p = ({"uid": 0, "cur": None, "ref": "Name"} if tuple(req["ver"]) >= (2, 0)
                         else {"uid": 0, "name": "Name", "idx": 0})
                req["items"] = [{"op": op, "bid": "", "p": p}]
            snap = drv.db + ".pre"
            drv.snapshot(snap)
            now = D.CLOCK.now
            pre = drv.state()
            res = rec.request(req)
            if res.get("kind") == "unsendable":
                continue
            post = drv.state()
            gen.observe(res, post)
            # the same request on a fresh engine over the copy
            fresh = D.EngineDriver(policies=pols, intern=intern, db=snap)
            try:
                D.CLOCK.now = now
                res2 = fresh.request(req)
                post2 = fresh.state()
            finally:
                fresh.close()
            probes += 1
            pre_uids = set(o["uid"] for o in pre["objs"])
            a = T.norm_res(res, rec.nf)
            b = T.norm_res(res2, rec.nf)
            sa = _mask_new(T.norm_state(post), pre_uids)
            sb = _mask_new(T.norm_state(post2), pre_uids)
            if a != b or sa != sb:
                mism.append({"i": i + 1, "requests": rec.raw[:], "used": a, "fresh": b,
                             "store_differs": sa != sb})
            if gen.r.random() < 0.03:
                rec.restart()
        rec.close()
        tr = rec.trace()
        tr["raw"] = rec.raw
        return tr, mism, probes
    finally:
        drv.close()


def _conn_history(args):
    """The same differential one level up: requests travel over PERSISTENT connections (one KmipSession per client, kept for
    the whole history).  Each request's answer on the used connection must equal its answer on a fresh connection to a fresh
    engine opened on a copy of the database taken just before it.  Requests carry header options a session might remember:
    a maximum response size, different protocol versions, credentials."""
    tid, seed, nreq = args
    common.scratch()
    D.CLOCK.now = 1500000 + (seed % 1000) * 1000
    intern = E.new_interner()
    drv = D.SessionDriver(intern=intern)
    mism, probes = [], 0
    try:
        gen = G.Gen(seed, users=("alice", "bob"), versions=G.VERSIONS,
                    weights={"Query": 3, "DiscoverVersions": 2, "Create": 2, "Register": 2, "Get": 3, "GetAttributes": 3,
                             "GetAttributeList": 2, "Locate": 2, "Activate": 1, "Attr": 1})
        raw = []
        for i in range(nreq):
            D.CLOCK.now += gen.r.choice([0, 1, 2])
            req = gen.request(0.15)
            x = gen.r.random()
            if x < 0.3:
                req["maxsize"] = gen.r.choice([8, 64, 256, 4096, 100000])
            if gen.r.random() < 0.2:
                req["cred"] = (req["user"], "pw-%d" % i)
            snap = drv.db + ".pre"
            drv.snapshot(snap)
            now = D.CLOCK.now
            res = drv.request(req)
            raw.append(req)
            if res.get("kind") == "unsendable":
                continue
            gen.observe(res, drv.state())
            fresh = D.SessionDriver(intern=intern, db=snap)
            try:
                D.CLOCK.now = now
                res2 = fresh.request(req)
            finally:
                fresh.close()
            probes += 1
            nf = T.NotFoundTemplate("Could not locate object: %d" % T.PROBE_UID)
            a, b = T.norm_res(res, nf), T.norm_res(res2, nf)
            if a != b:
                mism.append({"i": i + 1, "requests": raw[-6:], "used_connection": a, "fresh_connection": b})
        return mism, probes
    finally:
        drv.close()


def check(run, tier):
    quick = tier == "quick"
    run.rule = ("leg A: TLC, MC_C08 histories with the clause C11_placeholder (an identifier-less first item never succeeds) and "
                "the request step function RunRequest, which by construction reads only (store, request); leg C: seeded "
                "multi-client, multi-version histories in which EVERY request is a probe: its response and effect on the used "
                "engine are compared with a fresh engine on a copy of the database taken just before it; all steps also "
                "validated by TraceEngine.tla. distinct = distinct (operation, version, identity kind, status, reason) probes.")
    E.model_check(run, "MC_C08", "MenuC08", "CheckedC08", 2 if quick else 3, 3)
    pols = D.builtin_policies() + G.extra_policies()
    idents = [("alice", None), ("bob", None), ("bob", ["gA"]), ("carol", ["gA", "gB"]), ("carol", [])]
    w = {"Create": 3, "Register": 3, "CreateKeyPair": 1, "GetAttributeList": 3, "GetAttributes": 3, "Get": 2, "Attr": 3,
         "Locate": 2, "Activate": 2, "Destroy": 1, "Query": 1, "DiscoverVersions": 1}
    n, m = (96, 40) if quick else (400, 60)
    genkw = {"weights": w, "idents": idents, "versions": G.VERSIONS + [(3, 0)],
             "policies": ["default", "open", "grouped", "groupsonly", "partial"]}
    E.rsa_pair()
    tasks = [("d%d" % i, common.SEED * 100003 + i, m, genkw, pols) for i in range(n)]
    with multiprocessing.Pool(common.NCPU) as pool:
        out = pool.map(_diff_history, tasks, chunksize=1)
    traces = [o[0] for o in out]
    nprobe = sum(o[2] for o in out)
    run.extra["differential_probes"] = nprobe
    for tr, mism, _ in out:
        for mm in mism:
            req = mm["requests"][-1]
            it = req["items"][0]
            run.violation("C11_differential",
                          {"op": it["op"], "idless": not it["p"].get("uid"), "ver": req["ver"][0] * 10 + req["ver"][1],
                           "used_status": [x["status"] for x in mm["used"]["items"]] or mm["used"]["kind"],
                           "fresh_status": [x["status"] for x in mm["fresh"]["items"]] or mm["fresh"]["kind"]},
                          mm)
    # one level up: persistent connections
    from .. import sessdrv as S
    for u in ("alice", "bob"):
        S.make_cert(1, "client", cn=u)
    nc, mc = (32, 30) if quick else (200, 60)
    with multiprocessing.Pool(common.NCPU) as pool:
        cout = pool.map(_conn_history, [("k%d" % i, common.SEED * 7001 + i, mc) for i in range(nc)], chunksize=1)
    run.extra["connection_differential_probes"] = sum(o[1] for o in cout)
    run.traces += nc
    for mism, _ in cout:
        for mm in mism:
            req = mm["requests"][-1]
            run.violation("C11_connection_differential",
                          {"ops": [it["op"] for it in req["items"]][:3], "ver": req["ver"][0] * 10 + req["ver"][1],
                           "used": mm["used_connection"].get("reason") or [x["status"] for x in mm["used_connection"]["items"]],
                           "fresh": mm["fresh_connection"].get("reason") or [x["status"] for x in mm["fresh_connection"]["items"]]}, mm)
    E.judge(run, traces, only=ONLY, name="c11")
    E.summarise(run, traces)
    for t in traces:
        for s in t["steps"]:
            if s.get("kind") == "req":
                it = s["req"]["items"][0]
                r = s["res"]["items"][0] if s["res"]["items"] else {"status": s["res"]["kind"], "reason": s["res"]["reason"]}
                run.case(("probe", it["op"], s["req"]["ver"], s["req"]["hasg"], it["p"].get("uid") == 0, r["status"], r["reason"]))
