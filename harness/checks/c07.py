"""C07 - unique identifiers are never reused; a destroyed identifier stays dead."""
from .. import common, engcheck as E

ONLY = {"C07"}


def check(run, tier):
    quick = tier == "quick"
    run.rule = ("leg A: TLC, all histories of MC_C07 (Create, Register x2, CreateKeyPair, Destroy by two users, reads of live / "
                "dead / unused identifiers, Locate, restarts) to the stated depth and identifier bound; leg B: every model "
                "transition executed on the real engine (restarts are real engine restarts on the same file); leg C: seeded "
                "random multi-client histories with restarts, validated by TraceEngine.tla with the ghost sets issued/dead. "
                "distinct = distinct (operation, object type, state, status, reason) tuples on the real engine.")
    E.model_check(run, "MC_C07", "MenuC07", "CheckedC07", 5 if quick else 6, 4 if quick else 5)
    edges = E.emit_edges(run, "MC_C07", "MenuC07", 4 if quick else 5, 4)
    traces = E.replay_edges(run, edges)
    n, m = (48, 50) if quick else (400, 80)
    w = {"Create": 3, "Register": 3, "CreateKeyPair": 1.5, "Destroy": 5, "DeriveKey": 1.5, "Locate": 2, "Get": 2,
         "GetAttributes": 2, "Revoke": 1.5, "Attr": 0.5, "Encrypt": 0.3, "Decrypt": 0.2, "Sign": 0.3,
         "SignatureVerify": 0.2, "MAC": 0.3, "Query": 0.1, "DiscoverVersions": 0.1}
    traces += E.random_histories(run, n, m, common.SEED, genkw={"weights": w, "users": ("alice", "bob")},
                                 restarts=0.1)
    E.judge(run, traces, only=ONLY, name="c07")
    E.summarise(run, traces)
    run.assumptions.append("process death during creation is covered by C09 (fork/kill); here restarts are clean")
