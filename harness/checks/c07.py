"""C07 - unique identifiers are never reused; a destroyed identifier stays dead."""
from .. import common, tlc, engcheck as E

ONLY = {"C07"}


def unbounded_allocator(run):
    """The allocator without bounds: Apalache checks IndInv of spec/apalache/UidAlloc.tla as an inductive invariant (base case
    from Init, step from an arbitrary state satisfying IndInv), so 'no identifier is handed out twice' holds for any number of
    objects and any history of creates, destroys, restarts and crashes in creation; negative control: without AUTOINCREMENT
    (next = largest live + 1) the step fails."""
    base, t1 = tlc.apalache("UidAlloc", {"AUTOINC": "TRUE"}, "Init", "IndInv", 0)
    step, t2 = tlc.apalache("UidAlloc", {"AUTOINC": "TRUE"}, "IndInit", "IndInv", 1)
    neg, t3 = tlc.apalache("UidAlloc", {"AUTOINC": "FALSE"}, "IndInit", "IndInv", 1)
    if base != "NoError" or step != "NoError":
        raise common.MachineryFailure("UidAlloc.tla: the inductive invariant does not hold (base %s, step %s)" % (base, step))
    if neg != "Error":
        raise common.MachineryFailure("UidAlloc.tla: the negative control (no AUTOINCREMENT) is not refuted")
    nob = tlc.tlaps("UidAllocProof")
    run.extra["tlaps_proof"] = {"module": "spec/tlaps/UidAllocProof.tla", "theorem": "Spec => []NeverReused", "obligations_proved": nob}
    run.extra["obligations"] = nob
    run.extra["discharged"] = nob
    run.extra["checker_cmd"] = "tlapm --cleanfp UidAllocProof.tla (spec/tlaps)"
    run.extra["apalache_inductive_invariant"] = {"module": "spec/apalache/UidAlloc.tla", "base_case": base, "inductive_step": step,
                                                 "negative_control_without_autoincrement": neg, "seconds": [t1, t2, t3]}


def check(run, tier):
    quick = tier == "quick"
    run.rule = ("leg A00: TLAPS proves Spec => []NeverReused for the allocator (UidAllocProof.tla, no bound); leg A0: Apalache, unbounded: IndInv of UidAlloc.tla (high-water mark >= every identifier ever issued, never "
                "reused) as an inductive invariant, with the no-AUTOINCREMENT negative control; leg A: TLC, all histories of MC_C07 (Create, Register x2, CreateKeyPair, Destroy by two users, reads of live / "
                "dead / unused identifiers, Locate, restarts) to the stated depth and identifier bound; leg B: every model "
                "transition executed on the real engine (restarts are real engine restarts on the same file); leg C: seeded "
                "random multi-client histories with restarts, validated by TraceEngine.tla with the ghost sets issued/dead. "
                "distinct = distinct (operation, object type, state, status, reason) tuples on the real engine.")
    unbounded_allocator(run)
    E.model_check(run, "MC_C07", "MenuC07", "CheckedC07", 5 if quick else 6, 4 if quick else 5)
    edges = E.emit_edges(run, "MC_C07", "MenuC07", 4 if quick else 5, 4)
    traces = E.replay_edges(run, edges)
    n, m = (48, 50) if quick else (400, 80)
    w = {"Create": 3, "Register": 3, "CreateKeyPair": 1.5, "Destroy": 5, "DeriveKey": 1.5, "Locate": 2, "Get": 2,
         "GetAttributes": 2, "Revoke": 1.5, "Attr": 0.5, "Encrypt": 0.3, "Decrypt": 0.2, "Sign": 0.3,
         "SignatureVerify": 0.2, "MAC": 0.3, "Query": 0.1, "DiscoverVersions": 0.1}
    traces += E.random_histories(run, n, m, common.SEED, genkw={"weights": w, "users": ("alice", "bob")},
                                 restarts=0.1)
    # text that is the identifier of no object although a lenient store would read it as one ('01', ' 1', '1.0' ...)
    traces += E.alias_identifier_traces(quick, prefix="c07alias")
    E.judge(run, traces, only=ONLY, name="c07")
    E.summarise(run, traces)
    run.assumptions.append("process death during creation is covered by C09 (fork/kill); here restarts are clean")
