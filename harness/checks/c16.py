"""C16 - protocol version is honoured: echo, refusal, feature gating."""
from .. import common, engcheck as E, enggen as G, engdrv as D

ONLY = {"C16"}


def check(run, tier):
    quick = tier == "quick"
    run.rule = ("leg A: TLC, MC_C16: the matrix versions {1.0..2.0 and 0.9, 1.5, 2.1, 3.0} x operations x version-dependent "
                "attributes (Sensitive added in 1.4, Operation Policy Name removed in 2.0, Certificate Length / Fresh added in 1.1, "
                "Certificate Identifier deprecated in 1.1) in creation templates, GetAttributes, GetAttributeList, Locate, "
                "Set/ModifyAttribute, plus Query and DiscoverVersions (empty / mixed / ascending lists), enumerated completely; "
                "leg B: one real request per cell; leg C: random histories over all versions incl. unsupported ones; every step "
                "validated by TraceEngine.tla (C16_echo, C16_refuse, C16_op, C16_avail, C16_attrs, C16_create, C16_query, "
                "C16_discover); every version DiscoverVersions lists is then used. "
                "distinct = distinct (operation, version, status, reason) tuples on the real engine.")
    kw = dict(mkreq="Mk", view="ProbeView", restarts=False)
    E.model_check(run, "MC_C16", "MenuC16", "CheckedC16", 7, 4, **kw)
    edges = E.emit_edges(run, "MC_C16", "MenuC16", 7, 4, **kw)
    run.extra["matrix_cells"] = len(edges)
    traces = E.replay_edges(run, edges)
    n, m = (64, 50) if quick else (320, 80)
    traces += E.random_histories(run, n, m, common.SEED, genkw={
        "users": ("alice", "bob"), "versions": G.VERSIONS + G.BADVERSIONS,
        "weights": {"Query": 3, "DiscoverVersions": 3, "GetAttributes": 3, "GetAttributeList": 3, "Attr": 2}})
    traces += over_connections(run, quick)
    E.judge(run, traces, only=ONLY, name="c16")
    E.summarise(run, traces)
    listed_versions_accepted(run)
    wire_gating(run)
    for t in traces:
        for s in t["steps"]:
            if s.get("kind") == "req":
                for k, it in enumerate(s["req"]["items"]):
                    r = s["res"]["items"][k] if k < len(s["res"]["items"]) else {"status": s["res"]["kind"], "reason": s["res"]["reason"]}
                    run.case(("cell", it["op"], s["req"]["ver"], r["status"], r["reason"]))


def _conn_history(args):
    """Requests over persistent connections (real KmipSession per client): what comes back is what the client receives, so
    the version stated by the answer to a request the server refuses AS A WHOLE (stale or future time stamp, asynchronous
    indicator, Undo, a batch without item identifiers, an unsupported version) is the session's doing."""
    from .. import engtrace as T
    tid, seed, nreq = args
    common.scratch()
    D.CLOCK.now = 3500000 + (seed % 1000) * 1000
    drv = D.SessionDriver(intern=E.new_interner())
    try:
        rec = T.Recorder(drv, tid)
        # (supported versions only: over the wire an unknown version already fails in the decoder, which the session answers
        # as an undecodable request - C12 / C02 own that path)
        gen = G.Gen(seed, users=("alice", "bob"), versions=G.VERSIONS,
                    weights={"Query": 3, "DiscoverVersions": 3, "GetAttributes": 2, "Create": 2, "Get": 2, "Locate": 1})
        for i in range(nreq):
            D.CLOCK.now += gen.r.choice([0, 1, 2])
            req = gen.request(0.4)
            x = gen.r.random()
            if x < 0.12:
                req["ts"] = gen.r.choice([-100, -61, 50, 3600])
            elif x < 0.2:
                req["async"] = True
            elif x < 0.28:
                req["opt"] = "Undo"
            elif x < 0.36 and len(req["items"]) > 1:
                req["items"][-1]["bid"] = ""
            res = rec.request(req)
            gen.observe(res, drv.state())
        rec.close()
        tr = rec.trace()
        tr["raw"] = rec.raw
        return tr
    finally:
        drv.close()


def over_connections(run, quick):
    import multiprocessing
    from .. import sessdrv as S
    for u in ("alice", "bob"):
        S.make_cert(1, "client", cn=u)
    E.rsa_pair()
    n, m = (32, 40) if quick else (200, 60)
    with multiprocessing.Pool(common.NCPU) as pool:
        out = pool.map(_conn_history, [("v%d" % i, common.SEED * 613 + i, m) for i in range(n)])
    run.extra["connection_histories"] = {"histories": n, "requests_each": m}
    return out


def wire_gating(run):
    """Message fields: for every field the wire schema (KmipSchema.tla, exported by TLC) introduces after KMIP 1.0 and every
    earlier version under which its class exists - (sent) the library object with that field set, encoded under the earlier
    version, must not carry the field (omitting it or refusing to encode are both fine); (accepted) bytes that carry the field,
    produced under the introducing version, must not be accepted by the decoder under the earlier version."""
    import random
    from .. import schemabind as B, schemagen as SG
    from . import c01
    B.export()
    S = B.S()
    sc = S["schema"]
    g = SG.Gen(random.Random(common.SEED + 16))
    ncell = 0
    for cls, fs in sorted(sc.items()):
        vers = SG.versions_of(cls)
        for f in fs:
            lo = f["lo"]
            if lo <= 10:
                continue
            tagnum = S["tag"].get(f["t"])
            for v in vers:
                if v >= lo:
                    continue
                ncell += 1
                sig = {"cls": cls, "field": f["n"], "ver": v}
                try:
                    val = g.obj(cls, v, present=set())
                    val[f["n"]] = g.field(cls, f, lo, 0)
                    obj = B.construct(cls, val)
                    data = B.encode(obj, v)
                except Exception:
                    data = None
                if data is not None:
                    root = c01.parse_items(data, 0, len(data))
                    kids = [k[0] for k in root[0][2]] if root and root[0][1] == 1 else []
                    run.case(("field-sent", cls, f["n"], v, tagnum in kids))
                    if tagnum in kids:
                        run.violation("C16_field_sent_early", sig, {"class": cls, "field": f["n"], "introduced_in": lo, "encoded_under": v,
                                                                     "bytes": data.hex()[:400]})
                if lo in vers:
                    try:
                        val = g.obj(cls, lo, present=set())
                        val[f["n"]] = g.field(cls, f, lo, 0)
                        obj = B.construct(cls, val)
                        late = B.encode(obj, lo)
                    except Exception:
                        late = None
                    if late is not None:
                        try:
                            B.decode(obj, late, v)
                            accepted = True
                        except Exception:
                            accepted = False
                        run.case(("field-accepted", cls, f["n"], v, accepted))
                        if accepted:
                            run.violation("C16_field_accepted_early", sig, {"class": cls, "field": f["n"], "introduced_in": lo,
                                                                             "decoded_under": v, "bytes": late.hex()[:400]})
    run.extra["version_gated_field_cells"] = ncell
    run.traces += ncell


def listed_versions_accepted(run):
    """(d) every version DiscoverVersions lists is accepted when used; (e) every operation Query
    advertises under a version is not refused as unsupported under it."""
    drv = D.EngineDriver(intern=E.new_interner())
    try:
        r = drv.request(D.one("DiscoverVersions", {"versions": []}, ver=(1, 2)))
        vs = r["items"][0]["pl"]["versions"] if r.get("items") and r["items"][0]["status"] == "Success" else []
        if not vs:
            run.violation("C16_discover", {"op": "DiscoverVersions", "what": "no versions listed"}, {"response": r})
        for v in vs:
            q = drv.request(D.one("Query", {}, ver=tuple(v)))
            ok = q.get("kind") == "resp" and q["items"] and q["items"][0]["status"] == "Success" and q["ver"] == list(v)
            run.case(("listed-version-used", tuple(v), ok))
            if not ok:
                run.violation("C16_listed_version_refused", {"ver": v[0] * 10 + v[1]}, {"version": v, "response": q})
                continue
            for op in q["items"][0]["pl"]["ops"]:
                p = {"uid": 424242}
                if op == "Create":
                    p = {"otype": "SymmetricKey", "attrs": []}
                elif op == "CreateKeyPair":
                    p = {"common": [], "priv": [], "pub": []}
                elif op == "Register":
                    p = {"otype": "SecretData", "attrs": [], "obj": {"type": "SecretData", "val": "pw"}}
                elif op == "DeriveKey":
                    p = {"otype": "SymmetricKey", "uids": [424242], "attrs": []}
                elif op == "Locate":
                    p = {"filters": []}
                elif op in ("Query", "DiscoverVersions"):
                    p = {}
                elif op == "Revoke":
                    p = {"uid": 424242, "code": "KEY_COMPROMISE"}
                elif op in ("Encrypt", "Decrypt", "Sign", "SignatureVerify", "MAC"):
                    p = {"uid": 424242, "cp": {"alg": "AES", "mode": "CBC"}, "data": "00"}
                a = drv.request(D.one(op, p, ver=tuple(v)))
                it = a["items"][0] if a.get("items") else {"reason": a.get("reason"), "msg": a.get("msg", "")}
                bad = it.get("reason") == "OperationNotSupported"
                run.case(("advertised-op-used", op, tuple(v), it.get("reason")))
                if bad:
                    run.violation("C16_advertised_unavailable", {"op": op, "ver": v[0] * 10 + v[1]},
                                  {"version": v, "operation": op, "response": it})
        run.traces += 1
    finally:
        drv.close()
