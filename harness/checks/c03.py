"""C03 - nothing happens to an object without a policy grant."""
from .. import common, tlc, engcheck as E, enggen as G, engdrv as D

ONLY = {"C03"}


def lemma(run):
    """ImplAllowed => Granted over the full finite product (MC_Policy)."""
    cfg = tlc.write_cfg("MC_Policy.cfg", "SPECIFICATION Spec\nINVARIANT Lemma\nINVARIANT Witness\nCHECK_DEADLOCK FALSE\n")
    res = tlc.run("MC_Policy", cfg, allow_violation=True)
    run.add_tlc(res, "MC_Policy: ImplAllowed => Granted, full product")
    if res.violated:
        raise common.MachineryFailure("decision lemma ImplAllowed => Granted fails on the specification: %s" % res.violated)
    # the same lemma for ALL policies, identities and operations: machine-checked proof (TLAPS)
    nob = tlc.tlaps("PolicyLemmaProof", deps=("KmipPolicy",))
    run.extra["tlaps_proof"] = {"module": "spec/tlaps/PolicyLemmaProof.tla", "theorem": "ImplAllowed => Granted (unbounded)",
                                "obligations_proved": nob}
    run.extra["obligations"] = nob
    run.extra["discharged"] = nob
    run.extra["checker_cmd"] = "tlapm --cleanfp PolicyLemmaProof.tla (spec/tlaps, with KmipPolicy.tla)"


def check(run, tier):
    quick = tier == "quick"
    run.rule = ("leg A: decision lemma ImplAllowed => Granted over the full product of permissions x section presence x identity "
                "groups x ownership (MC_Policy); all histories of MC_C03 (5 identities, 5 policies + a missing one, 3 types, "
                "direct and indirect reach); leg B: every model transition on the real engine with the same policies; leg C: "
                "random multi-client histories under built-in and user policies; every real step validated by TraceEngine.tla "
                "(C03_effect, C03_denial, C03_owner). distinct = distinct (operation, object type, state, status, reason).")
    lemma(run)
    pols = D.builtin_policies() + [p for p in G.extra_policies() if p["name"] in ("open", "grouped", "partial")]
    # the model's policies: same definitions as PolsC03 (restricted to the three types / the listed operations)
    mpols = D.builtin_policies() + model_pols()
    E.model_check(run, "MC_C03", "MenuC03", "CheckedC03", 3 if quick else 4, 2, pols="PolsC03")
    edges = E.emit_edges(run, "MC_C03", "MenuC03", 2 if quick else 3, 2, pols="PolsC03")
    traces = E.replay_edges(run, edges, pols=mpols)
    n, m = (64, 50) if quick else (480, 80)
    idents = [("alice", None), ("bob", None), ("bob", ["gA"]), ("carol", ["gA", "gB"]), ("carol", []), ("dave", ["gC"]),
              ("erin", [""]), ("erin", ["", "gB"])]
    allp = D.builtin_policies() + G.extra_policies()
    w = {"Get": 4, "GetAttributes": 4, "GetAttributeList": 2, "Locate": 4, "Activate": 2, "Revoke": 2, "Destroy": 2,
         "Attr": 3, "Encrypt": 1, "MAC": 1, "DeriveKey": 1.5, "Create": 3, "Register": 3, "CreateKeyPair": 0.7}
    traces += E.random_histories(run, n, m, common.SEED, pols=allp, genkw={
        "weights": w, "idents": idents,
        "policies": ["default", "public", "open", "closed", "grouped", "groupsonly", "partial", "nosuch"]})
    # identities that are different but look alike: a common prefix longer than any column width (a certificate's common
    # name may have 64 characters), different case, trailing blank.  "Owner" means the exact identity that created the object.
    long_ = "u" * 58
    alike = [(long_ + "-A", None), (long_ + "-B", None), (long_ + "-B", ["gA"]), ("Alice", None), ("alice", None), ("alice ", None)]
    traces += E.random_histories(run, 24 if quick else 160, m, common.SEED + 7, pols=allp, prefix="alike", genkw={
        "weights": w, "idents": alike, "policies": ["default", "default", "grouped", "partial", "open"]})
    # text that is the identifier of no object although a lenient store would read it as one ('01', ' 1', '1.0' ...)
    traces += E.alias_identifier_traces(quick, prefix="c03alias")
    traces += two_owners(allp, quick)
    E.judge(run, traces, only=ONLY, name="c03")
    E.summarise(run, traces)
    denial_probe(run, allp, quick)


def model_pols():
    T = ["SymmetricKey", "SecretData", "OpaqueData"]
    RD = ["Get", "GetAttributes", "GetAttributeList", "Locate"]
    WR = ["Activate", "Revoke", "Destroy", "ModifyAttribute", "DeleteAttribute", "SetAttribute"]
    def sec(perm, types=T, ops=RD + WR):
        return [{"t": t, "op": o, "perm": perm} for t in types for o in ops]
    return [
        {"name": "open", "preset": sec("AllowAll"), "groups": None},
        {"name": "grouped", "preset": sec("AllowOwner"),
         "groups": {"gA": sec("AllowAll", ops=RD), "gB": sec("AllowOwner")}},
        {"name": "partial", "preset": sec("AllowAll", ["SymmetricKey"], ["Get", "Locate"]) +
         sec("AllowOwner", ["SymmetricKey"], ["Destroy", "Activate"]), "groups": None},
    ]


def granted(pols, pn, ident, owner, t, op):
    """The property's definition, used only to SELECT denial cases for the probe."""
    p = [x for x in pols if x["name"] == pn]
    if not p:
        return False
    p = p[0]
    user, groups = ident

    def sec_allows(sec):
        for e in sec or []:
            if e["t"] == t and e["op"] == op:
                if e["perm"] == "AllowAll" or (e["perm"] == "AllowOwner" and user == owner):
                    return True
        return False
    if groups is not None and p.get("groups") is not None:
        return any(sec_allows(p["groups"].get(g)) for g in groups)
    return p.get("preset") is not None and sec_allows(p["preset"])


GOV = {"Encrypt": "Get", "Decrypt": "Get", "Sign": "Get", "SignatureVerify": "Get", "MAC": "Get"}


def two_owners(pols, quick):
    """Objects that agree in type and policy and differ in their OWNER only, created in both orders, then listed and read
    by each owner and by a third party: a decision that depends on the owner (ALLOW_OWNER) must be taken per object."""
    from .. import engtrace as T
    sym = lambda pol: {"otype": "SymmetricKey", "attrs": [{"name": "Cryptographic Algorithm", "v": "AES"}, {"name": "Cryptographic Length", "v": 128},
                                                          {"name": "Cryptographic Usage Mask", "v": ["ENCRYPT"]},
                                                          {"name": "Operation Policy Name", "v": pol}]}
    traces = []
    k = 0
    for pol in ["default", "open", "grouped", "partial"][:2 if quick else 4]:
        for order in (("alice", "bob", "alice"), ("bob", "alice", "bob")):
            k += 1
            drv = D.EngineDriver(policies=pols, intern=E.new_interner())
            try:
                rec = T.Recorder(drv, "owners%d" % k)
                for u in order:
                    rec.request(D.one("Create", sym(pol), user=u))
                for (u, g) in (("alice", None), ("bob", None), ("carol", None), ("carol", ["gA"])):
                    rec.request(D.one("Locate", {"filters": [], "offset": -1, "max": -1}, user=u, groups=g))
                    for uid in (1, 2, 3):
                        rec.request(D.one("GetAttributeList", {"uid": uid}, user=u, groups=g))
                rec.close()
                tr = rec.trace()
                tr["raw"] = rec.raw
                traces.append(tr)
            finally:
                drv.close()
    return traces


def denial_probe(run, pols, quick):
    """A denied request must be indistinguishable from one naming an identifier that does not
    exist: same status, reason and message (modulo the identifier). Differential, on the real engine."""
    from .. import engtrace as T
    drv = D.EngineDriver(policies=pols, intern=E.new_interner())
    try:
        mk = []
        for pn in ["default", "grouped", "closed", "partial", "nosuch"]:
            mk.append(("Create", {"otype": "SymmetricKey", "attrs": [
                {"name": "Cryptographic Algorithm", "v": "AES"}, {"name": "Cryptographic Length", "v": 128},
                {"name": "Cryptographic Usage Mask", "v": ["ENCRYPT", "DECRYPT", "WRAP_KEY", "DERIVE_KEY", "MAC_GENERATE"]},
                {"name": "Operation Policy Name", "v": pn}, {"name": "Name", "idx": 0, "v": "nm-" + pn}]}))
            for t, val in (("SecretData", "pw"), ("OpaqueData", "pw"), ("PrivateKey", "rsapriv"), ("Certificate", "pw")):
                obj = {"type": t, "val": val}
                if t == "PrivateKey":
                    obj.update(alg="RSA", len=1024, fmt="PKCS_8")
                attrs = [{"name": "Operation Policy Name", "v": pn}]
                if t != "OpaqueData":
                    attrs.append({"name": "Cryptographic Usage Mask", "v": ["SIGN", "DERIVE_KEY", "MAC_GENERATE"]})
                mk.append(("Register", {"otype": t, "attrs": attrs, "obj": obj}))
        for op, p in mk:
            drv.request(D.one(op, p, user="alice"))
        for o in drv.state()["objs"]:
            if o["state"] == "PreActive" and o["uid"] % 2 == 0:
                drv.request(D.one("Activate", {"uid": o["uid"]}, user="alice"))
        # an own, usable object of the requester for the indirect cases
        own = {}
        for who in ("bob", "carol"):
            r = drv.request(D.one("Register", {"otype": "SymmetricKey", "attrs": [
                {"name": "Cryptographic Usage Mask", "v": ["ENCRYPT", "WRAP_KEY", "DERIVE_KEY"]},
                {"name": "Operation Policy Name", "v": "open"}],
                "obj": {"type": "SymmetricKey", "val": "k16", "alg": "AES", "len": 128, "fmt": "RAW"}}, user=who))
            own[who] = r["items"][0]["pl"]["uid"]
            drv.request(D.one("Activate", {"uid": own[who]}, user=who))
        st = drv.state()
        snap = drv.db + ".probe"
        drv.snapshot(snap)
        ghost = 900000
        idents = [("bob", None), ("carol", ["gA"]), ("carol", ["gB"]), ("carol", []), ("carol", ["gA", "gB"]), ("carol", [""]),
                  ("carol", ["", "gB"])]
        vers = [(1, 2)] if quick else [(1, 0), (1, 2), (1, 4), (2, 0)]
        ncase = 0
        for ver in vers:
            v2 = ver >= (2, 0)
            for ident in idents:
                for o in st["objs"]:
                    if o["owner"] != "alice":
                        continue
                    cases = []
                    for op in ["Get", "GetAttributes", "GetAttributeList", "Activate", "Revoke", "Destroy", "Encrypt",
                               "Decrypt", "Sign", "SignatureVerify", "MAC", "ModifyAttribute", "DeleteAttribute",
                               "SetAttribute", "GetWrapKey", "DeriveBase", "GetFmt"]:
                        gov = {"GetWrapKey": "Get", "DeriveBase": "Get", "GetFmt": "Get"}.get(op, GOV.get(op, op))
                        if granted(pols, o["policy"], ident, o["owner"], o["type"], gov):
                            continue
                        cases.append(op)
                    for op in cases:
                        def mkreq(u):
                            if op == "GetWrapKey":
                                p = {"uid": own.get(ident[0], 0), "wrap": {"kuid": u, "mode": "NIST_KEY_WRAP"}}
                                o2 = "Get"
                            elif op == "DeriveBase":
                                p = {"otype": "SymmetricKey", "uids": [u], "method": "HMAC",
                                     "dp": {"cp": {"hash": "SHA_256"}, "data": "0011"},
                                     "attrs": [{"name": "Cryptographic Algorithm", "v": "AES"},
                                               {"name": "Cryptographic Length", "v": 128},
                                               {"name": "Cryptographic Usage Mask", "v": ["ENCRYPT"]}]}
                                o2 = "DeriveKey"
                            elif op == "GetFmt":
                                p = {"uid": u, "fmt": "RAW"}
                                o2 = "Get"
                            elif op == "Revoke":
                                p, o2 = {"uid": u, "code": "KEY_COMPROMISE"}, op
                            elif op in ("Encrypt", "Decrypt"):
                                p, o2 = {"uid": u, "cp": {"alg": "AES", "mode": "CBC", "pad": "PKCS5"}, "data": "00" * 16, "iv": "00" * 16}, op
                            elif op in ("Sign", "SignatureVerify"):
                                p, o2 = {"uid": u, "cp": {"pad": "PSS", "dsa": "SHA256_WITH_RSA_ENCRYPTION"}, "data": "0011", "sig": "00" * 128}, op
                            elif op == "MAC":
                                p, o2 = {"uid": u, "cp": {"alg": "HMAC_SHA256"}, "data": "0011"}, op
                            elif op == "ModifyAttribute":
                                p = ({"uid": u, "cur": None, "new": {"name": "Sensitive", "v": True}} if v2
                                     else {"uid": u, "attr": {"name": "Name", "idx": 0, "v": "zz"}})
                                o2 = op
                            elif op == "DeleteAttribute":
                                p = ({"uid": u, "cur": None, "ref": "Name"} if v2 else {"uid": u, "name": "Name", "idx": 0})
                                o2 = op
                            elif op == "SetAttribute":
                                p, o2 = {"uid": u, "new": {"name": "Sensitive", "v": True}}, op
                            else:
                                p, o2 = {"uid": u}, op
                            return D.one(o2, p, user=ident[0], groups=ident[1], ver=ver)
                        drv.load_snapshot(snap)
                        a = drv.request(mkreq(o["uid"]))
                        post = drv.state()
                        drv.load_snapshot(snap)
                        b = drv.request(mkreq(ghost))
                        ncase += 1
                        run.case(("denial", op, o["type"], o["policy"], ident[0], tuple(ident[1]) if ident[1] is not None else None, ver))
                        ia = a["items"][0] if a.get("items") else {"status": a.get("kind"), "reason": a.get("reason"), "msg": a.get("msg")}
                        ib = b["items"][0] if b.get("items") else {"status": b.get("kind"), "reason": b.get("reason"), "msg": b.get("msg")}
                        # the reason may be the permission error or the not-found error; the TEXT must
                        # be what an identifier that does not exist gets
                        okreason = (ia["reason"] == ib["reason"] or
                                    (ia["reason"] in ("PermissionDenied", "ItemNotFound") and
                                     ib["reason"] in ("PermissionDenied", "ItemNotFound")))
                        same = (ia["status"] == ib["status"] and okreason and
                                ((ia.get("msg") or "") == (ib.get("msg") or "") or
                                 (ia.get("msg") or "").replace(str(o["uid"]), "#") == (ib.get("msg") or "").replace(str(ghost), "#")))
                        unchanged = T.norm_state(post) == T.norm_state(st)
                        if ia["status"] == "Success" or ia.get("pl") or not same or not unchanged:
                            run.violation("C03_indistinguishable" if (ia["status"] != "Success" and unchanged) else "C03_denied_effect",
                                          {"op": op, "otype": o["type"], "policy": o["policy"], "ver": ver[0] * 10 + ver[1],
                                           "groups": ident[1] is not None},
                                          {"request_existing": mkreq(o["uid"]), "request_missing": mkreq(ghost),
                                           "response_existing": ia, "response_missing": ib, "store_changed": not unchanged})
        run.extra["denial_probe_cases"] = ncase
        run.traces += ncase
    finally:
        drv.close()
