"""C13 - well-formed requests never hit the server's internal-error path."""
from .. import common, engcheck as E, enggen as G, engdrv as D

ONLY = {"C13"}


def check(run, tier):
    quick = tier == "quick"
    vers = "= {12, 20}" if quick else "= {10, 11, 12, 13, 14, 20}"
    run.rule = ("leg A: TLC, invariant NoInternalError (clause C13_item) over the grid of MC_C13: 7 stored object types x "
                "{PreActive, Active, Deactivated, Compromised, destroyed, none} x the parameter menu (about 300 cells per state "
                "and version: every handler, attribute names incl. unknown/custom/unstored, index absent/0/1/negative, filters, "
                "wrapping variants, creation templates, registrations of every type) x versions " + vers + "; leg B: one real "
                "execution per cell from the real object in that state; leg C: random well-typed requests over random stores in "
                "all versions. Verdict = observed General Failure / internal-error log record. "
                "distinct = distinct (operation, object type, state, status, reason) tuples on the real engine.")
    kw = dict(view="ProbeView", consts={"Vers": vers}, mkreq="MkC13", restarts=False)
    E.model_check(run, "MC_C13", "MenuC13", "CheckedC13", 6, 2, **kw)
    edges = E.emit_edges(run, "MC_C13", "MenuC13", 6, 2, **kw)
    run.extra["grid_cells"] = len(edges)
    traces = E.replay_edges(run, edges)
    n, m = (48, 40) if quick else (480, 80)
    pols = D.builtin_policies() + G.extra_policies()
    traces += E.random_histories(run, n, m, common.SEED, pols=pols, genkw={
        "users": ("alice", "bob"), "versions": G.VERSIONS,
        "policies": ["default", "public", "open", "grouped", "partial", "nosuch"],
        "weights": {"Attr": 4, "Locate": 3, "Register": 3, "Create": 2, "Get": 2, "DeriveKey": 2}})
    E.judge(run, traces, only=ONLY, name="c13")
    E.summarise(run, traces)
    run.assumptions.append("parameter menus of the cryptographic operations (algorithm x mode x padding x IV x lengths) are swept by C06")
