"""C13 - well-formed requests never hit the server's internal-error path."""
from .. import common, engcheck as E, enggen as G, engdrv as D

ONLY = {"C13"}


def check(run, tier):
    quick = tier == "quick"
    vers = "= {12, 20}" if quick else "= {10, 11, 12, 13, 14, 20}"
    run.rule = ("leg A: TLC, invariant NoInternalError (clause C13_item) over the grid of MC_C13: 7 stored object types x "
                "{PreActive, Active, Deactivated, Compromised, destroyed, none} x the parameter menu (about 300 cells per state "
                "and version: every handler, attribute names incl. unknown/custom/unstored, index absent/0/1/negative, filters, "
                "wrapping variants, creation templates, registrations of every type) x versions " + vers + "; leg B: one real "
                "execution per cell from the real object in that state; leg C: random well-typed requests over random stores in "
                "all versions. Verdict = observed General Failure / internal-error log record. "
                "distinct = distinct (operation, object type, state, status, reason) tuples on the real engine.")
    kw = dict(view="ProbeView", consts={"Vers": vers}, mkreq="MkC13", restarts=False)
    E.model_check(run, "MC_C13", "MenuC13", "CheckedC13", 6, 2, **kw)
    edges = E.emit_edges(run, "MC_C13", "MenuC13", 6, 2, **kw)
    run.extra["grid_cells"] = len(edges)
    traces = E.replay_edges(run, edges)
    n, m = (48, 40) if quick else (480, 80)
    pols = D.builtin_policies() + G.extra_policies()
    traces += E.random_histories(run, n, m, common.SEED, pols=pols, genkw={
        "users": ("alice", "bob"), "versions": G.VERSIONS,
        "policies": ["default", "public", "open", "grouped", "partial", "nosuch"],
        "weights": {"Attr": 4, "Locate": 3, "Register": 3, "Create": 2, "Get": 2, "DeriveKey": 2}})
    E.judge(run, traces, only=ONLY, name="c13")
    # attribute operations whose NEW value equals another instance the object already has (a rename onto a sibling name,
    # group, application information), every index, both request forms - the value dimension the grid above keeps fixed
    from . import c08
    sib = c08.attr_then_commit(run, quick)
    E.judge(run, sib, only=ONLY, name="c13attr")
    traces += sib
    lt = locate_then_idless(quick)
    E.judge(run, lt, only=ONLY, name="c13loc")
    traces += lt
    E.summarise(run, traces)
    crypto_grid(run, quick)



def locate_then_idless(quick):
    """Batches [Locate matching 0 / 1 / 2 objects, an item WITHOUT identifier]: whatever Locate leaves behind for the rest
    of the batch, the identifier-less item ends in a specific answer."""
    from .. import engdrv as D, engtrace as T
    sym = lambda name: {"otype": "SymmetricKey", "attrs": [{"name": "Cryptographic Algorithm", "v": "AES"}, {"name": "Cryptographic Length", "v": 128},
                                                           {"name": "Cryptographic Usage Mask", "v": ["ENCRYPT"]}, {"name": "Name", "idx": 0, "v": name}]}
    later = [("Get", {"uid": 0}), ("GetAttributes", {"uid": 0, "names": []}), ("GetAttributeList", {"uid": 0}), ("Activate", {"uid": 0}),
             ("Destroy", {"uid": 0}), ("Revoke", {"uid": 0, "code": "KEY_COMPROMISE"}),
             ("ModifyAttribute", {"uid": 0, "attr": {"name": "Name", "idx": 0, "v": "zz"}})]
    traces = []
    drv = D.EngineDriver(intern=E.new_interner())
    try:
        for nm in ("one", "two", "two"):
            drv.request(D.one("Create", sym(nm)))
        snap = drv.db + ".loc"
        drv.snapshot(snap)
        k = 0
        for fname in ("one", "two", "none"):
            for op, p in later:
                for ver in ([(1, 2)] if quick else [(1, 0), (1, 2), (2, 0)]):
                    k += 1
                    drv.load_snapshot(snap)
                    rec = T.Recorder(drv, "loc%d" % k)
                    q = dict(p)
                    if op == "ModifyAttribute" and ver >= (2, 0):
                        q = {"uid": 0, "cur": {"name": "Name", "v": fname}, "new": {"name": "Name", "v": "zz"}}
                    rec.request({"user": "alice", "groups": None, "ver": list(ver), "opt": "Continue", "items": [
                        {"op": "Locate", "bid": "a", "p": {"filters": [{"name": "Name", "idx": 0, "v": fname}], "offset": -1, "max": -1}},
                        {"op": op, "bid": "b", "p": q}]})
                    rec.close()
                    tr = rec.trace()
                    tr["raw"] = rec.raw
                    traces.append(tr)
    finally:
        drv.close()
    return traces


class _Relabel(object):
    """The cryptographic parameter grid of C06 run for C13: only its internal-error verdicts count here."""

    def __init__(self, run):
        self.run = run
        self.extra = {}
        self.traces = 0

    def case(self, key=None, n=1):
        self.run.case(("crypto",) + tuple(key) if isinstance(key, tuple) else key, n)

    def note_drift(self, what):
        pass

    def sample(self, *a, **k):
        pass

    def violation(self, clause, sig, replay):
        if clause == "C06_internal_error":
            return self.run.violation("C13_crypto_item", dict(sig, op=sig.get("k")), replay)
        return False


def crypto_grid(run, quick):
    """Cryptographic operations x parameter menus (CryptoTerms.tla rows): no cell may end in General Failure."""
    import multiprocessing
    from .. import tlc
    from . import c06
    cfg = tlc.write_cfg("CryptoTerms13.cfg", "SPECIFICATION Spec\nINVARIANT Emit\nCHECK_DEADLOCK FALSE\n")
    res = tlc.run("CryptoTerms", cfg, workers=1)
    rows = res.tag("ROW")
    run.add_tlc(res, "CryptoTerms: parameter menu of the cryptographic operations")
    enc = [r for r in rows if r["k"] == "enc"]
    n = common.NCPU
    with multiprocessing.Pool(n) as pool:
        outs = pool.map(c06._enc_rows, [(enc[i::n], common.SEED * 19 + i, 1 if quick else 3) for i in range(n)])
    k = 0
    for out in outs:
        for o in out:
            k += 1
            p = o["row"]["p"]
            run.case(("crypto-enc", p["alg"], p["mode"], p["pad"], p["iv"], o["status"], o["reason"]))
            if "C06_internal_error" in o["bad"]:
                run.violation("C13_crypto_item", {"op": "enc", "alg": p["alg"], "mode": p["mode"], "pad": p["pad"], "iv": p["iv"]},
                              {"row": o["row"], "status": o["status"], "reason": o["reason"]})
    rl = _Relabel(run)
    c06.other_rows(rl, [r for r in rows if r["k"] not in ("enc", "sign")], quick)
    c06.signatures(rl, quick, [r for r in rows if r["k"] == "sign"])
    run.traces += k + rl.traces
    run.extra["crypto_grid_cells"] = k + rl.traces
