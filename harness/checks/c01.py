"""C01 - TTLV codec round trip for every encodable value and KMIP version."""
import json
import multiprocessing
import os
import random
import re
import struct
import sys

from .. import common, tlc, schemabind as B, schemagen as G
from .. import schemaext  # noqa: registers the per-group bindings

ONLY = [c for c in os.environ.get("C01_ONLY", "").split(",") if c]

PRIM_TAGS = {"int": "BATCH_COUNT", "mask": "CRYPTOGRAPHIC_USAGE_MASK", "long": "USAGE_LIMITS_COUNT", "bigint": "PRIME_FIELD_SIZE",
             "enum": "OBJECT_TYPE", "bool": "SENSITIVE", "text": "NAME_VALUE", "bytes": "KEY_MATERIAL", "date": "TIME_STAMP",
             "interval": "LEASE_TIME"}


def prim_object(kind, tag, v):
    P = B.primitives
    t = B.T[tag]
    py = B.prim_to_py(kind, "ObjectType", v)
    if kind in ("int", "mask"):
        return P.Integer(py, t)
    if kind == "long":
        return P.LongInteger(py, t)
    if kind == "bigint":
        return P.BigInteger(py, t)
    if kind == "enum":
        return P.Enumeration(B.enums.ObjectType, py, t)
    if kind == "bool":
        return P.Boolean(py, t)
    if kind == "text":
        return P.TextString(py, t)
    if kind == "bytes":
        return P.ByteString(py, t)
    if kind == "date":
        return P.DateTime(py, t)
    if kind == "interval":
        return P.Interval(py, t)


def prim_fresh(kind, tag):
    P = B.primitives
    t = B.T[tag]
    return {"int": lambda: P.Integer(tag=t), "mask": lambda: P.Integer(tag=t), "long": lambda: P.LongInteger(tag=t),
            "bigint": lambda: P.BigInteger(tag=t), "enum": lambda: P.Enumeration(B.enums.ObjectType, tag=t),
            "bool": lambda: P.Boolean(tag=t), "text": lambda: P.TextString(tag=t), "bytes": lambda: P.ByteString(tag=t),
            "date": lambda: P.DateTime(tag=t), "interval": lambda: P.Interval(tag=t)}[kind]()


def err(e):
    return ("%s: %s" % (type(e).__name__, e))[:300]


def blank(rid, kind, cls, ver):
    return {"id": rid, "kind": kind, "cls": cls, "ver": ver, "tag": 0, "val": {}, "enc_ok": False, "err": "", "bytes": [],
            "dec_ok": False, "dec_typed": False, "dec": {}, "re_ok": False, "bytes2": [], "eq": "undefined",
            "d1": {}, "d2": {}, "e1_ok": False, "d2_ok": False, "typed": False, "pure": "na", "puredetail": ""}


def run_value(rid, cls, ver, val):
    """One real execution: construct, encode, decode, project, re-encode.  Returns (record | None, note)."""
    rec = blank(rid, "value", cls, ver)
    rec["val"] = val
    isprim = cls.startswith("prim:")
    try:
        obj = prim_object(val["_kind"], PRIM_TAGS[val["_kind"]], val["v"]) if isprim else B.construct(cls, val)
    except Exception as e:
        return None, ("unconstructible", err(e))
    rec["tag"] = obj.tag.value
    try:
        data = B.encode(obj, ver)
    except Exception as e:
        rec["err"] = err(e)
        return rec, None
    if len(data) > 200000:
        # the generated values are small (a few kB at most): an encoding of this size does not encode the value
        rec["err"] = "EncodingBlowUp: the encoding of a small value has %d bytes" % len(data)
        return rec, None
    rec["enc_ok"] = True
    rec["bytes"] = list(data)
    try:
        if isprim:
            dec = prim_fresh(val["_kind"], PRIM_TAGS[val["_kind"]])
            dec.read(B.kutils.BytearrayStream(data), kmip_version=B.VERS[ver])
        else:
            dec = B.decode(obj, data, ver)
    except Exception as e:
        rec["err"] = err(e)
        return rec, None
    rec["dec_ok"] = True
    try:
        if isprim:
            rec["dec"] = {"_kind": val["_kind"], "v": B.prim_from_py(val["_kind"], "ObjectType", dec)}
        else:
            rec["dec"] = B.project(cls, dec)
        rec["dec_typed"] = True
    except Exception as e:
        rec["err"] = err(e)
    try:
        b2 = B.encode(dec, ver)
        if len(b2) > 200000:
            raise ValueError("ReencodingBlowUp: the decoded value re-encodes to %d bytes (%d before)" % (len(b2), len(data)))
        rec["bytes2"] = list(b2)
        rec["re_ok"] = True
    except Exception as e:
        rec["err"] = rec["err"] or err(e)
    if not isprim:
        # the same object encoded under the other versions that define its class, then under this one again
        others = [ov for ov in G.versions_of(cls) if ov != ver]
        if others:
            for ov in others:
                try:
                    B.encode(obj, ov)
                except Exception:
                    pass
            try:
                again = B.encode(obj, ver)
                rec["pure"] = "same" if again == data else "differs"
                if again != data:
                    rec["puredetail"] = "after encoding the same object under %s, its encoding under %d changed (%d -> %d bytes)" % (
                        others, ver, len(data), len(again))
            except Exception as e:
                rec["pure"] = "differs"
                rec["puredetail"] = "after encoding the same object under %s it can no longer be encoded under %d: %s" % (others, ver, err(e))
    if B.has_eq(obj):
        try:
            r = obj.__eq__(dec)
            rec["eq"] = "undefined" if r is NotImplemented else ("equal" if r else "unequal")
        except Exception as e:
            rec["eq"] = "undefined"
    return rec, None


# ---------------------------------------------------------------------------
# byte strings the decoder accepts: TTLV-level mutations of valid encodings

def parse_items(b, pos, end):
    out = []
    while pos < end:
        tag = int.from_bytes(b[pos:pos + 3], "big")
        typ = b[pos + 3]
        ln = struct.unpack(">I", b[pos + 4:pos + 8])[0]
        body = b[pos + 8:pos + 8 + ln]
        pad = (8 - ln % 8) % 8
        out.append([tag, typ, parse_items(body, 0, len(body)) if typ == 1 else bytes(body)])
        pos += 8 + ln + pad
    return out


def ser(item):
    tag, typ, val = item
    body = b"".join(ser(c) for c in val) if typ == 1 else val
    return tag.to_bytes(3, "big") + bytes([typ]) + struct.pack(">I", len(body)) + body + b"\x00" * ((8 - len(body) % 8) % 8)


def structs(item, acc):
    if item[1] == 1:
        acc.append(item)
        for c in item[2]:
            structs(c, acc)
    return acc


def mutate(data, rng):
    root = parse_items(data, 0, len(data))[0]
    ss = [s for s in structs(root, []) if s[2]]
    if not ss:
        return None
    s = rng.choice(ss)
    kids = s[2]
    i = rng.randrange(len(kids))
    m = rng.randrange(7)
    if m == 0:
        del kids[i]
    elif m == 1:
        kids.insert(i, json.loads(json.dumps(kids[i], default=lambda x: None)) if False else _copy(kids[i]))
    elif m == 2 and len(kids) > 1:
        j = (i + 1) % len(kids)
        kids[i], kids[j] = kids[j], kids[i]
    elif m == 3 and kids[i][1] != 1:
        v = bytearray(kids[i][2])
        if kids[i][1] in (7, 8):
            v = bytearray(rng.choice([b"", b"z", bytes(v) + b"zz", bytes(v)[:-1]]))
        elif v:
            v[-1] ^= 1
        kids[i][2] = bytes(v)
    elif m == 4:
        kids.insert(rng.randrange(len(kids) + 1), [0x540001, 7, b"zz"])
    elif m == 5 and len(kids) > 1:
        kids[i][0] = kids[(i + 1) % len(kids)][0]
    else:
        kids.append(_copy(kids[0]))
    return ser(root)


def _copy(item):
    return [item[0], item[1], [_copy(c) for c in item[2]] if item[1] == 1 else item[2]]


def run_accept(rid, cls, ver, obj_like, data):
    rec = blank(rid, "accept", cls, ver)
    rec["tag"] = obj_like.tag.value
    rec["bytes"] = list(data)
    try:
        o1 = B.decode(obj_like, data, ver)
    except Exception:
        return None
    try:
        rec["d1"] = B.project(cls, o1)
        t1 = True
    except Exception as e:
        t1 = False
    try:
        e1 = B.encode(o1, ver)
        if len(e1) > 200000 and len(e1) > 4 * len(data):
            raise ValueError("ReencodingBlowUp: %d accepted bytes re-encode to %d" % (len(data), len(e1)))
        rec["e1_ok"] = True
    except Exception as e:
        rec["err"] = err(e)
        return rec
    rec["bytes2"] = list(e1)
    try:
        o2 = B.decode(obj_like, e1, ver)
        rec["d2_ok"] = True
    except Exception as e:
        rec["err"] = err(e)
        return rec
    try:
        rec["d2"] = B.project(cls, o2)
        rec["typed"] = t1
    except Exception as e:
        rec["typed"] = False
    return rec


# ---------------------------------------------------------------------------

TASK_BUDGET_S = 45


class Budget(BaseException):
    """raised by the alarm inside one class x version task (BaseException: the codec's own handlers must not swallow it)"""


def _alarm(signum, frame):
    raise Budget()


def _work(args):
    cls, ver, seed, nrandom, boundary, nmut, deadline = args
    rng = random.Random("%s/%d/%d" % (cls, ver, seed))
    recs, notes = [], []
    import time
    if time.time() > deadline:
        return recs, [(cls, ver, "budget", "skipped: the value leg ran past its overall time limit")]
    seen = set()
    if cls.startswith("prim:"):
        kind = cls[5:]
        todo = [("bv:%d" % i, {"_kind": kind, "v": v}) for i, v in enumerate(G.pool(kind, "ObjectType"))]
    else:
        try:
            todo = G.cases(cls, ver, rng, nrandom=nrandom, boundary=boundary)
        except G.NoCase:
            return recs, []
        except Exception as e:
            return recs, [(cls, ver, "generator", err(e))]
    import time
    import signal
    t0 = time.time()
    signal.signal(signal.SIGALRM, _alarm)
    signal.alarm(TASK_BUDGET_S + 20)
    try:
        _work_cases(cls, ver, todo, rng, nmut, recs, notes, seen, t0)
    except Budget:
        notes.append((cls, ver, "budget", "one execution did not finish within the time limit; %d cases done" % len(recs)))
    finally:
        signal.alarm(0)
    return recs, notes


def _work_cases(cls, ver, todo, rng, nmut, recs, notes, seen, t0):
    import time
    for label, val in todo:
        if time.time() - t0 > TASK_BUDGET_S:
            # a codec whose cost grows from call to call (state kept between calls) must not stall the check: what was
            # recorded so far is judged, the rest of this class x version is skipped and reported
            notes.append((cls, ver, "budget", "more than %d s for one class x version; %d cases done" % (TASK_BUDGET_S, len(recs))))
            break
        key = json.dumps(val, sort_keys=True)
        if key in seen:
            continue
        seen.add(key)
        rid = "%s/%d/%s" % (cls, ver, label)
        try:
            rec, note = run_value(rid, cls, ver, val)
        except Exception as e:
            notes.append((cls, ver, "harness", err(e)))
            continue
        if note:
            notes.append((cls, ver, note[0], note[1]))
            continue
        recs.append(rec)
        if rec["enc_ok"] and nmut and not cls.startswith("prim:") and label.startswith(("max", "rnd", "min")):
            obj = B.construct(cls, val)
            for k in range(nmut):
                try:
                    data = mutate(bytes(rec["bytes"]), rng)
                except Exception as e:
                    notes.append((cls, ver, "mutator", err(e)))
                    continue
                if data is None:
                    continue
                a = run_accept("%s~m%d" % (rid, k), cls, ver, obj, data)
                if a is not None:
                    recs.append(a)
    return recs, notes


def tlc_rows(run, classes, quick):
    """Leg A + the row source of leg B: MC_Schema enumerates, for every (class, version), every restriction of a
    maximal consistent value to a subset of its optional fields, checks the decodability lemma on the model and
    prints the value; returns [(cls, ver, label, val)]."""
    rng = random.Random(common.SEED + 7)
    g = G.Gen(rng)
    base = []
    for c in classes:
        if c == "Attribute":
            continue
        for v in G.versions_of(c):
            fs = G.live_fields(c, v)
            opt = {f["n"] for f in fs if f["c"] in "?*"}
            try:
                val = g.obj(c, v, present=opt)
                obj = B.construct(c, val)
            except G.NoCase:
                continue
            except Exception:
                continue            # reported as unconstructible by the value runs
            base.append({"cls": c, "ver": v, "tag": obj.tag.value, "val": val})
    if not base:
        return []
    path = os.path.join(common.scratch(), "c01_base.json")
    with open(path, "w") as f:
        json.dump(base, f)
    cfg = tlc.write_cfg("MC_Schema.cfg", "SPECIFICATION Spec\nCONSTANT MaxOpt = %d\nCHECK_DEADLOCK FALSE\n" % (6 if quick else 11))
    res = tlc.run("MC_Schema", cfg, env={"TRACE_FILE": path}, timeout=3600, heap="12g")
    run.add_tlc(res, "MC_Schema: decodability lemma over presence combinations of %d (class, version) pairs" % len(base))
    rows = res.tag("R")
    bad = [r for r in rows if not r["lemma"]]
    if bad:
        raise common.MachineryFailure("MC_Schema: the schema is not sequentially decodable for %s" % json.dumps(bad[0])[:1500])
    if 2 * len(rows) != res.distinct:
        raise common.MachineryFailure("MC_Schema printed %d rows for %d states" % (len(rows), res.distinct))
    run.extra["schema_lemma_rows"] = len(rows)
    out = []
    for i, r in enumerate(rows):
        out.append((r["cls"], r["ver"], "tlc:%d" % i, r["val"]))
    return out


def _work_rows(rows):
    recs, notes = [], []
    g = G.Gen(random.Random(1))
    for cls, ver, label, val in rows:
        h = G.HOOKS.get(cls)
        if h:
            val = h(g, val, ver, 0)
        rid = "%s/%d/%s" % (cls, ver, label)
        try:
            rec, note = run_value(rid, cls, ver, val)
        except Exception as e:
            notes.append((cls, ver, "harness", err(e)))
            continue
        if note:
            notes.append((cls, ver, note[0], note[1]))
        else:
            recs.append(rec)
    return recs, notes


def validate(recs, name):
    path = os.path.join(common.scratch(), "c01_%s.json" % name)
    with open(path, "w") as f:
        json.dump(recs, f)
    cfg = tlc.write_cfg("TraceSchema_%s.cfg" % name, "SPECIFICATION Spec\nCHECK_DEADLOCK FALSE\n")
    res = tlc.run("TraceSchema", cfg, env={"TRACE_FILE": path}, timeout=3600, heap="12g")
    if res.distinct != 2 * len(recs):
        raise common.MachineryFailure("TraceSchema consumed %d states, expected %d" % (res.distinct, 2 * len(recs)))
    os.unlink(path)
    return res


def domain_edges(run):
    """One past each end of what a primitive's wire format can hold (TTLV.tla: Integer / Enumeration / Interval 32 bits,
    Long Integer / Date-Time 64 bits): the library must REFUSE such a value when it is constructed - a value it lets the caller
    construct must be encodable.  (The schema generators stay inside the domains, so this edge is probed directly.)"""
    from kmip.core import primitives as P, utils as kutils
    from kmip.core import enums as kenums
    cells = [("Integer", lambda v: P.Integer(v), [2 ** 31, -2 ** 31 - 1, 2 ** 32]),
             ("LongInteger", lambda v: P.LongInteger(v), [2 ** 63, -2 ** 63 - 1]),
             ("Interval", lambda v: P.Interval(v), [2 ** 32, 2 ** 32 + 1, -1]),
             ("DateTime", lambda v: P.DateTime(v), [2 ** 63, -2 ** 63 - 1])]
    n = 0
    for name, mk, vals in cells:
        for v in vals:
            n += 1
            try:
                obj = mk(v)
            except Exception:
                run.case(("edge", name, v > 0, "refused"))
                continue
            try:
                st = kutils.BytearrayStream()
                obj.write(st)
                back = type(obj)()
                back.read(kutils.BytearrayStream(st.buffer))
                ok = back.value == v
                why = "decodes to %r" % (back.value,)
            except Exception as e:
                ok, why = False, "%s: %s" % (type(e).__name__, str(e)[:80])
            run.case(("edge", name, v > 0, "constructed"))
            if not ok:
                run.violation("C01_encodable", {"cls": name, "what": "a value one past the wire format's range is constructible but not encodable"},
                              {"class": name, "value": str(v), "outcome": why})
    run.traces += n
    run.extra["domain_edge_values"] = n


def check(run, tier):
    quick = tier == "quick"
    run.rule = ("KmipSchema.tla (+SchemaBase/Objects/Payloads/Messages) states, per class and KMIP version, the fields, kinds, "
                "cardinalities and wire order, and ObjTree(value) = the TTLV tree the specification prescribes. For every class x "
                "version the harness generates abstract values from the exported schema (minimal, maximal, every optional field "
                "alone and alone absent, every boundary value of every primitive field, list lengths 1..3, random subsets), builds "
                "the library object the way a caller would, encodes, decodes with a fresh object, reads the decoded object's public "
                "attributes back and re-encodes; TraceSchema.tla decides per execution: encodable, decodable, tree(decoded) = "
                "tree(intended value given by the caller's inputs), re-encoded bytes identical, library == agrees; for mutated byte "
                "strings the decoder accepts, tree(decode) = tree(decode(encode(decode))). Bytes that differ from the prescribed "
                "tree while the round trip holds are wire drift. distinct = (class, version, case label kind).")
    B.export()
    classes = sorted(B.S()["schema"])
    if ONLY:
        classes = [c for c in classes if c in ONLY]
    tasks = []
    import time
    # the value leg normally takes about one (quick) / four (thorough) minutes; past this limit the remaining class x version
    # tasks are skipped (and listed in the evidence) and what was recorded is judged
    deadline = time.time() + (300 if quick else 2400)
    for kind in sorted(B.PRIM_KINDS):
        if not ONLY or ("prim:" + kind) in ONLY:
            tasks.append(("prim:" + kind, 14, common.SEED, 0, True, 0, deadline))
    for c in classes:
        vs = G.versions_of(c)
        for i, v in enumerate(vs):
            full = (not quick) or v in (vs[0], vs[-1]) or (len(vs) > 2 and v == vs[len(vs) // 2])
            tasks.append((c, v, common.SEED, (6 if quick else 40) if full else 3, full, (2 if quick else 8), deadline))
    if not ONLY:
        domain_edges(run)
    rows = tlc_rows(run, classes, quick)
    with multiprocessing.Pool(common.NCPU) as pool:
        outs = pool.map(_work, tasks, chunksize=1)
        outs += pool.map(_work_rows, [rows[i:i + 400] for i in range(0, len(rows), 400)], chunksize=1)
    recs, notes = [], []
    for r, n in outs:
        recs.extend(r)
        notes.extend(n)
    by = {r["id"]: r for r in recs}
    if len(by) != len(recs):
        raise common.MachineryFailure("duplicate record ids")
    uncon = {}
    for cls, ver, what, why in notes:
        if what in ("harness", "generator", "mutator"):
            raise common.MachineryFailure("%s failure for %s/%d: %s" % (what, cls, ver, why))
        uncon.setdefault((cls, why.split(":")[0], why[:120]), []).append(ver)
    run.extra["unconstructible"] = [{"cls": c, "why": w, "versions": sorted(set(v))} for (c, t, w), v in sorted(uncon.items())][:200]
    run.extra["classes"] = len(classes)
    # an execution whose record is far larger than anything the generators produce (the unchanged tree stays below 40 kB)
    # is a blow-up: the decoded or re-encoded value of a small input is not small.  It is reported here, not sent to TLC.
    sizes = [(len(json.dumps(r)), r) for r in recs]
    run.extra["largest_execution_record_bytes"] = max([n for n, _ in sizes] or [0])
    recs = []
    for n, r in sizes:
        if n > 400000:
            run.violation("C01_roundtrip", {"cls": r["cls"], "what": "blow-up"},
                          {"id": r["id"], "cls": r["cls"], "ver": r["ver"], "clause": "C01_roundtrip",
                           "detail": "the execution record of a small value has %d bytes (encoded %d, re-encoded %d bytes)" % (
                               n, len(r["bytes"]), len(r["bytes2"])), "val": r["val"]})
        else:
            recs.append(r)
    # shards by volume: one JSON file of tens of megabytes made JsonDeserialize fail inside TLC's workers
    shards, cur, vol = [], [], 0
    for n, r in sizes:
        if n > 400000:
            continue
        if cur and (vol + n > 6000000 or len(cur) >= 6000):
            shards.append(cur)
            cur, vol = [], 0
        cur.append(r)
        vol += n
    if cur:
        shards.append(cur)
    drift_classes = {}
    for i, part in enumerate(shards):
        res = validate(part, "%d" % i)
        run.add_tlc(res, "TraceSchema: %d executions" % len(part))
        ill = res.tag("M")
        if ill:
            raise common.MachineryFailure("harness generated ill-typed values: %s" % json.dumps(ill[:3])[:1500])
        for v in res.tag("V"):
            r = by[v["id"]]
            for clause, detail in v["fails"]:
                run.violation(clause, {"cls": r["cls"], "what": detail[:100]},
                              {"id": r["id"], "cls": r["cls"], "ver": r["ver"], "clause": clause, "detail": detail,
                               "val": r["val"], "bytes": bytes(r["bytes"]).hex(), "dec": r["dec"], "d1": r["d1"], "d2": r["d2"],
                               "error": r["err"]})
        for d in res.tag("D"):
            r = by[d["id"]]
            for what in d["drift"]:
                # the innermost difference identifies the deviation; the classes that embed it are listed in the evidence
                m = re.search(r'("children of"|"tag"|"value of"|"type at").*$', what)
                core = (m.group(0) if m else what)[:200]
                drift_classes.setdefault("%d: %s" % (r["ver"], core), set()).add(r["cls"])
                run.note_drift({"kind": "wire", "ver": r["ver"], "what": core})
    for r in recs:
        lab = r["id"].split("/")[2].split(":")[0].split("~")[0]
        run.case((r["cls"], r["ver"], lab, r["kind"]))
    run.extra["wire_drift_classes"] = {k: sorted(v) for k, v in sorted(drift_classes.items())}
    run.traces += len(recs)
    run.sample({"classes": len(classes), "executions": len(recs),
                "accepted_mutations": sum(1 for r in recs if r["kind"] == "accept")})
    run.exhaustive = False
    run.assumptions = ["the schema's class list is the set of encodable classes; values are generated only with fields the "
                       "version defines (a field set for a version that does not define it is outside the property)",
                       "a value whose constructor or setter raises is not a value the library lets a caller construct "
                       "(listed under unconstructible)"]


def replay(path):
    with open(path) as f:
        d = json.load(f)
    rp = d["replay"]
    B.export()
    rec, note = run_value(rp["id"], rp["cls"], rp["ver"], rp["val"])
    print(json.dumps({"note": note, "record": rec}, indent=1)[:4000])
    return 0
