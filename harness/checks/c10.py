"""C10 - concurrent sessions behave as if served one request at a time."""
import json
import multiprocessing
import os
import random
import threading

from .. import common, tlc, absmap as A, engdrv as D, engcheck as E, engtrace as T, sessdrv as S, enggen as G

TLS = threading.local()


class Deadlock(Exception):
    pass


class Sched(object):
    """Cooperative scheduler: exactly one registered thread runs; the others wait at yield points."""

    def __init__(self, plan, names):
        self.cv = threading.Condition()
        self.cur = None
        self.plan = list(plan)
        self.alive = set(names)
        self.blocked = set()
        self.clock = 0
        self.log = []
        self.started = False

    def _pick(self):
        runnable = sorted(t for t in self.alive if t not in self.blocked)
        if not runnable:
            self.cur = None
        else:
            nxt = None
            while self.plan:
                t = self.plan.pop(0)
                if t in runnable:
                    nxt = t
                    break
            self.cur = nxt if nxt is not None else (self.cur if self.cur in runnable else runnable[0])
        self.cv.notify_all()

    def _wait_turn(self, name):
        n = 0
        while self.cur != name:
            if not self.cv.wait(timeout=5):
                n += 1
                if n > 4:
                    raise Deadlock("thread %s never scheduled (cur=%s blocked=%s alive=%s)" % (name, self.cur, self.blocked, self.alive))

    def begin(self, name):
        with self.cv:
            while not self.started:
                self.cv.wait(timeout=5)
            self._wait_turn(name)

    def go(self):
        with self.cv:
            self.started = True
            self._pick()

    def yield_(self, label):
        name = getattr(TLS, "name", None)
        if name is None:
            return
        with self.cv:
            self.clock += 1
            self.log.append((self.clock, name, label))
            self._pick()
            self._wait_turn(name)

    def tick(self):
        with self.cv:
            self.clock += 1
            return self.clock

    def finish(self, name):
        with self.cv:
            self.alive.discard(name)
            self._pick()


class SchedLock(object):
    """Re-entrant lock whose waiting is visible to the scheduler."""

    def __init__(self, sched):
        self.sched = sched
        self.owner = None
        self.count = 0
        self.waiters = set()
        self.events = []

    def acquire(self, blocking=True, timeout=-1):
        name = getattr(TLS, "name", None)
        s = self.sched
        if (not blocking or (timeout is not None and timeout >= 0)) and self.owner not in (None, name):
            # a bounded wait: in logical time the holder may be arbitrarily slow, so the wait may run out.
            # The holder gets one more step; if it still holds the lock the acquisition fails, as RLock.acquire would.
            with s.cv:
                s.clock += 1
                self.events.append((s.clock, name, "timed-wait"))
            s.yield_("lock-timed-wait")
            if self.owner not in (None, name):
                with s.cv:
                    s.clock += 1
                    self.events.append((s.clock, name, "timed-out"))
                return False
        with s.cv:
            while self.owner not in (None, name):
                s.blocked.add(name)
                self.waiters.add(name)
                s.clock += 1
                self.events.append((s.clock, name, "blocked"))
                s._pick()
                s._wait_turn(name)
            self.owner = name
            self.count += 1
            s.clock += 1
            self.events.append((s.clock, name, "acquired"))
        return True

    def release(self):
        s = self.sched
        name = getattr(TLS, "name", None)
        freed = False
        with s.cv:
            if self.owner != name or self.count <= 0:
                raise RuntimeError("cannot release un-acquired lock")        # as threading.RLock does
            self.count -= 1
            if self.count == 0:
                self.owner = None
                s.blocked -= self.waiters
                self.waiters.clear()
                s.clock += 1
                self.events.append((s.clock, name, "released"))
                freed = True
        if freed:
            # whoever waits for the lock may run now: a lock given up in the middle of a request is a scheduling point
            s.yield_("lock-released")

    __enter__ = acquire

    def __exit__(self, *a):
        self.release()


def instrument(engine, sched):
    """Yield points: every SQL statement, after the identity / version assignment, before every access decision."""
    import sqlalchemy
    if not hasattr(engine, "_lock"):
        raise common.MachineryFailure("engine has no _lock to instrument")
    engine._lock = SchedLock(sched)
    sqlalchemy.event.listen(engine._data_store, "before_cursor_execute", lambda *a, **k: sched.yield_("sql"))
    for attr, when in (("_verify_credential", "after"), ("_set_protocol_version", "after"),
                       ("_is_allowed_by_operation_policy", "before"), ("_process_operation", "before")):
        inner = getattr(engine, attr, None)
        if inner is None:
            raise common.MachineryFailure("engine has no %s to instrument" % attr)

        def wrap(*a, _inner=inner, _attr=attr, _when=when, **k):
            if _when == "before":
                sched.yield_(_attr)
            r = _inner(*a, **k)
            if _when == "after":
                sched.yield_(_attr)
            return r
        setattr(engine, attr, wrap)


class TimedConn(S.FakeConn):
    """Records the logical time at which each request is handed in and each response comes out."""

    def __init__(self, frames, cert, sched):
        S.FakeConn.__init__(self, b"".join(frames), cert=cert)
        self.sched = sched
        self.bounds = []
        p = 0
        for f in frames:
            self.bounds.append(p)
            p += len(f)
        self.inv = []
        self.ret = []

    def recv(self, n):
        if self.pos in self.bounds and len(self.inv) == self.bounds.index(self.pos) and self.pos < len(self.data):
            self.sched.yield_("request")
            self.inv.append(self.sched.tick())
        return S.FakeConn.recv(self, n)

    def sendall(self, data):
        self.ret.append(self.sched.tick())
        S.FakeConn.sendall(self, data)
        self.sched.yield_("response")


WORKLOADS = {
    # identities and versions must not leak between sessions
    "identity": {
        "setup": [("alice", (1, 2), "Create", {"otype": "SymmetricKey", "attrs": [
            {"name": "Cryptographic Algorithm", "v": "AES"}, {"name": "Cryptographic Length", "v": 128},
            {"name": "Cryptographic Usage Mask", "v": ["ENCRYPT"]}, {"name": "Name", "idx": 0, "v": "k"}]})],
        "threads": {
            "alice": ((1, 2), [("Create", {"otype": "SymmetricKey", "attrs": [
                {"name": "Cryptographic Algorithm", "v": "AES"}, {"name": "Cryptographic Length", "v": 128},
                {"name": "Cryptographic Usage Mask", "v": ["ENCRYPT"]}]}), ("Get", {"uid": 1}), ("DiscoverVersions", {"versions": []}),
                ("GetAttributeList", {"uid": 1})]),
            "bob": ((1, 0), [("Query", {}), ("Get", {"uid": 1}), ("DiscoverVersions", {"versions": []}), ("Locate", {"filters": []})]),
        }},
    # lifecycle races on one object
    "races": {
        "setup": [("alice", (1, 2), "Create", {"otype": "SymmetricKey", "attrs": [
            {"name": "Cryptographic Algorithm", "v": "AES"}, {"name": "Cryptographic Length", "v": 128},
            {"name": "Cryptographic Usage Mask", "v": ["ENCRYPT"]}, {"name": "Operation Policy Name", "v": "public"}]})],
        "threads": {
            "alice": ((1, 2), [("Activate", {"uid": 1}), ("Destroy", {"uid": 1}), ("Locate", {"filters": []})]),
            "bob": ((1, 4), [("Revoke", {"uid": 1, "code": "KEY_COMPROMISE"}), ("GetAttributes", {"uid": 1, "names": ["State", "Sensitive"]})]),
            "carol": ((2, 0), [("GetAttributeList", {"uid": 1}), ("Query", {})]),
        }},
    # a long operation (key pair generation) of one client against short requests of another, different versions
    "keypair": {
        "setup": [],
        "threads": {
            "alice": ((1, 2), [("CreateKeyPair", {"common": [{"name": "Cryptographic Algorithm", "v": "RSA"}, {"name": "Cryptographic Length", "v": 1024}],
                                                  "priv": [{"name": "Cryptographic Usage Mask", "v": ["SIGN"]}],
                                                  "pub": [{"name": "Cryptographic Usage Mask", "v": ["VERIFY"]}]}),
                               ("Get", {"uid": 2}), ("Locate", {"filters": []})]),
            "bob": ((1, 0), [("Query", {}), ("Locate", {"filters": []}), ("Get", {"uid": 2}), ("GetAttributeList", {"uid": 1})]),
        }},
    # batches racing on the ID placeholder
    "placeholder": {
        "setup": [],
        "threads": {
            "alice": ((1, 2), [("BATCH", [("Create", {"otype": "SymmetricKey", "attrs": [
                {"name": "Cryptographic Algorithm", "v": "AES"}, {"name": "Cryptographic Length", "v": 128},
                {"name": "Cryptographic Usage Mask", "v": ["ENCRYPT"]}]}), ("GetAttributes", {"uid": 0, "names": ["State"]}), ("Get", {"uid": 0})])]),
            "bob": ((1, 1), [("BATCH", [("Register", {"otype": "SecretData", "attrs": [], "obj": {"type": "SecretData", "val": "pw"}}),
                                        ("Destroy", {"uid": 0})]), ("Locate", {"filters": []})]),
        }},
}


def mkreq(user, ver, op, p):
    if op == "BATCH":
        return {"user": user, "groups": None, "ver": list(ver), "opt": "Continue",
                "items": [{"op": o, "bid": "b%d" % i, "p": pp} for i, (o, pp) in enumerate(p)]}
    return D.one(op, p, user=user, ver=ver)


def run_schedule(args):
    """One forced schedule on a real engine shared by real sessions. Returns a history for TraceLin."""
    hid, wname, plan = args
    common.scratch()
    w = WORKLOADS[wname]
    D.CLOCK.now = 3000000
    pols = D.builtin_policies()
    drv = D.EngineDriver(policies=pols, intern=E.new_interner())
    try:
        for (u, ver, op, p) in w["setup"]:
            drv.request(mkreq(u, ver, op, p))
        init = T.norm_state(drv.state())
        names = sorted(w["threads"])
        sched = Sched(plan, names)
        instrument(drv.engine, sched)
        conns, reqs, errors = {}, {}, []
        for n in names:
            ver, ops = w["threads"][n]
            reqs[n] = [mkreq(n, ver, op, p) for (op, p) in ops]
            frames = [A.encode(A.build_request(r, drv.intern, now=int(D.CLOCK.now)), A.KV(tuple(r["ver"]))) for r in reqs[n]]
            conns[n] = TimedConn(frames, S.make_cert(1, "client", cn=n), sched)

        def body(n):
            TLS.name = n
            try:
                sched.begin(n)
                esc = S.run_session(drv.engine, conns[n])
                if esc:
                    errors.append((n, esc))
            except Deadlock as e:
                errors.append((n, ["DEADLOCK %s" % e]))
            except Exception as e:
                errors.append((n, ["%s: %s" % (type(e).__name__, e)]))
            finally:
                sched.finish(n)
        ths = [threading.Thread(target=body, args=(n,), daemon=True) for n in names]
        for t in ths:
            t.start()
        sched.go()
        for t in ths:
            t.join(timeout=60)
        if any(t.is_alive() for t in ths):
            return {"hid": hid, "error": "threads did not finish", "errors": errors, "workload": wname, "plan": plan}
        nf = T.NotFoundTemplate("Could not locate object: %d" % T.PROBE_UID)
        calls = []
        for n in names:
            c = conns[n]
            for i, r in enumerate(reqs[n]):
                if i >= len(c.sent):
                    errors.append((n, ["no response to request %d" % i]))
                    continue
                res = A.abs_response(A.decode_response(c.sent[i]), drv.intern)
                calls.append({"thread": n, "inv": c.inv[i], "ret": c.ret[i], "req": T.norm_req(r, int(D.CLOCK.now), drv.intern),
                              "res": T.norm_res(res, nf)})
        final = T.norm_state(drv.state())
        return {"hid": hid, "workload": wname, "plan": plan, "pols": T.norm_pols(pols), "init": init, "final": final,
                "calls": calls, "errors": errors, "yields": sched.clock,
                "lock_events": len(getattr(drv.engine._lock, "events", []))}
    finally:
        drv.close()


def system_stress(run, quick):
    """Real threads against the real server (sysdrv): three clients with their own certificates and KMIP versions, two
    connections each, hammer one KmipServer at the same time - key pairs (long key generation), keys, reads of their own and of
    each other's objects, version-dependent requests.  No schedule is forced here; what must hold in EVERY execution is checked:
    an object belongs to the client that created it, a client reads its own objects and never another client's, and every
    answer is given under the asking client's protocol version."""
    import shutil
    import sqlite3
    import threading as th
    import time
    from .. import sysdrv
    sysdrv.install_wrap_socket()
    from kmip.core import enums as kenums
    root = os.path.join(common.scratch(), "sys10")
    sysm = sysdrv.System(root, tls_client_auth=True)
    users = {"alice": (1, 2), "bob": (1, 0), "carol": (2, 0)}
    certs = {u: sysm.issue(u, [u], "client") for u in users}
    created, problems, nops = {u: [] for u in users}, [], [0]
    public = set()
    lock = th.Lock()
    rounds = 10 if quick else 40

    def worker(u, k):
        r = random.Random(common.SEED * 53 + hash((u, k)) % 1000)
        ver = users[u]
        try:
            cl = sysm.client(certs[u][0], certs[u][1], ver=ver)
            cl.open()
        except Exception as e:
            with lock:
                problems.append(("C10_session_failed", u, "connect: %s" % str(e)[:80]))
            return
        try:
            for i in range(rounds):
                x = r.random()
                try:
                    if x < 0.2:
                        pub, priv = cl.create_key_pair(kenums.CryptographicAlgorithm.RSA, 1024,
                                                       public_usage_mask=[kenums.CryptographicUsageMask.VERIFY],
                                                       private_usage_mask=[kenums.CryptographicUsageMask.SIGN])
                        with lock:
                            created[u] += [pub, priv]
                            public.add(pub)             # the default policy lets everybody read public keys
                    elif x < 0.45:
                        uid = cl.create(kenums.CryptographicAlgorithm.AES, 128)
                        with lock:
                            created[u].append(uid)
                    elif x < 0.65:
                        with lock:
                            mine = list(created[u])
                        if mine:
                            cl.get(r.choice(mine))         # must succeed
                    elif x < 0.85:
                        with lock:
                            theirs = [(v, w) for v in users if v != u for w in created[v] if w not in public]
                        if theirs:
                            v, w = r.choice(theirs)
                            try:
                                cl.get(w)
                                with lock:
                                    problems.append(("C10_foreign_access", u, "read %s's object %s" % (v, w)))
                            except Exception:
                                pass
                    else:
                        # under KMIP 1.0 DiscoverVersions does not exist; under later versions it does
                        try:
                            cl.proxy.discover_versions()
                            ok = True
                        except Exception:
                            ok = False
                        res_ok = ok
                        if ver == (1, 0):
                            pass          # the client library itself may refuse; nothing to learn
                    with lock:
                        nops[0] += 1
                except Exception as e:
                    with lock:
                        problems.append(("C10_own_request_failed", u, "%s: %s" % (type(e).__name__, str(e)[:100])))
        finally:
            try:
                cl.close()
            except Exception:
                pass
    try:
        sysm.start()
        ths = [th.Thread(target=worker, args=(u, k), daemon=True) for u in users for k in range(2)]
        for t in ths:
            t.start()
        for t in ths:
            t.join(timeout=300)
        if any(t.is_alive() for t in ths):
            problems.append(("C10_session_failed", "-", "client threads did not finish"))
        sysm.stop()
        con = sqlite3.connect("file:%s?mode=ro" % sysm.db, uri=True, timeout=10)
        owners = dict(con.execute("select uid, owner from managed_objects").fetchall())
        con.close()
        for u in users:
            for w in created[u]:
                if owners.get(int(w)) != u:
                    problems.append(("C10_owner", u, "object %s created by %s is stored with owner %r" % (w, u, owners.get(int(w)))))
        ids = [w for u in users for w in created[u]]
        if len(ids) != len(set(ids)):
            problems.append(("C10_owner", "-", "an identifier was handed to two clients"))
    finally:
        sysm.stop()
        shutil.rmtree(root, ignore_errors=True)
    for (clause, u, what) in problems:
        run.violation(clause, {"level": "system", "user": u}, {"what": what, "objects_created": {k: len(v) for k, v in created.items()}})
    run.case(("system-stress", nops[0] > 0, len(problems)))
    run.traces += 1
    run.extra["system_stress"] = {"threads": 6, "requests": nops[0], "objects": sum(len(v) for v in created.values())}


def plans_for(names, nyield, quick, r):
    """Schedules: serial orders, every plan with <= 2 pre-emptions on a grid of yield points, random plans."""
    out = []
    import itertools
    for perm in itertools.permutations(names):
        out.append([n for n in perm for _ in range(nyield)])
    step = 6 if quick else 2
    for a, b in itertools.permutations(names, 2):
        for i in range(0, nyield, step):
            out.append([a] * i + [b] * nyield + [a] * nyield)
            for j in range(1, nyield, step * 2):
                out.append([a] * i + [b] * j + [a] * nyield + [b] * nyield)
    for _ in range(20 if quick else 300):
        out.append([r.choice(names) for _ in range(nyield * len(names))])
    return out


def check(run, tier):
    quick = tier == "quick"
    run.rule = ("leg A: TLC, Concurrency.tla: all interleavings of Enter / Acquire / SetVersion / SetIdentity / CreateGen / "
                "CreateStore / GetPh (placeholder) / Query / Release for 2, 3 and 4 sessions with the lock in place (invariants: "
                "Linearizable = responses and store equal those of some serial order computed by the sequential step function, "
                "every item evaluated under its own session's identity and version, mutual exclusion; four negative controls - no "
                "lock, lock-free Query path, lock dropped during key generation, bounded wait - each violate them); leg B: "
                "schedules forced on a real KmipEngine shared by real KmipSessions through a cooperative scheduler with yield points "
                "at every SQL statement, after the identity and version assignments, before every access decision and around the "
                "instrumented lock: all serial orders, every plan with <= 2 pre-emptions on a grid of yield points, seeded random "
                "plans, for three workloads (identity/version visible, lifecycle races, batches racing on the placeholder); leg C: "
                "each recorded history (calls with invocation/return times, responses, final store) is checked for "
                "linearizability against the sequential KmipEngine specification by TLC (TraceLin.tla). "
                "distinct = distinct (workload, schedule) runs.")
    def c10cfg(ses, locked="TRUE", fast="FALSE", unlock="FALSE", timeout="FALSE", invs=("OwnIdentity", "MutualExclusion", "Linearizable")):
        return tlc.write_cfg("MC_C10.cfg", "SPECIFICATION Spec\nCONSTANTS\n  Sessions <- %s\n  LOCKED = %s\n  FASTPATH = %s\n"
                             "  UNLOCK_IN_CREATE = %s\n  TIMEOUT = %s\n%sCHECK_DEADLOCK FALSE\n"
                             % (ses, locked, fast, unlock, timeout, "".join("INVARIANT %s\n" % i for i in invs)))
    for (ses, name) in (("Two", "2 sessions"), ("Three", "3 sessions"), ("Four", "4 sessions")):
        res = tlc.run("MC_C10", c10cfg(ses), allow_violation=True)
        run.add_tlc(res, "MC_C10 %s, lock in place" % name)
        if res.violated:
            raise common.MachineryFailure("Concurrency.tla violates %s with the lock" % res.violated)
    # negative controls: each realistic weakening of the lock must break serializability in the model
    controls = {}
    for what, kw in (("no lock", dict(locked="FALSE")), ("lock-free path for Query-only requests", dict(fast="TRUE")),
                     ("lock dropped during key generation", dict(unlock="TRUE")), ("bounded wait for the lock", dict(timeout="TRUE"))):
        for inv in ("OwnIdentity", "Linearizable"):
            res = tlc.run("MC_C10", c10cfg("Three", invs=(inv,), **kw), allow_violation=True)
            if inv not in res.violated:
                raise common.MachineryFailure("negative control '%s' of Concurrency.tla does not violate %s" % (what, inv))
        controls[what] = "OwnIdentity and Linearizable violated"
    run.extra["concurrency_negative_controls"] = controls
    E.rsa_pair()
    for n in ("alice", "bob", "carol"):
        S.make_cert(1, "client", cn=n)
    r = random.Random(common.SEED)
    tasks = []
    for wname, w in WORKLOADS.items():
        names = sorted(w["threads"])
        # a serial probe run tells how many yield points a thread passes
        probe = run_schedule(("probe", wname, []))
        if probe.get("error") or probe.get("errors"):
            raise common.MachineryFailure("C10 probe run failed: %s" % (probe.get("error") or probe.get("errors")))
        ny = max(8, probe["yields"] // len(names) + 4)
        for k, plan in enumerate(plans_for(names, ny, quick, r)):
            tasks.append(("%s-%d" % (wname, k), wname, plan))
    with multiprocessing.Pool(common.NCPU) as pool:
        hists = pool.map(run_schedule, tasks, chunksize=4)
    good = []
    for hst in hists:
        if hst.get("error") or hst.get("errors"):
            run.violation("C10_session_failed", {"workload": hst.get("workload"), "what": str(hst.get("error") or hst["errors"])[:80]},
                          {"workload": hst.get("workload"), "plan": hst.get("plan"), "errors": hst.get("errors"), "error": hst.get("error")})
        else:
            good.append(hst)
        run.case((hst.get("workload"), common.jdump(hst.get("plan"))[:200]))
    # linearizability by TLC
    polsets, index = [], {}
    out = []
    for hst in good:
        key = common.jdump(hst["pols"])
        if key not in index:
            polsets.append(hst["pols"])
            index[key] = len(polsets)
        out.append({"hid": hst["hid"], "ps": index[key], "init": hst["init"], "final": hst["final"], "calls": hst["calls"]})
    path = os.path.join(common.scratch(), "c10.json")
    json.dump({"polsets": polsets, "traces": [], "hists": out}, open(path, "w"))
    cfg = tlc.write_cfg("TraceLin.cfg", 'SPECIFICATION LSpec\nCONSTANT Mut = "none"\nINVARIANT Report\nCHECK_DEADLOCK FALSE\n')
    res = tlc.run("TraceLin", cfg, env={"TRACE_FILE": path}, timeout=3000)
    run.add_tlc(res, "TraceLin: %d histories" % len(out))
    explained = set(x["hid"] for x in res.tag("OK"))
    run.traces += len(out)
    for hst in good:
        if hst["hid"] not in explained:
            run.violation("C10_not_linearizable", {"workload": hst["workload"]},
                          {"workload": hst["workload"], "plan": hst["plan"],
                           "calls": [{"thread": c["thread"], "inv": c["inv"], "ret": c["ret"],
                                      "ops": [i["op"] for i in c["req"]["items"]], "ver": c["req"]["ver"],
                                      "res": [(i["status"], i["reason"], i["uids"]) for i in c["res"]["items"]]} for c in hst["calls"]],
                           "final": hst["final"]})
    run.extra["schedules_forced_on_real_engine"] = len(tasks)
    run.extra["histories_explained"] = len(explained)
    run.sample({"workload": good[0]["workload"], "plan": good[0]["plan"][:30],
                "calls": [(c["thread"], c["inv"], c["ret"], [i["op"] for i in c["req"]["items"]]) for c in good[0]["calls"]]})
    system_stress(run, quick)
    run.assumptions.append("pre-emption only at the listed yield points (every database statement, the writers of the shared transient fields, access decisions, lock operations)")
