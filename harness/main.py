"""Entry point: ./check Cxx [--tier quick|thorough] [--replay file]"""
import argparse
import importlib
import os
import sys
import traceback

from . import common


def main():
    ap = argparse.ArgumentParser()
    ap.add_argument("pid")
    ap.add_argument("--tier", default=os.environ.get("VERIF_TIER", "quick"), choices=["quick", "thorough"])
    ap.add_argument("--replay")
    a = ap.parse_args()
    pid = a.pid.upper()
    try:
        mod = importlib.import_module("harness.checks.%s" % pid.lower())
    except ImportError:
        traceback.print_exc()
        print("no check for %s" % pid)
        return 2
    try:
        if a.replay:
            if hasattr(mod, "replay"):
                return mod.replay(a.replay)
            from . import replay as generic
            return generic.replay(pid, a.replay)
        run = common.Run(pid, a.tier, getattr(mod, "LEVEL", "model_checking"))
        mod.check(run, a.tier)
        return run.finish()
    except common.MachineryFailure as e:
        print("MACHINERY FAILURE (%s): %s" % (pid, e))
        return 2
    except Exception:
        traceback.print_exc()
        print("MACHINERY FAILURE (%s): unexpected exception in the harness" % pid)
        return 2


if __name__ == "__main__":
    sys.exit(main())
