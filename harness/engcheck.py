"""Shared machinery of the engine-level checks: TLC model checking of MC_* modules,
edge emission + replay on the real engine (leg B), random histories (leg C),
trace validation with TraceEngine.tla and the mapping of verdicts to properties."""
import json
import multiprocessing
import os
import shutil
import time

from . import common, tlc
from . import absmap as A
from . import engdrv as D
from . import engtrace as T
from . import enggen as G

_RSA = {}


def rsa_pair():
    """One cached RSA-1024 pair (DER) for registered public / private keys."""
    if not _RSA:
        cache = os.path.join(common.VERIF, ".cache")
        os.makedirs(cache, exist_ok=True)
        p = os.path.join(cache, "rsa1024.json")
        if os.path.exists(p):
            d = json.load(open(p))
            _RSA.update(priv=bytes.fromhex(d["priv"]), pub=bytes.fromhex(d["pub"]))
        else:
            from cryptography.hazmat.primitives.asymmetric import rsa
            from cryptography.hazmat.primitives import serialization as S
            k = rsa.generate_private_key(public_exponent=65537, key_size=1024)
            _RSA["priv"] = k.private_bytes(S.Encoding.DER, S.PrivateFormat.PKCS8, S.NoEncryption())
            _RSA["pub"] = k.public_key().public_bytes(S.Encoding.DER, S.PublicFormat.PKCS1)
            with open(p + ".%d" % os.getpid(), "w") as f:
                json.dump({"priv": _RSA["priv"].hex(), "pub": _RSA["pub"].hex()}, f)
            os.replace(p + ".%d" % os.getpid(), p)
    return _RSA


def new_interner():
    i = A.Interner()
    i.define("k16", bytes(range(1, 17)))
    i.define("k32", bytes(range(33, 65)))
    i.define("pw", b"s3cr3t-passw0rd")
    r = rsa_pair()
    i.define("rsapriv", r["priv"])
    i.define("rsapub", r["pub"])
    return i


# ---------------------------------------------------------------- model request -> driver request

def ver_of(code):
    return [code // 10, code % 10]


FAR_DATE = 10 ** 17        # what the model's largest integer stands for in a date filter (TLC integers are 32-bit)


def denorm_attr(a):
    v = a["v"]
    if a["name"] == "Initial Date" and v == 2147483647:
        v = FAR_DATE
    return {"name": a["name"], "idx": a.get("idx", -1), "v": v}


def denorm_p(op, p, ver):
    v2 = tuple(ver) >= (2, 0)
    if op == "Create":
        return {"otype": p["otype"], "attrs": [denorm_attr(a) for a in p["attrs"]]}
    if op == "CreateKeyPair":
        return {k: [denorm_attr(a) for a in p[k]] for k in ("common", "priv", "pub")}
    if op == "Register":
        o = p["obj"]
        obj = {"type": o["type"], "val": o["val"], "alg": o["alg"], "len": o["len"], "fmt": o["fmt"] if o["fmt"] != "NA" else None}
        if o["type"] == "Certificate":
            obj["ctype"] = o["sub"]
        elif o["type"] == "SecretData":
            obj["dtype"] = o["sub"]
        elif o["type"] == "OpaqueData":
            obj["odtype"] = o["sub"]
        elif o["type"] == "SplitKey" and o["sub"] != "NA":
            obj["prime"] = A.BIG_PRIME if o["sub"] == "PRIME_BIG" else A.SMALL_PRIME
            obj["smethod"] = "POLYNOMIAL_SHARING_PRIME_FIELD"
        return {"otype": p["otype"], "attrs": [denorm_attr(a) for a in p["attrs"]],
                "obj": obj if p.get("hasobj", True) else None}
    if op == "Locate":
        return {"filters": [denorm_attr(a) for a in p["filters"]], "offset": p["offset"], "max": p["max"]}
    if op == "Get":
        out = {"uid": p["uid"], "fmt": p["fmt"] or None, "comp": p["comp"] or None}
        if p["wrap"]:
            w = p["w"]
            out["wrap"] = {"method": w["method"], "kuid": w["kuid"] if w["haskey"] else None,
                           "muid": 1 if w["hasmac"] else None, "anames": ["Name"] if w["anames"] else None,
                           "enc": w["enc"], "mode": "NIST_KEY_WRAP", "nocp": bool(w.get("nocp"))}
        return out
    if op == "GetAttributes":
        return {"uid": p["uid"], "names": list(p["names"])}
    if op in ("GetAttributeList", "Activate", "Destroy"):
        return {"uid": p["uid"]}
    if op == "Revoke":
        return {"uid": p["uid"], "code": p["code"] or None}
    if op in ("Encrypt", "Decrypt"):
        return {"uid": p["uid"], "cp": {"alg": "AES", "mode": "CBC", "pad": "PKCS5"} if p["hascp"] else None,
                "data": "00" * 16, "iv": "00" * 16}
    if op == "Sign":
        return {"uid": p["uid"], "cp": {"pad": "PSS", "dsa": "SHA256_WITH_RSA_ENCRYPTION"} if p["hascp"] else None,
                "data": "0011"}
    if op == "SignatureVerify":
        return {"uid": p["uid"], "cp": {"pad": "PSS", "dsa": "SHA256_WITH_RSA_ENCRYPTION"} if p["hascp"] else None,
                "data": "0011", "sig": "00" * 128}
    if op == "MAC":
        return {"uid": p["uid"], "cp": {"alg": "HMAC_SHA256"} if p["hasalg"] else None,
                "data": "0011" if p["hasdata"] else None}
    if op == "SetAttribute":
        return {"uid": p["uid"], "new": denorm_attr(p["new"])}
    if op == "ModifyAttribute":
        if v2:
            return {"uid": p["uid"], "cur": denorm_attr(p["cur"]) if p["hascur"] else None, "new": denorm_attr(p["new"])}
        return {"uid": p["uid"], "attr": denorm_attr(p["attr"])}
    if op == "DeleteAttribute":
        if v2:
            return {"uid": p["uid"], "cur": denorm_attr(p["cur"]) if p["hascur"] else None, "ref": p["ref"] or None}
        return {"uid": p["uid"], "name": p["name"] or None, "idx": p["idx"]}
    if op == "Query":
        return {"functions": ["QUERY_OPERATIONS"] if p.get("qops", True) else ["QUERY_OBJECTS"]}
    if op == "DiscoverVersions":
        return {"versions": [ver_of(v) for v in p["versions"]]}
    if op == "DeriveKey":
        return {"otype": p["otype"], "uids": list(p["uids"]), "method": p.get("method", "HMAC"),
                "dp": ({"cp": {"hash": "SHA_256"}} if p.get("method") == "HASH" else {"cp": {"hash": "SHA_256"}, "data": "0011"}),
                "attrs": [denorm_attr(a) for a in p["attrs"]]}
    return dict(p)


def from_model_req(mr):
    ver = ver_of(mr["ver"])
    req = {"user": mr["user"], "groups": list(mr["groups"]) if mr["hasg"] else None, "ver": ver,
           "opt": mr["opt"], "now": mr.get("now"),
           "items": [{"op": it["op"], "bid": it["bid"], "p": denorm_p(it["op"], it["p"], ver)} for it in mr["items"]]}
    if mr.get("async"):
        req["async"] = True
    if mr.get("ts") == "Future":
        req["ts"] = 50
    elif mr.get("ts") == "Stale":
        req["ts"] = -100
    elif mr.get("ts") == "Ok":
        req["ts"] = -2
    return req


# ---------------------------------------------------------------- TLC legs

def mc_cfg(name, menu, checked, depth, objs, pols="BuiltinPols", mut="none", autoinc=True, reset_ph=True,
           emit=False, props=True, view="view", consts=None, mkreq="Identity", restarts=True):
    lines = ["SPECIFICATION Spec", "CONSTANTS", '  Mut = "%s"' % mut, "  Menu <- %s" % menu, "  MkReq <- %s" % mkreq,
             "  Pols <- %s" % pols, "  MaxDepth = %d" % depth, "  MaxObjs = %d" % objs,
             "  AUTOINC = %s" % ("TRUE" if autoinc else "FALSE"),
             "  RESET_PH = %s" % ("TRUE" if reset_ph else "FALSE"), "  Checked <- %s" % checked,
             "  RESTARTS = %s" % ("TRUE" if restarts else "FALSE")]
    for k, v in (consts or {}).items():
        lines.append("  %s %s" % (k, v))
    if props:
        lines += ["PROPERTY StepOK", "INVARIANT StoreOK"]
    if emit:
        lines += ["ACTION_CONSTRAINT Emit"]
    lines += ["VIEW %s" % view, "CHECK_DEADLOCK FALSE"]
    return tlc.write_cfg(name, "\n".join(lines) + "\n")


def model_check(run, module, menu, checked, depth, objs, **kw):
    """Leg A: exhaustive check of the property predicates on the model."""
    cfg = mc_cfg("%s_mc_%s.cfg" % (module, menu), menu, checked, depth, objs, **kw)
    res = tlc.run(module, cfg, allow_violation=True)
    if run is not None:
        run.add_tlc(res, "%s/%s depth=%d objs=%d" % (module, menu, depth, objs))
    if res.violated:
        raise common.MachineryFailure(
            "leg A: the specification itself violates %s in %s/%s - the model or a property predicate is wrong, "
            "or the modelled design is broken:\n%s" % (res.violated, module, menu, "\n".join(res.out.splitlines()[-60:])))
    return res


def negative_control(module, menu, checked, depth, objs, **kw):
    """TLC must find a violation when a protecting mechanism is switched off."""
    cfg = mc_cfg("%s_neg_%s.cfg" % (module, menu), menu, checked, depth, objs, **kw)
    res = tlc.run(module, cfg, allow_violation=True)
    return bool(res.violated), res


def emit_edges(run, module, menu, depth, objs, **kw):
    """Leg B, first half: every transition TLC explores, as JSON."""
    cfg = mc_cfg("%s_edge_%s.cfg" % (module, menu), menu, "NoClauses", depth, objs, emit=True, props=False, **kw)
    res = tlc.run(module, cfg, workers=1)
    edges = res.tag("E")
    if len(edges) + 1 != res.generated:
        raise common.MachineryFailure("edge emission: %d edges printed, %d transitions generated"
                                      % (len(edges), res.generated))
    if run is not None:
        run.extra.setdefault("edge_graphs", []).append(
            {"cfg": "%s/%s depth=%d objs=%d" % (module, menu, depth, objs), "edges": len(edges),
             "states": res.distinct})
    return edges


def _canon_state(s):
    objs = []
    for o in s["objs"]:
        o = dict(o)
        o["mask"] = sorted(o["mask"])
        objs.append(o)
    return common.jdump({"objs": objs, "seq": s["seq"]})


def _run_model_req(rec, mr):
    req = from_model_req(mr)
    if req.get("now") is not None:
        D.CLOCK.now = req["now"]
    return rec.request(req)


def _replay_group(args):
    """Replay the path to one model state, then each outgoing edge from a snapshot of it."""
    gid, path, outs, pols = args
    common.scratch()
    drv = D.EngineDriver(policies=pols, intern=new_interner())
    traces = []
    try:
        rec = T.Recorder(drv, "p%d" % gid)
        for e in path:
            if e["kind"] == "restart":
                rec.restart()
            else:
                _run_model_req(rec, e["req"])
        traces.append(dict(rec.trace(), edges=[]))
        snap = drv.db + ".snap"
        drv.snapshot(snap)
        issued = set(rec.issued)
        rec.close()
        for idx, e in outs:
            drv.load_snapshot(snap)
            r2 = T.Recorder(drv, "e%d" % idx)
            r2.issued = set(issued)
            if e["kind"] == "restart":
                r2.restart()
            else:
                _run_model_req(r2, e["req"])
            r2.close()
            tr = r2.trace()
            tr["edges"] = [idx]
            tr["path"] = [x["req"] if x["kind"] == "req" else {"restart": True} for x in path]
            traces.append(tr)
        os.unlink(snap)
    finally:
        drv.close()
    return traces


def replay_edges(run, edges, pols=None, limit=None):
    rsa_pair()
    """Leg B, second half: execute every model transition on the real engine from the
    corresponding real state (reached by replaying a shortest model path)."""
    pols = pols if pols is not None else D.builtin_policies()
    init_key = None
    parent = {}
    outs = {}
    for idx, e in enumerate(edges):
        fk = _canon_state(e["from"])
        tk = _canon_state(e["to"])
        if init_key is None and e["depth"] == 0:
            init_key = fk
            parent[fk] = None
        if tk not in parent and fk in parent:
            parent[tk] = (fk, e)
        outs.setdefault(fk, []).append((idx, e))
    groups = []
    for gid, (fk, es) in enumerate(outs.items()):
        if fk not in parent:
            raise common.MachineryFailure("edge graph: state without a path from the initial state")
        path = []
        k = fk
        while parent[k] is not None:
            k, e = parent[k]
            path.append(e)
        path.reverse()
        groups.append((gid, path, es if limit is None else es[:limit], pols))
    t0 = time.time()
    with multiprocessing.Pool(common.NCPU) as pool:
        res = pool.map(_replay_group, groups, chunksize=1)
    traces = [t for g in res for t in g]
    if run is not None:
        run.extra["edge_replay_s"] = round(run.extra.get("edge_replay_s", 0) + time.time() - t0, 1)
    return traces


# ---------------------------------------------------------------- random histories (leg C)

def _history(args):
    (tid, seed, nreq, genkw, pols, restarts, batch_p) = args
    common.scratch()
    D.CLOCK.now = 1000000 + (seed % 1000) * 1000
    drv = D.EngineDriver(policies=pols, intern=new_interner())
    try:
        rec = T.Recorder(drv, tid)
        gen = G.Gen(seed, **genkw)
        for i in range(nreq):
            D.CLOCK.now += gen.r.choice([0, 1, 1, 2, 3])
            req = gen.request(batch_p)
            res = rec.request(req)
            gen.observe(res, drv.state())
            if restarts and gen.r.random() < restarts:
                rec.restart()
        rec.close()
        tr = rec.trace()
        tr["raw"] = rec.raw
        tr["wire_failures"] = len(drv.wire_failures)
        return tr
    finally:
        drv.close()


def random_histories(run, n, nreq, seed, genkw=None, pols=None, restarts=0.03, prefix="h", batch_p=0.25):
    pols = pols if pols is not None else D.builtin_policies()
    rsa_pair()
    tasks = [("%s%d" % (prefix, i), seed * 100003 + i, nreq, genkw or {}, pols, restarts, batch_p) for i in range(n)]
    with multiprocessing.Pool(common.NCPU) as pool:
        return pool.map(_history, tasks, chunksize=max(1, n // (4 * common.NCPU)))


def alias_identifier_traces(quick, prefix="alias"):
    """Requests that address text which is NOT the identifier of any object although a lenient store would read it as one
    ('01', ' 1', '1.0', '+1', '1e0', '1 '): every operation that takes an identifier, sent by the owner of object 1/2.  The
    specification knows no such object (Item Not Found, nothing changes); whatever the engine does instead is judged by the
    clauses of the calling check (frame, exactness, access, lifecycle)."""
    sym = {"otype": "SymmetricKey", "attrs": [{"name": "Cryptographic Algorithm", "v": "AES"}, {"name": "Cryptographic Length", "v": 128},
                                              {"name": "Cryptographic Usage Mask", "v": ["ENCRYPT", "DECRYPT"]},
                                              {"name": "Name", "idx": 0, "v": "n1"}, {"name": "Object Group", "idx": 0, "v": "og1"}]}
    forms = ["0%d", " %d", "%d.0", "+%d", "%de0", "%d "]
    traces = []
    drv = D.EngineDriver(intern=new_interner())
    try:
        drv.request(D.one("Create", sym))
        drv.request(D.one("Create", sym))
        drv.request(D.one("Activate", {"uid": 2}))
        snap = drv.db + ".alias"
        drv.snapshot(snap)
        k = 0
        for f in forms:
            for u in (1, 2):
                a = f % u
                cells = [((1, 2), "Get", {"uid": a}), ((1, 2), "GetAttributes", {"uid": a, "names": []}), ((1, 2), "GetAttributeList", {"uid": a}),
                         ((1, 2), "Activate", {"uid": a}), ((1, 2), "Revoke", {"uid": a, "code": "KEY_COMPROMISE"}), ((1, 2), "Destroy", {"uid": a}),
                         ((1, 2), "ModifyAttribute", {"uid": a, "attr": {"name": "Name", "idx": 0, "v": "renamed"}}),
                         ((1, 2), "DeleteAttribute", {"uid": a, "name": "Object Group", "idx": 0}),
                         ((2, 0), "SetAttribute", {"uid": a, "new": {"name": "Sensitive", "v": True}}),
                         ((2, 0), "ModifyAttribute", {"uid": a, "cur": {"name": "Name", "v": "n1"}, "new": {"name": "Name", "v": "renamed"}}),
                         ((2, 0), "DeleteAttribute", {"uid": a, "cur": {"name": "Name", "v": "n1"}, "ref": None}),
                         ((1, 2), "Encrypt", {"uid": a, "cp": {"alg": "AES", "mode": "CBC", "pad": "PKCS5"}, "data": "00" * 16, "iv": "00" * 16}),
                         ((1, 2), "DeriveKey", {"otype": "SymmetricKey", "uids": [a], "method": "HMAC", "dp": {"cp": {"hash": "SHA_256"}, "data": "0011"},
                                                "attrs": sym["attrs"][:3]}),
                         ((1, 2), "Get", {"uid": 1, "wrap": {"kuid": a, "mode": "NIST_KEY_WRAP"}})]
                if quick:
                    cells = cells[::2] if (u + forms.index(f)) % 2 else cells[1::2]
                for ver, op, p in cells:
                    k += 1
                    drv.load_snapshot(snap)
                    rec = T.Recorder(drv, "%s%d" % (prefix, k))
                    rec.request(D.one(op, dict(p), ver=ver))
                    rec.close()
                    tr = rec.trace()
                    tr["raw"] = rec.raw
                    traces.append(tr)
    finally:
        drv.close()
    return traces


# ---------------------------------------------------------------- verdicts

def clause_property(c):
    return c.split("_")[0]


def _sig_for(tr, v):
    """The discriminating signature of a failed clause at (trace, step i, item k)."""
    s = tr["steps"][v["i"] - 1]
    sig = {"ver": s["req"]["ver"] if "req" in s else 0}
    if "req" in s:
        sig["hasg"] = s["req"]["hasg"]
    if v["k"] and "req" in s and v["k"] <= len(s["req"]["items"]):
        it = s["req"]["items"][v["k"] - 1]
        sig["op"] = it["op"]
        r = s["res"]["items"][v["k"] - 1] if v["k"] <= len(s["res"]["items"]) else None
        if r:
            sig["status"] = r["status"]
            sig["reason"] = r["reason"]
        uid = it["p"].get("uid")
        before = s["pre"] if v["k"] == 1 else s["mids"][v["k"] - 2]
        for o in before["objs"]:
            if o["uid"] == uid:
                sig["otype"] = o["type"]
                sig["ostate"] = o["state"]
        for key in ("name",):
            if key in it["p"]:
                sig["attr"] = it["p"][key]
        for key in ("attr", "new"):
            if isinstance(it["p"].get(key), dict):
                sig["attr"] = it["p"][key]["name"]
                sig["idx"] = it["p"][key].get("idx")
        if it["op"] == "DeleteAttribute" and "idx" in it["p"]:
            sig["idx"] = it["p"]["idx"]
        if it["op"] == "Locate":
            sig["filters"] = sorted(set(f["name"] for f in it["p"]["filters"]))
        if it["op"] in ("Create", "Register") and "otype" in it["p"]:
            sig["otype"] = it["p"]["otype"]
            if it["op"] == "Register" and isinstance(it["p"].get("obj"), dict):
                sig["sub"] = it["p"]["obj"].get("sub")
    elif "req" in s:
        sig["op"] = "+".join(it["op"] for it in s["req"]["items"])[:80]
        sig["kind"] = s["res"]["kind"]
        sig["opt"] = s["req"]["opt"]
    return sig


_drift_saved = set()


def _save_drift(run, tr, d):
    s = tr["steps"][d["i"] - 1]
    key = (tuple(d["what"]), tuple(it["op"] for it in s.get("req", {}).get("items", [])))
    if key in _drift_saved or len(_drift_saved) > 60:
        return
    _drift_saved.add(key)
    dd = os.path.join(common.VERIF, "out", "drift", run.pid)
    os.makedirs(dd, exist_ok=True)
    with open(os.path.join(dd, "%s_%d.json" % (d["tid"], d["i"])), "w") as f:
        json.dump({"drift": d, "path": tr.get("path"), "requests": (tr.get("raw") or [])[:d["i"]],
                   "step": s}, f, indent=1, default=str)


def judge(run, traces, only=None, workers=None, name="t"):
    """Validate traces with TraceEngine.tla; report property-predicate failures for the
    properties in `only` (a set of ids; None = all) and count model drift."""
    by_tid = {t["tid"]: t for t in traces}
    if len(by_tid) != len(traces):
        raise common.MachineryFailure("duplicate trace identifiers: verdicts could not be attributed")
    V, Dr, res = T.validate(traces, workers=workers, name=name)
    run.traces += len(traces)
    run.add_tlc(res, "TraceEngine(%s): %d traces, %d steps" % (name, len(traces), sum(len(t["steps"]) for t in traces)))
    nviol = 0
    for v in V:
        tr = by_tid[v["tid"]]
        for c in v["clauses"]:
            pid = clause_property(c)
            if only is not None and pid not in only:
                continue
            sig = _sig_for(tr, v)
            replay = {"tid": v["tid"], "step": v["i"], "item": v["k"],
                      "path": tr.get("path"), "requests": (tr.get("raw") or
                      [s.get("req", {"restart": True}) for s in tr["steps"]])[:v["i"]],
                      "observed": tr["steps"][v["i"] - 1].get("res"), "pols": tr["pols"] if len(tr["pols"]) > 2 else "builtin"}
            # the check that owns the clause reports it
            if pid == run.pid or (only is not None and pid in only):
                if run.violation(c, sig, replay):
                    nviol += 1
    for d in Dr:
        tr = by_tid[d["tid"]]
        if tr.get("injected"):
            continue          # artificial faults are outside the model by construction
        s = tr["steps"][d["i"] - 1]
        _save_drift(run, tr, d)
        run.note_drift({"tid": d["tid"], "i": d["i"], "what": d["what"], "model": d.get("model"),
                        "ops": [(it["op"], it["p"].get("uid"), s["req"]["ver"]) for it in s.get("req", {}).get("items", [])],
                        "res": [(it["status"], it["reason"]) for it in s.get("res", {}).get("items", [])]})
    return V, Dr


def summarise(run, traces, cap=3):
    """Coverage accounting over the real executions."""
    ops = {}
    for t in traces:
        for s in t["steps"]:
            if s.get("kind") != "req":
                continue
            for k, r in enumerate(s["res"]["items"]):
                it = s["req"]["items"][k]
                before = s["pre"] if k == 0 else (s["mids"][k - 1] if k - 1 < len(s["mids"]) else s["pre"])
                uid = it["p"].get("uid")
                ot, ost = "-", "-"
                for o in before["objs"]:
                    if o["uid"] == uid:
                        ot, ost = o["type"], o["state"]
                key = (it["op"], ot, ost, r["status"], r["reason"])
                run.case(key)
                ops[it["op"]] = ops.get(it["op"], 0) + 1
            if s["res"]["kind"] == "raised":
                run.case(("raised", s["res"]["reason"], s["res"]["mc"]))
    run.extra["real_items_by_operation"] = ops
    for t in traces[:cap]:
        for s in t["steps"][:2]:
            if s.get("kind") == "req":
                run.sample({"tid": t["tid"], "request": {"user": s["req"]["user"], "ver": s["req"]["ver"],
                            "items": [(i["op"], i["p"].get("uid")) for i in s["req"]["items"]]},
                            "response": [(r["status"], r["reason"], r["uids"]) for r in s["res"]["items"]]})
