"""Validate byte strings emitted by the implementation against TTLV.tla / KmipEnvelope.tla."""
import json
import os

from . import common, tlc


def validate(records, name="bytes", workers=None):
    """records: [{id, kind: 'response'|'any', bytes: b'...', reqver: int}] -> ({id: [fails]}, TLCResult)."""
    path = os.path.join(common.scratch(), "%s_%d.json" % (name, os.getpid()))
    with open(path, "w") as f:
        noprim = {"tag": 0, "typ": 0, "neg": False, "mag": []}
        json.dump([{"id": r["id"], "kind": r.get("kind", "any"), "bytes": list(r["bytes"]),
                    "reqver": r.get("reqver", -1), "prim": r.get("prim", noprim)} for r in records], f)
    cfg = tlc.write_cfg("TraceTTLV_%s.cfg" % name, "SPECIFICATION Spec\nCHECK_DEADLOCK FALSE\n")
    res = tlc.run("TraceTTLV", cfg, workers=workers, env={"TRACE_FILE": path}, timeout=3600, heap="12g")
    if res.distinct != 2 * len(records):
        raise common.MachineryFailure("TTLV validation consumed %d states, expected %d" % (res.distinct, 2 * len(records)))
    os.unlink(path)
    out = {}
    for b in res.tag("B"):
        out[b["id"]] = b["fails"]
    return out, res
