"""TLC runner and output parser."""
import json
import os
import re
import subprocess
import time

from . import common

JAR = "/opt/veriftools/tla/tla2tools.jar:/opt/veriftools/tla/CommunityModules-deps.jar"
_n = [0]


class TLCResult(object):
    def __init__(self):
        self.name = ""
        self.rc = None
        self.out = ""
        self.generated = 0
        self.distinct = 0
        self.depth = 0
        self.wall = 0.0
        self.errors = []
        self.violated = []      # names of violated invariants / properties
        self.tagged = {}        # tag -> list of decoded JSON values
        self.coverage = {}      # action name -> (distinct, total)
        self.ok = False

    def tag(self, t):
        return self.tagged.get(t, [])


def _decode_printed(line):
    # a PrintT of a TLA+ string:  "@TAG@{...json with \" escapes...}"
    try:
        s = json.loads(line)
    except ValueError:
        # TLA+ escapes are a subset of JSON's, but be forgiving
        s = line[1:-1].replace('\\"', '"').replace("\\\\", "\\")
    return s


def run(module, cfg, workers=None, timeout=1800, simulate=None, depth=None,
        env=None, coverage=False, dfs=False, extra=None, seed=None, moddir=None,
        heap="6g", allow_violation=False, cont=False):
    """Run TLC on spec/<module>.tla (or moddir/<module>.tla) with config file cfg.

    Lines printed by the spec as PrintT("@TAG@" \\o ToJson(x)) are collected in
    result.tagged[TAG]. Raises MachineryFailure on a TLC error that is not an
    invariant/property violation (or on any violation unless allow_violation).
    """
    _n[0] += 1
    r = TLCResult()
    r.name = os.path.basename(cfg)
    moddir = moddir or common.SPEC
    meta = os.path.join(common.scratch(), "tlc%d" % _n[0])
    os.makedirs(meta, exist_ok=True)
    workers = workers or common.NCPU
    jopts = ["-XX:+UseParallelGC", "-Xmx" + heap, "-Xss16m",
             "-DTLA-Library=" + common.SPEC]
    if dfs:
        jopts.append("-Dtlc2.tool.queue.IStateQueue=StateDeque")
    cmd = ["java"] + jopts + ["-cp", JAR, "tlc2.TLC", "-workers", str(workers),
                             "-metadir", meta, "-noGenerateSpecTE",
                             "-config", cfg]
    if simulate:
        cmd += ["-simulate", simulate]
    if depth:
        cmd += ["-depth", str(depth)]
    if seed is not None:
        cmd += ["-seed", str(seed)]
    if coverage:
        cmd += ["-coverage", "1"]
    if cont:
        cmd += ["-continue"]
    if extra:
        cmd += list(extra)
    cmd.append(module)
    e = dict(os.environ)
    e.pop("JAVA_TOOL_OPTIONS", None)
    if env:
        e.update(env)
    t0 = time.time()
    try:
        p = subprocess.run(cmd, cwd=moddir, env=e, stdout=subprocess.PIPE,
                           stderr=subprocess.STDOUT, timeout=timeout)
        r.rc = p.returncode
        r.out = p.stdout.decode("utf-8", "replace")
    except subprocess.TimeoutExpired as ex:
        r.rc = -9
        r.out = (ex.stdout or b"").decode("utf-8", "replace")
        if not simulate:
            raise common.MachineryFailure("TLC timed out after %ss on %s" % (timeout, cfg))
    r.wall = time.time() - t0
    _parse(r)
    import shutil
    shutil.rmtree(meta, ignore_errors=True)
    if r.errors and not (allow_violation and r.violated and
                         all(_is_violation(x) for x in r.errors)):
        tail = "\n".join(r.out.splitlines()[-40:])
        raise common.MachineryFailure("TLC failed on %s/%s:\n%s\n%s" % (
            module, r.name, "\n".join(r.errors[:5]), tail))
    r.ok = not r.errors
    return r


def _is_violation(err):
    if ("is violated" in err) or ("Temporal properties were violated" in err) or ("Deadlock reached" in err):
        return True
    # explanatory lines that follow a violation report
    return ("The behavior up to this point" in err) or ("counterexample" in err.lower())


_tagre = re.compile(r'^"@([A-Za-z0-9_]+)@')


def _parse(r):
    lines = r.out.splitlines()
    for i, line in enumerate(lines):
        m = _tagre.match(line)
        if m:
            s = _decode_printed(line)
            tag = m.group(1)
            body = s[len(tag) + 2:]
            try:
                val = json.loads(body)
            except ValueError:
                val = body
            r.tagged.setdefault(tag, []).append(val)
            continue
        m = re.match(r"^(\d+) states generated, (\d+) distinct states found", line)
        if m:
            r.generated = int(m.group(1))
            r.distinct = int(m.group(2))
        m = re.match(r"^The depth of the complete state graph search is (\d+)", line)
        if m:
            r.depth = int(m.group(1))
        m = re.match(r"^The number of states generated: (\d+)", line)
        if m:  # simulation mode
            r.generated = int(m.group(1))
            r.distinct = max(r.distinct, 1)
        if line.startswith("Error:"):
            txt = line
            if line.strip() == "Error:" and i + 1 < len(lines):
                txt = line + " " + lines[i + 1]
            r.errors.append(txt)
            m = re.search(r"Invariant (\S+) is violated", txt)
            if m:
                r.violated.append(m.group(1))
            m = re.search(r"Action property (\S+) is violated", txt)
            if m:
                r.violated.append(m.group(1))
            if "Deadlock reached" in txt:
                r.violated.append("Deadlock")
        m = re.match(r"^<(\w+) line \d+, col \d+ to line \d+, col \d+ of module (\w+)>: (\d+):(\d+)", line)
        if m:
            r.coverage[m.group(1)] = (int(m.group(3)), int(m.group(4)))
    return r


def write_cfg(name, text):
    path = os.path.join(common.scratch(), name)
    with open(path, "w") as f:
        f.write(text)
    return path


def sany(module):
    p = subprocess.run(["java", "-cp", JAR, "-DTLA-Library=" + common.SPEC, "tla2sany.SANY", module],
                       cwd=common.SPEC, stdout=subprocess.PIPE, stderr=subprocess.STDOUT)
    out = p.stdout.decode()
    return ("Semantic errors" not in out and "Parse Error" not in out and
            "Fatal errors" not in out and p.returncode == 0), out


def apalache(module, constants, init, inv, length, timeout=600):
    """Bounded symbolic check with Apalache (spec/apalache/<module>.tla): returns 'NoError' or 'Error'.
    Used for inductive invariants: (init=Init, length 0) is the base case, (init=IndInit, length 1) the step."""
    import shutil
    d = os.path.join(common.SPEC, "apalache")
    out = os.path.join(common.scratch(), "apa%d" % (_n[0] + 1))
    _n[0] += 1
    cfg = write_cfg("apa_%s_%d.cfg" % (module, _n[0]), "%sINIT %s\nNEXT Next\nINVARIANT %s\n" % (
        "".join("CONSTANT %s = %s\n" % kv for kv in constants.items()), init, inv))
    cmd = ["apalache-mc", "check", "--config=" + cfg, "--init=" + init, "--inv=" + inv, "--length=%d" % length,
           "--out-dir=" + out, module + ".tla"]
    e = dict(os.environ)
    e.pop("JAVA_TOOL_OPTIONS", None)
    t0 = time.time()
    try:
        p = subprocess.run(cmd, cwd=d, env=e, stdout=subprocess.PIPE, stderr=subprocess.STDOUT, timeout=timeout)
    except subprocess.TimeoutExpired:
        raise common.MachineryFailure("Apalache timed out on %s (%s, %s)" % (module, init, inv))
    finally:
        shutil.rmtree(out, ignore_errors=True)
    text = p.stdout.decode("utf-8", "replace")
    m = re.search(r"The outcome is: (\w+)", text)
    if not m or m.group(1) not in ("NoError", "Error"):
        raise common.MachineryFailure("Apalache failed on %s:\n%s" % (module, "\n".join(text.splitlines()[-15:])))
    return m.group(1), round(time.time() - t0, 2)


def tlaps(module, timeout=900, deps=()):
    """Check the proofs of spec/tlaps/<module>.tla with the TLA+ proof system (in a scratch copy: tlapm writes its cache next
    to the module).  Returns the number of obligations proved; raises if any is not."""
    import shutil
    src = os.path.join(common.SPEC, "tlaps", module + ".tla")
    d = os.path.join(common.scratch(), "tlaps%d" % (_n[0] + 1))
    _n[0] += 1
    os.makedirs(d, exist_ok=True)
    shutil.copy(src, d)
    for dep in deps:                       # specification modules the proof module extends
        shutil.copy(os.path.join(common.SPEC, dep + ".tla"), d)
    e = dict(os.environ)
    e.pop("JAVA_TOOL_OPTIONS", None)
    try:
        p = subprocess.run(["tlapm", "--cleanfp", module + ".tla"], cwd=d, env=e, stdout=subprocess.PIPE, stderr=subprocess.STDOUT, timeout=timeout)
    except subprocess.TimeoutExpired:
        raise common.MachineryFailure("tlapm timed out on %s" % module)
    finally:
        text = ""
    text = p.stdout.decode("utf-8", "replace")
    shutil.rmtree(d, ignore_errors=True)
    m = re.search(r"All (\d+) obligations? proved", text)
    if not m:
        raise common.MachineryFailure("tlapm did not prove %s:\n%s" % (module, "\n".join(text.splitlines()[-15:])))
    return int(m.group(1))
