"""Reference implementations used to EVALUATE the terms of CryptoTerms.tla (trusted base of C06):
hashlib / hmac from the standard library, raw block-cipher primitives of `cryptography` called
directly with the stated parameters, and RFC 4493 (CMAC), RFC 5869 (HKDF), SP 800-108 counter
mode, RFC 3394 and the two padding schemes written out here."""
import hashlib
import hmac as _hmac
import struct

from cryptography.hazmat.primitives.ciphers import Cipher, algorithms, modes
try:
    from cryptography.hazmat.decrepit.ciphers import algorithms as old_algorithms
    from cryptography.hazmat.decrepit.ciphers import modes as old_modes
except Exception:      # pragma: no cover
    old_algorithms = algorithms
    old_modes = modes


def _alg(name):
    for mod in (algorithms, old_algorithms):
        for n in {"AES": ["AES"], "TRIPLE_DES": ["TripleDES"], "CAMELLIA": ["Camellia"], "BLOWFISH": ["Blowfish"],
                  "CAST5": ["CAST5"], "IDEA": ["IDEA"], "RC4": ["ARC4"]}[name]:
            if hasattr(mod, n):
                return getattr(mod, n)
    raise ValueError("no primitive for %s" % name)


def _mode(name):
    for mod in (modes, old_modes):
        if hasattr(mod, name):
            return getattr(mod, name)
    raise ValueError("no mode %s" % name)


def block_bytes(alg):
    return {"AES": 16, "CAMELLIA": 16, "TRIPLE_DES": 8, "BLOWFISH": 8, "CAST5": 8, "IDEA": 8, "RC4": 1}[alg]


def pad(method, data, block):
    n = block - (len(data) % block)
    if method == "PKCS5":
        return data + bytes([n]) * n
    if method == "ANSI_X923":
        return data + b"\x00" * (n - 1) + bytes([n])
    raise ValueError(method)


def encrypt(alg, mode, key, iv, data, padm=None, aad=None, taglen=None):
    """-> (ciphertext, tag or None); raises if the primitive refuses the combination."""
    a = _alg(alg)(key)
    if alg == "RC4":
        e = Cipher(a, None).encryptor()
        return e.update(data) + e.finalize(), None
    if mode in ("CBC", "ECB"):
        data = pad(padm, data, block_bytes(alg))
    if mode == "ECB":
        m = _mode("ECB")()
    elif mode == "GCM":
        m = modes.GCM(iv, None, min_tag_length=taglen)
    else:
        m = _mode(mode)(iv)
    e = Cipher(a, m).encryptor()
    if aad is not None:
        e.authenticate_additional_data(aad)
    ct = e.update(data) + e.finalize()
    return ct, (e.tag[:taglen] if mode == "GCM" else None)


def ecb_block(alg, key, block):
    e = Cipher(_alg(alg)(key), _mode("ECB")()).encryptor()
    return e.update(block) + e.finalize()


def cmac(alg, key, msg):
    """RFC 4493 / SP 800-38B, generic in the block size."""
    bs = block_bytes(alg)
    rb = 0x87 if bs == 16 else 0x1B
    def dbl(b):
        v = int.from_bytes(b, "big") << 1
        if v >> (bs * 8):
            v = (v & ((1 << (bs * 8)) - 1)) ^ rb
        return v.to_bytes(bs, "big")
    L = ecb_block(alg, key, b"\x00" * bs)
    k1 = dbl(L)
    k2 = dbl(k1)
    n = max(1, (len(msg) + bs - 1) // bs)
    complete = len(msg) > 0 and len(msg) % bs == 0
    last = msg[(n - 1) * bs:]
    if complete:
        last = bytes(x ^ y for x, y in zip(last, k1))
    else:
        last = last + b"\x80" + b"\x00" * (bs - len(last) - 1)
        last = bytes(x ^ y for x, y in zip(last, k2))
    x = b"\x00" * bs
    for i in range(n - 1):
        x = ecb_block(alg, key, bytes(a ^ b for a, b in zip(x, msg[i * bs:(i + 1) * bs])))
    return ecb_block(alg, key, bytes(a ^ b for a, b in zip(x, last)))


HASH = {"MD5": "md5", "SHA_1": "sha1", "SHA_224": "sha224", "SHA_256": "sha256", "SHA_384": "sha384", "SHA_512": "sha512"}
HMAC_HASH = {"HMAC_MD5": "md5", "HMAC_SHA1": "sha1", "HMAC_SHA224": "sha224", "HMAC_SHA256": "sha256", "HMAC_SHA384": "sha384",
             "HMAC_SHA512": "sha512"}


def hmac(alg, key, msg):
    return _hmac.new(key, msg, HMAC_HASH[alg]).digest()


def hkdf(h, key, salt, info, length):
    """RFC 5869."""
    hn = HASH[h]
    dl = hashlib.new(hn).digest_size
    if length > 255 * dl:
        raise ValueError("too long")
    prk = _hmac.new(salt if salt else b"\x00" * dl, key, hn).digest()
    t, okm, i = b"", b"", 0
    while len(okm) < length:
        i += 1
        t = _hmac.new(prk, t + (info or b"") + bytes([i]), hn).digest()
        okm += t
    return okm[:length]


def kbkdf_counter(h, key, fixed, length):
    """SP 800-108 counter mode, HMAC PRF, 32-bit counter before the fixed input, no length field."""
    hn = HASH[h]
    out, i = b"", 0
    while len(out) < length:
        i += 1
        out += _hmac.new(key, struct.pack(">I", i) + (fixed or b""), hn).digest()
    return out[:length]


def pbkdf2(h, key, salt, iters, length):
    return hashlib.pbkdf2_hmac(HASH[h], key, salt, iters, length)


def digest(h, data):
    return hashlib.new(HASH[h], data).digest()


def rfc3394_wrap(kek, plain):
    if len(plain) % 8 or len(plain) < 16:
        raise ValueError("key data must be a multiple of 8 bytes, at least 16")
    n = len(plain) // 8
    a = b"\xa6" * 8
    r = [plain[i * 8:(i + 1) * 8] for i in range(n)]
    for j in range(6):
        for i in range(n):
            b = ecb_block("AES", kek, a + r[i])
            t = n * j + i + 1
            a = (int.from_bytes(b[:8], "big") ^ t).to_bytes(8, "big")
            r[i] = b[8:]
    return a + b"".join(r)


def selftest():
    """Published vectors for every reference written here."""
    k = bytes.fromhex("2b7e151628aed2a6abf7158809cf4f3c")
    assert cmac("AES", k, b"").hex() == "bb1d6929e95937287fa37d129b756746"
    assert cmac("AES", k, bytes.fromhex("6bc1bee22e409f96e93d7e117393172a")).hex() == "070a16b46b4d4144f79bdd9dd04a287c"
    assert cmac("AES", k, bytes.fromhex("6bc1bee22e409f96e93d7e117393172aae2d8a571e03ac9c9eb76fac45af8e5130c81c46a35ce411")).hex() == "dfa66747de9ae63030ca32611497c827"
    okm = hkdf("SHA_256", bytes.fromhex("0b" * 22), bytes.fromhex("000102030405060708090a0b0c"), bytes.fromhex("f0f1f2f3f4f5f6f7f8f9"), 42)
    assert okm.hex() == "3cb25f25faacd57a90434f64d0362f2a2d2d0a90cf1a5a4c5db02d56ecc4c5bf34007208d5b887185865"
    w = rfc3394_wrap(bytes.fromhex("000102030405060708090A0B0C0D0E0F"), bytes.fromhex("00112233445566778899AABBCCDDEEFF"))
    assert w.hex().upper() == "1FA68B0A8112B447AEF34BD8FB5A7B829D3E862371D2CFE5"
    assert pbkdf2("SHA_1", b"password", b"salt", 2, 20).hex() == "ea6c014dc72d6f8ccd1ed92ace1d41f0d8de8957"      # RFC 6070
    assert pad("PKCS5", b"abc", 8) == b"abc\x05\x05\x05\x05\x05" and pad("ANSI_X923", b"abc", 8) == b"abc\x00\x00\x00\x00\x05"
    return True
