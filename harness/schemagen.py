"""Generation of abstract values of the classes of spec/KmipSchema.tla (C01).

Values are generated from the schema exported by TLC: which fields exist under
which version, their kinds and cardinalities.  Boundary pools per kind follow the
property's quantifier: length residues mod 8, sign and width boundaries,
0 / False / empty, non-ASCII text.
"""
import re

from . import schemabind as B

num = B.num

INT = [0, 1, -1, 2, 127, 128, 255, 256, 65535, 2 ** 31 - 1, -2 ** 31, 1234567]
MASK = [0, 1, 4, 12, 0x000FFFFF, 2 ** 31 - 1]
LONG = [0, 1, -1, 2 ** 31, 2 ** 32, 2 ** 63 - 1, -2 ** 63, 1234567890123]
BIG = [0, 1, -1, 255, 256, -256, 2 ** 63 - 1, 2 ** 63, 2 ** 64 - 1, 2 ** 64, -2 ** 63, -2 ** 63 - 1, 2 ** 127, -2 ** 127,
       2 ** 128 - 159, 2 ** 255 - 19, -(2 ** 200), 2 ** 1024 - 105, 2 ** 2047, 2 ** 2048 - 1, -(2 ** 64), -1000]
TEXT = ["", "a", "abcdefg", "abcdefgh", "abcdefghi", "x" * 15, "x" * 16, "x" * 17, "é", "naïve café",
        "日本語", "\U0001d11e clef", "name with spaces", "x" * 255, "\x7f~"]
BYTELENS = [0, 1, 7, 8, 9, 15, 16, 17, 31, 32, 33]
DATE = [0, 1, 1000000000, 2 ** 31 - 1, 2 ** 31, 2 ** 32, 4102444800, 253402300799]
INTERVAL = [0, 1, 86400, 2 ** 31 - 1, 2 ** 31, 2 ** 32 - 1]

# attribute names the library has no value class for (Attribute.read / the value factory refuse them)
NO_VALUE_CLASS = {"Digital Signature Algorithm"}


def bytes_of(n, salt=0):
    return [(i * 73 + 5 + salt) % 256 for i in range(n)]


def enum_values(of):
    return [e.value for e in B.enum_class(of)]


def pool(kind, of):
    if kind == "int":
        return [num(x) for x in INT]
    if kind == "mask":
        return [num(x) for x in MASK]
    if kind == "long":
        return [num(x) for x in LONG]
    if kind == "bigint":
        return [num(x) for x in BIG]
    if kind == "date":
        return [num(x) for x in DATE]
    if kind == "interval":
        return [num(x) for x in INTERVAL]
    if kind == "enum":
        return [num(x) for x in enum_values(of)]
    if kind == "bool":
        return [True, False]
    if kind == "text":
        return [list(s.encode("utf-8")) for s in TEXT]
    if kind == "bytes":
        return [bytes_of(n) for n in BYTELENS]
    raise ValueError(kind)


def live_fields(cls, ver):
    return [f for f in B.S()["schema"][cls] if f["lo"] <= ver <= f["hi"]]


def class_live(cls, ver):
    s = B.S()["since"].get(cls)
    return s is None or s[0] <= ver <= s[1]


def versions_of(cls):
    return [v for v in sorted(B.VERS) if class_live(cls, v)]


def op_of_payload(cls):
    base = re.sub(r"(Request|Response)Payload$", "", cls)
    if base == "MAC":
        return B.enums.Operation.MAC
    name = re.sub(r"(?<!^)(?=[A-Z])", "_", base).upper()
    return B.enums.Operation[name]


def payload_classes(kind, ver):
    return [c for c in B.S()["schema"] if c.endswith(kind + "Payload") and class_live(c, ver)]


class NoCase(Exception):
    pass


CRED = {"UsernamePasswordCredential": 1, "DeviceCredential": 2, "AttestationCredential": 3}


class Gen(object):
    def __init__(self, rng):
        self.r = rng

    # --- kinds ---------------------------------------------------------------
    def attr_names(self, ver, by_tag):
        out = []
        for n, r in B.S()["attr"].items():
            if r["lo"] <= ver <= r["hi"] and n not in NO_VALUE_CLASS:
                out.append(n)
        return sorted(out)

    def attr_value(self, ver, by_tag, depth, name=None):
        name = name or self.r.choice(self.attr_names(ver, by_tag))
        r = B.rule_of(name)
        if r["k"] == "struct":
            v = self.obj(r["of"], ver, depth + 1)
        else:
            v = self.r.choice(pool(r["k"], r["of"]))
        return {"_name": name, "v": v}

    def attribute(self, ver, depth, name=None, index=None):
        av = self.attr_value(ver, False, depth, name)
        out = {"_k": "Attribute", "attribute_name": list(av["_name"].encode("utf-8")), "attribute_value": av}
        if index is None:
            index = self.r.random() < 0.4
        if index:
            out["attribute_index"] = num(self.r.choice([0, 1, 2, 7]))
        return out

    def tmpl(self, ver, depth, n=None):
        out = {"_k": "TemplateAttribute"}
        n = self.r.randrange(0, 4) if n is None else n
        if n:
            out["attributes"] = [self.attribute(ver if ver < 20 else 20, depth + 1, index=False if ver >= 20 else None) for _ in range(n)]
        if ver < 20 and self.r.random() < 0.2:
            out["names"] = [self.obj("Name", ver, depth + 1) for _ in range(self.r.randrange(1, 3))]
        return out

    def union(self, cls, f, ver, depth):
        if f["n"] == "credential_value":
            return None     # decided by the Credential hook
        if f["n"] in ("request_payload", "response_payload"):
            c = payload_classes("Request" if f["n"] == "request_payload" else "Response", ver)
            if not c:
                raise NoCase("no payload class defined under %d" % ver)
            return self.obj(self.r.choice(c), ver, depth + 1)
        c = UNIONS.get((cls, f["n"]))
        if c is None:
            raise KeyError("no candidates for union field %s.%s" % (cls, f["n"]))
        cands = [x for x in c if class_live(x, ver)]
        return self.obj(self.r.choice(cands), ver, depth + 1)

    def value(self, cls, f, ver, depth):
        k = f["k"]
        if k == "struct":
            if f["of"] == "Attribute":
                return self.attribute(ver, depth)
            return self.obj(f["of"], ver, depth + 1)
        if k == "attrs":
            return self.attribute(ver, depth, index=False if ver >= 20 else None)
        if k == "union":
            return self.union(cls, f, ver, depth)
        if k == "attrval":
            return self.attr_value(ver, False, depth)
        if k == "attr2":
            return self.attr_value(ver, True, depth)
        if k == "tmpl":
            return self.tmpl(ver, depth)
        p = FIELD_POOL.get((cls, f["n"]))
        if p is not None:
            return self.r.choice(p(ver) if callable(p) else p)
        return self.r.choice(pool(k, f["of"]))

    def field(self, cls, f, ver, depth, count=None):
        if f["c"] in "*+":
            lo = 1 if f["c"] == "+" else 1
            n = count if count is not None else self.r.randrange(lo, 4 if depth == 0 else 3)
            return [self.value(cls, f, ver, depth) for _ in range(n)]
        return self.value(cls, f, ver, depth)

    # --- objects ------------------------------------------------------------
    def obj(self, cls, ver, depth=0, present=None, fixed=None):
        """present: None (random) | set of optional field names to include (required always)."""
        if cls == "Attribute":
            return self.attribute(ver, depth)
        out = {"_k": cls}
        p_opt = 0.5 if depth == 0 else (0.35 if depth < 3 else 0.1)
        for f in live_fields(cls, ver):
            need = f["c"] in "1+"
            if present is None:
                take = need or self.r.random() < p_opt
            else:
                take = need or f["n"] in present
            if not take:
                continue
            if fixed and f["n"] in fixed:
                out[f["n"]] = fixed[f["n"]]
                continue
            v = self.field(cls, f, ver, depth)
            if v is not None:
                out[f["n"]] = v
        h = HOOKS.get(cls)
        if h:
            out = h(self, out, ver, depth)
        return out


# (class, field) -> candidate classes of a union field
UNIONS = {}
# (class, field) -> pool of abstract values overriding the kind's pool (list or callable(ver))
FIELD_POOL = {("ProtectionStorageMasks", "protection_storage_masks"): [num(x) for x in (1, 2, 3, 0x200, 0x3FFF)],
              # KMIP 2.0 attribute references: every attribute name the library knows, none sampled away
              ("GetAttributesRequestPayload", "attribute_references"): lambda ver: [num(x) for x in B.attribute_reference_tags()],
              ("GetAttributeListResponsePayload", "attribute_references"): lambda ver: [num(x) for x in B.attribute_reference_tags()]}
# class -> hook(gen, val, ver, depth) -> val: consistency between fields
HOOKS = {}


def _credential(g, v, ver, depth):
    if "credential_value" not in v:
        cands = [c for c in CRED if class_live(c, ver)]
        v["credential_value"] = g.obj(g.r.choice(cands), ver, depth + 1)
    v["credential_type"] = num(CRED[v["credential_value"]["_k"]])
    return v


def _attestation(g, v, ver, depth):
    if "attestation_measurement" not in v and "attestation_assertion" not in v:
        v[g.r.choice(["attestation_measurement", "attestation_assertion"])] = g.r.choice(pool("bytes", ""))
    return v


def _split_key(g, v, ver, depth):
    if unnum(v["split_key_method"]) == 3 and "prime_field_size" not in v:
        v["prime_field_size"] = g.r.choice(pool("bigint", ""))
    return v


def unnum(v):
    return B.unnum(v)


def _req_item(g, v, ver, depth):
    v["operation"] = num(op_of_payload(v["request_payload"]["_k"]).value)
    return v


def _resp_item(g, v, ver, depth):
    if "response_payload" in v:
        v["operation"] = num(op_of_payload(v["response_payload"]["_k"]).value)
    return v


def _header(g, v, ver, depth):
    # a message states the version it is encoded under
    v["protocol_version"] = {"_k": "ProtocolVersion", "major": num(ver // 10), "minor": num(ver % 10)}
    return v


def _message(g, v, ver, depth):
    hdr = "request_header" if "request_header" in v else "response_header"
    v[hdr]["batch_count"] = num(len(v["batch_items"]))
    return v


HOOKS.update({"Credential": _credential, "AttestationCredential": _attestation, "SplitKey": _split_key,
              "RequestBatchItem": _req_item, "ResponseBatchItem": _resp_item,
              "RequestMessage": _message, "ResponseMessage": _message,
              "RequestHeader": _header, "ResponseHeader": _header})


# ---------------------------------------------------------------------------
# systematic cases for one class and version

def cases(cls, ver, rng, nrandom=6, boundary=True):
    """[(label, value)]: minimal, maximal, each optional field alone / alone absent, every boundary value of
    every primitive field (others as in the maximal value), list lengths, random subsets."""
    g = Gen(rng)
    fs = live_fields(cls, ver)
    opt = [f["n"] for f in fs if f["c"] in "?*"]
    out = [("min", g.obj(cls, ver, present=set())), ("max", g.obj(cls, ver, present=set(opt)))]
    if len(opt) > 1:
        for n in opt:
            out.append(("only:" + n, g.obj(cls, ver, present={n})))
            out.append(("without:" + n, g.obj(cls, ver, present=set(opt) - {n})))
    base = g.obj(cls, ver, present=set(opt))
    if boundary:
        for f in fs:
            if f["k"] in B.PRIM_KINDS:
                p = FIELD_POOL.get((cls, f["n"]))
                vals = (p(ver) if callable(p) else p) if p is not None else pool(f["k"], f["of"])
                if f["k"] == "enum" and len(vals) > 6 and p is None:
                    vals = rng.sample(vals, 6)
                for i, bv in enumerate(vals):
                    fixed = {f["n"]: [bv] if f["c"] in "*+" else bv}
                    out.append(("bv:%s:%d" % (f["n"], i), g.obj(cls, ver, present=set(opt), fixed=fixed)))
            if f["c"] in "*+" and f["k"] != "union":
                for n in (1, 2, 3):
                    fixed = {f["n"]: g.field(cls, f, ver, 0, count=n)}
                    out.append(("len:%s:%d" % (f["n"], n), g.obj(cls, ver, present=set(opt), fixed=fixed)))
    # every attribute name the version defines, with boundary values of its kind
    if cls == "Attribute":
        for name in g.attr_names(ver, False) + ["x-custom", "y-other"]:
            for j, av in enumerate(attr_values(g, name, ver, rng)):
                a = {"_k": "Attribute", "attribute_name": list(name.encode("utf-8")), "attribute_value": av}
                if j % 3 == 1:
                    a["attribute_index"] = num(j)
                out.append(("attr:%s:%d" % (name.replace(" ", ""), j), a))
    for f in fs:
        if f["k"] == "attr2":
            for name in g.attr_names(ver, True):
                for j, av in enumerate(attr_values(g, name, ver, rng)):
                    out.append(("attr:%s:%d" % (name.replace(" ", ""), j),
                                g.obj(cls, ver, present=set(opt), fixed={f["n"]: [av] if f["c"] in "*+" else av})))
    for i in range(nrandom):
        out.append(("rnd:%d" % i, g.obj(cls, ver)))
    return out


def attr_values(g, name, ver, rng, cap=6):
    r = B.rule_of(name)
    if r["k"] == "struct":
        return [{"_name": name, "v": g.obj(r["of"], ver, 1)} for _ in range(3)]
    vals = pool(r["k"], r["of"])
    if len(vals) > cap:
        vals = vals[:2] + rng.sample(vals[2:], cap - 2)
    return [{"_name": name, "v": v} for v in vals]
