"""Record real engine executions as traces for TraceEngine.tla, and run the validation."""
import json
import logging
import os

from . import common, tlc
from . import absmap as A
from . import engdrv as D

PROBE_UID = 987654


def norm_attr(a):
    v = a.get("v")
    if v is None:
        v = "null"
    if isinstance(v, int) and not isinstance(v, bool) and v > 2147483647:
        v = 2147483647           # the specification's integers are 32-bit: larger dates are "far in the future"
    return {"name": a["name"], "idx": -1 if a.get("idx") in (None, -1) else a["idx"], "v": v}


def norm_obj(o, intern=None):
    sub = {"Certificate": o.get("ctype", "X_509"), "SecretData": o.get("dtype", "PASSWORD"),
           "OpaqueData": o.get("odtype", "NONE"), "SplitKey": A.prime_class(o.get("prime"))}.get(o["type"], "NA")
    iskey = o["type"] in ("SymmetricKey", "PublicKey", "PrivateKey", "SplitKey")
    return {"type": o["type"], "val": o.get("val", ""), "alg": o.get("alg") or "NA", "len": o.get("len") or 0,
            "fmt": (o.get("fmt") or "RAW") if iskey else "NA", "sub": sub, "wrapped": bool(o.get("wrap")),
            "vlen": len(intern.val(o["val"])) if intern is not None and o.get("val") else 0}


def vcode(ver):
    return ver[0] * 10 + ver[1]


def norm_p(op, p, ver, intern=None):
    """abstract item parameters -> the fixed-shape record the spec reads."""
    p = p or {}
    v2 = tuple(ver) >= (2, 0)
    uid = p.get("uid") or 0
    if not isinstance(uid, int):
        uid = A.to_uid(uid)
    if op == "Create":
        return {"otype": p["otype"], "attrs": [norm_attr(a) for a in p.get("attrs", [])]}
    if op == "CreateKeyPair":
        return {k: [norm_attr(a) for a in (p.get(k) or [])] for k in ("common", "priv", "pub")}
    if op == "Register":
        return {"otype": p["otype"], "attrs": [norm_attr(a) for a in p.get("attrs", [])],
                "hasobj": bool(p.get("obj")),
                "obj": norm_obj(p["obj"], intern) if p.get("obj") else norm_obj({"type": "OpaqueData"})}
    if op == "DeriveKey":
        return {"otype": p["otype"], "uids": [_nu(u) for u in p.get("uids", [])],
                "attrs": [norm_attr(a) for a in p.get("attrs", [])], "method": p.get("method", "HMAC")}
    if op == "Locate":
        return {"filters": [norm_attr(a) for a in p.get("filters", [])],
                "offset": -1 if p.get("offset") in (None, -1) else p["offset"],
                "max": -1 if p.get("max") in (None, -1) else p["max"]}
    if op == "Get":
        w = p.get("wrap")
        return {"uid": uid, "fmt": p.get("fmt") or "", "comp": p.get("comp") or "", "wrap": bool(w),
                "w": {"method": (w or {}).get("method", "ENCRYPT"), "haskey": (w or {}).get("kuid") is not None,
                      "kuid": A.to_uid((w or {}).get("kuid")) if (w or {}).get("kuid") is not None else 0,
                      "hasmac": (w or {}).get("muid") is not None, "anames": bool((w or {}).get("anames")),
                      "enc": (w or {}).get("enc", "NO_ENCODING"), "nocp": bool((w or {}).get("nocp"))}}
    if op == "GetAttributes":
        return {"uid": uid, "names": list(p.get("names") or [])}
    if op in ("GetAttributeList", "Activate", "Destroy"):
        return {"uid": uid}
    if op == "Revoke":
        return {"uid": uid, "code": p.get("code") or "UNSPECIFIED"}     # the payload's default
    if op == "Query":
        return {"qops": "QUERY_OPERATIONS" in p.get("functions", ["QUERY_OPERATIONS"])}
    if op == "DiscoverVersions":
        return {"versions": [vcode(v) for v in p.get("versions", [])]}
    if op in ("Encrypt", "Decrypt", "Sign", "SignatureVerify"):
        return {"uid": uid, "hascp": p.get("cp") is not None}
    if op == "MAC":
        return {"uid": uid, "hasalg": bool((p.get("cp") or {}).get("alg")), "hasdata": bool(p.get("data"))}
    if op == "SetAttribute":
        return {"uid": uid, "new": norm_attr(p["new"])}
    if op == "ModifyAttribute":
        if v2:
            return {"uid": uid, "hascur": bool(p.get("cur")), "cur": norm_attr(p["cur"]) if p.get("cur") else norm_attr(p["new"]),
                    "new": norm_attr(p["new"])}
        return {"uid": uid, "attr": norm_attr(p["attr"])}
    if op == "DeleteAttribute":
        if v2:
            return {"uid": uid, "hascur": bool(p.get("cur")),
                    "cur": norm_attr(p["cur"]) if p.get("cur") else {"name": "", "idx": -1, "v": ""},
                    "ref": p.get("ref") or ""}
        idx = p.get("idx", -99)
        return {"uid": uid, "name": p.get("name") or "", "idx": -99 if idx in (None, -99) else idx}
    return {"uid": uid}


def ts_class(ts):
    if ts is None:
        return "None"
    if ts > 0:
        return "Future"
    if ts <= -60:
        return "Stale"
    return "Ok"


def norm_req(req, now, intern=None):
    ver = tuple(req.get("ver", (1, 2)))
    return {"user": req.get("user") or "", "hasg": req.get("groups") is not None,
            "groups": list(req.get("groups") or []), "ver": vcode(ver), "opt": req.get("opt") or "None",
            "ts": ts_class(req.get("ts")), "async": bool(req.get("async")), "now": now,
            "items": [{"op": it["op"], "bid": it.get("bid") or "", "p": norm_p(it["op"], it.get("p"), ver, intern)}
                      for it in req["items"]]}


def _nu(x):
    return x if isinstance(x, int) and not isinstance(x, bool) else A.to_uid(x)


def result_uids(op, pl):
    if not pl:
        return []
    if op == "CreateKeyPair":
        return [_nu(pl.get("priv", 0)), _nu(pl.get("pub", 0))]
    if op == "Locate":
        return [_nu(u) for u in pl.get("uids", [])]
    if "uid" in pl:
        return [_nu(pl["uid"])]
    return []


class NotFoundTemplate(object):
    def __init__(self, text):
        s = str(PROBE_UID)
        i = text.find(s)
        self.ok = i >= 0
        self.prefix = text[:i] if i >= 0 else text
        self.suffix = text[i + len(s):] if i >= 0 else ""

    def matches(self, msg):
        if not self.ok or msg is None:
            return False
        if not (msg.startswith(self.prefix) and msg.endswith(self.suffix)):
            return False
        mid = msg[len(self.prefix):len(msg) - len(self.suffix) if self.suffix else len(msg)]
        return " " not in mid.strip() and len(mid) > 0       # the echoed identifier (which may itself be ' 1' or '1 ')


def norm_res(res, nf):
    items = []
    for it in res.get("items", []):
        pl = it.get("pl") or {}
        mc = it.get("msgc", "")
        if nf.matches(it.get("msg")) and it.get("status") != "Success":
            mc = "NotFound"
        elif mc == "NotFound":
            mc = "Other"
        items.append({"op": it["op"], "bid": it["bid"], "status": it["status"], "reason": it["reason"],
                      "mc": mc, "hasmsg": bool(it.get("hasmsg")), "uids": result_uids(it["op"], pl),
                      "attrs": ([norm_attr(a) for a in pl.get("attrs", [])] if "attrs" in pl
                                else ([norm_attr(pl["attr"])] if pl.get("attr") else [])),
                      "names": list(pl.get("names") or pl.get("ops") or []),
                      "versions": [vcode(v) for v in pl.get("versions", [])]})
    return {"kind": res["kind"], "exc": res.get("exc", ""), "reason": res.get("reason", ""),
            "mc": res.get("msgc", "") if res["kind"] == "raised" else "",
            "ver": vcode(res.get("ver", (0, 0))), "count": res.get("count", 0), "items": items,
            "unenc": bool(res.get("unenc")), "undec": bool(res.get("undec"))}


def norm_state(st):
    objs = []
    for o in st["objs"]:
        objs.append({k: o[k] for k in ("uid", "type", "owner", "policy", "state", "mask", "names", "groups",
                                       "appinfo", "sensitive", "idate", "alg", "len", "fmt", "val", "sub")})
    return {"objs": objs, "seq": st["seq"]}


def norm_pols(pols):
    out = []
    for p in pols:
        groups = []
        for g, sec in (p.get("groups") or {}).items():
            for e in sec:
                groups.append({"g": g, "t": e["t"], "op": e["op"], "perm": e["perm"]})
        out.append({"name": p["name"], "hasPreset": p.get("preset") is not None,
                    "preset": list(p.get("preset") or []), "hasGroups": p.get("groups") is not None,
                    "groups": groups})
    return out


class _GFHandler(logging.Handler):
    def __init__(self):
        logging.Handler.__init__(self, level=logging.WARNING)
        self.hit = False

    def emit(self, record):
        try:
            if "Error occurred while processing operation" in record.getMessage():
                self.hit = True
        except Exception:
            pass


class Recorder(object):
    """Runs abstract requests on a driver and records trace steps."""

    def __init__(self, drv, tid):
        self.drv = drv
        self.tid = tid
        self.steps = []
        self.raw = []            # the abstract requests, for replay files
        self.issued = set()
        self.unsendable = 0
        self.gfh = _GFHandler()
        logging.getLogger("kmip.server.engine").addHandler(self.gfh)
        self.nf = None
        self._hook()
        self._learn_template()
        st = drv.state()
        self.issued.update(o["uid"] for o in st["objs"])

    def _hook(self):
        eng = self.drv.engine
        inner = getattr(eng, "_process_operation", None)
        if inner is None:
            raise common.MachineryFailure("engine has no _process_operation to observe")
        rec = self

        def wrapper(operation, payload):
            try:
                return inner(operation, payload)
            finally:
                rec._mids.append(norm_state(rec.drv.state()))
        eng._process_operation = wrapper
        self._mids = []

    def _learn_template(self):
        r = self.drv.request(D.one("GetAttributes", {"uid": PROBE_UID}, user="__probe__"))
        msg = r["items"][0]["msg"] if r.get("items") else ""
        self.nf = NotFoundTemplate(msg)
        self._mids = []
        self.gfh.hit = False

    def close(self):
        logging.getLogger("kmip.server.engine").removeHandler(self.gfh)

    def request(self, req):
        pre = self.drv.state()
        self._mids = []
        self.gfh.hit = False
        now = int(D.CLOCK.now)
        res = self.drv.request(req)
        if res.get("kind") == "unsendable":
            self.unsendable += 1
            return res
        post = self.drv.state()
        step = {"kind": "req", "pre": norm_state(pre), "post": norm_state(post), "mids": list(self._mids),
                "executed": len(self._mids), "req": norm_req(req, now, self.drv.intern), "res": norm_res(res, self.nf),
                "issued": sorted(self.issued), "gf": bool(self.gfh.hit),
                "broken": pre["broken"] + post["broken"]}
        self.issued.update(o["uid"] for o in post["objs"])
        for m in self._mids:
            self.issued.update(o["uid"] for o in m["objs"])
        self.steps.append(step)
        self.raw.append(req)
        return res

    def restart(self):
        pre = self.drv.state()
        self.drv.restart()
        self._hook()
        post = self.drv.state()
        self.steps.append({"kind": "restart", "pre": norm_state(pre), "post": norm_state(post)})
        self.raw.append({"restart": True})

    def trace(self):
        return {"tid": self.tid, "pols": norm_pols(self.drv.abs_policies), "steps": self.steps}


SHARD_BYTES = 6000000
SHARD = 2500      # traces per TLC invocation (one JSON file each: large files made JsonDeserialize slow and fragile)


def validate(traces, workers=None, name="traces"):
    """Run TraceEngine.tla over the traces. Returns (verdicts, drifts, TLCResult)."""
    V, Dr, total = [], [], None
    # shards by volume as well as by count: a trace of a long random history weighs tens of kilobytes
    shards, cur, vol = [], [], 0
    for t in traces:
        n = len(json.dumps(t["steps"]))
        if cur and (vol + n > SHARD_BYTES or len(cur) >= SHARD):
            shards.append(cur)
            cur, vol = [], 0
        cur.append(t)
        vol += n
    if cur or not shards:
        shards.append(cur)
    for k, part in enumerate(shards):
        v, d, res = _validate(part, workers, "%s_%d" % (name, k))
        V += v
        Dr += d
        if total is None:
            total = res
        else:
            total.generated += res.generated
            total.distinct += res.distinct
            total.wall += res.wall
            total.depth = max(total.depth, res.depth)
    return V, Dr, total


def _validate(traces, workers, name):
    path = os.path.join(common.scratch(), "%s_%d.json" % (name, os.getpid()))
    polsets, index, out = [], {}, []
    for t in traces:
        key = common.jdump(t["pols"])
        if key not in index:
            polsets.append(t["pols"])
            index[key] = len(polsets)
        out.append({"tid": t["tid"], "ps": index[key], "steps": t["steps"]})
    with open(path, "w") as f:
        json.dump({"polsets": polsets, "traces": out}, f)
    cfg = tlc.write_cfg("TraceEngine_%s.cfg" % name,
                        "SPECIFICATION Spec\nCONSTANT Mut = \"none\"\nCHECK_DEADLOCK FALSE\n")
    res = tlc.run("TraceEngine", cfg, workers=workers, env={"TRACE_FILE": path}, timeout=3600, heap="12g")
    nsteps = sum(len(t["steps"]) for t in traces)
    if res.distinct != nsteps + len(traces):
        raise common.MachineryFailure("trace validation consumed %d states, expected %d"
                                      % (res.distinct, nsteps + len(traces)))
    os.unlink(path)
    return res.tag("V"), res.tag("D"), res
