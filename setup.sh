#!/bin/sh
# Offline setup: nothing is downloaded or compiled; checks import PyKMIP from /repo's working tree at run time.
cd "$(dirname "$0")" || exit 2
mkdir -p .cache evidence out
export PYTHONDONTWRITEBYTECODE=1 PYTHONWARNINGS=ignore
# parse every specification module once (fails fast on a broken spec)
for m in spec/*.tla; do
  java -cp /opt/veriftools/tla/tla2tools.jar:/opt/veriftools/tla/CommunityModules-deps.jar -DTLA-Library=spec tla2sany.SANY "$m" > .cache/sany.log 2>&1 || { echo "SANY failed on $m"; cat .cache/sany.log; exit 2; }
  if grep -q "Semantic errors\|Parse Error\|Fatal errors" .cache/sany.log; then echo "SANY errors in $m"; cat .cache/sany.log; exit 2; fi
done
# cached RSA-1024 pair used for registered key objects
/venv/bin/python -c "import sys; sys.path.insert(0, '.'); from harness import engcheck; engcheck.rsa_pair()" 2>/dev/null || exit 2
echo "setup ok"
