------------------------------ MODULE PolicyDoc ------------------------------
(* The policy-file grammar of C18: a bounded universe of JSON documents - valid
   in every documented shape, and with one defect at every position - together
   with the verdict the property prescribes: a document that is not a valid
   policy document is rejected as a whole (ValueError), a valid one is loaded.
   TLC enumerates the universe; the harness renders each abstract document to
   JSON text and feeds it to the real parser and to a real directory scan. *)
EXTENDS Naturals, Sequences, FiniteSets, TLC, Json

\* one section (a mapping object type -> operation -> permission)
\* "zero", "false", "emptystr", "emptylist", "null": values of the wrong type that are FALSY in the implementation language
SectionShapes == {"absent", "ok", "empty", "list", "string", "number", "null", "zero", "false", "emptystr", "emptylist",
                  "badtype", "ops_list", "ops_string", "ops_number", "ops_null", "badop", "badperm", "perm_number",
                  "perm_list", "perm_object", "perm_null", "perm_bool"}
SectionValid(s) == s \in {"absent", "ok", "empty"}

\* one policy
PolicyShapes == {"sections", "legacy", "empty", "list", "string", "number", "unknown_section", "mixed"}
GroupShapes == {"absent", "ok", "empty", "list", "string", "group_section_bad", "null", "zero", "false", "emptystr", "emptylist"}

LegacyShapes == {"ok", "badtype", "ops_list", "ops_string", "ops_number", "ops_null", "badop", "badperm", "perm_number",
                 "perm_list", "perm_object", "perm_null", "perm_bool"}
Policies ==
    {p \in [shape : {"sections"}, preset : SectionShapes, groups : GroupShapes] : p.preset # "absent" \/ p.groups # "absent"}
    \cup [shape : {"legacy"}, preset : LegacyShapes, groups : {"absent"}]
    \cup [shape : PolicyShapes \ {"sections", "legacy"}, preset : {"absent"}, groups : {"absent"}]

GroupsValid(g) == g \in {"absent", "ok", "empty"}

PolicyValid(p) ==
    CASE p.shape = "sections" -> SectionValid(p.preset) /\ GroupsValid(p.groups) /\ (p.preset # "absent" \/ p.groups # "absent")
      [] p.shape = "legacy" -> p.preset \in {"ok"}       \* object types directly under the policy name
      [] p.shape = "empty" -> TRUE                        \* an empty policy object is skipped
      [] OTHER -> FALSE

\* does a valid policy of this shape define the policy name at all?
PolicyDefines(p) ==
    CASE p.shape = "empty" -> FALSE
      [] OTHER -> TRUE

TopShapes == {"object", "list", "string", "number", "badjson", "emptyfile"}
Docs == [top : {"object"}, first : Policies, second : Policies \cup {[shape |-> "none", preset |-> "absent", groups |-> "absent"]}]
        \cup [top : TopShapes \ {"object"}, first : {[shape |-> "empty", preset |-> "absent", groups |-> "absent"]},
              second : {[shape |-> "none", preset |-> "absent", groups |-> "absent"]}]

DocValid(d) == /\ d.top = "object"
               /\ PolicyValid(d.first)
               /\ (d.second.shape = "none" \/ PolicyValid(d.second))

\* quick universe: the second policy is absent or a plain good one or one of a few bad ones
CONSTANT Second
VARIABLE doc
Init == doc \in {d \in Docs : d.second.shape = "none" \/ d.second \in Second}
Next == UNCHANGED doc
Spec == Init /\ [][Next]_doc

Good == [shape |-> "sections", preset |-> "ok", groups |-> "absent"]
SecondQuick == {Good, [shape |-> "list", preset |-> "absent", groups |-> "absent"],
                [shape |-> "sections", preset |-> "badperm", groups |-> "absent"]}
SecondAll == Policies

Emit == PrintT("@DOC@" \o ToJson([doc |-> doc, valid |-> DocValid(doc),
                                  defines1 |-> PolicyDefines(doc.first),
                                  defines2 |-> (doc.second.shape # "none" /\ PolicyDefines(doc.second))]))
=============================================================================
