------------------------------- MODULE MC_C10 -------------------------------
EXTENDS Concurrency
Two == [a |-> [user |-> "alice", ver |-> 12, nitems |-> 2], b |-> [user |-> "bob", ver |-> 10, nitems |-> 2]]
Three == [a |-> [user |-> "alice", ver |-> 12, nitems |-> 1], b |-> [user |-> "bob", ver |-> 10, nitems |-> 1],
          c |-> [user |-> "carol", ver |-> 20, nitems |-> 2]]
Four == [a |-> [user |-> "alice", ver |-> 12, nitems |-> 1], b |-> [user |-> "bob", ver |-> 10, nitems |-> 1],
         c |-> [user |-> "carol", ver |-> 20, nitems |-> 1], d |-> [user |-> "dave", ver |-> 14, nitems |-> 1]]
=============================================================================
