------------------------------- MODULE MC_C10 -------------------------------
(* Session families for Concurrency.tla. *)
EXTENDS Concurrency
Two == [a |-> [user |-> "alice", ver |-> 12, items |-> <<"create", "getph">>],
        b |-> [user |-> "bob", ver |-> 10, items |-> <<"query", "create">>]]
Three == [a |-> [user |-> "alice", ver |-> 12, items |-> <<"create", "getph">>],
          b |-> [user |-> "bob", ver |-> 10, items |-> <<"query">>],
          c |-> [user |-> "carol", ver |-> 20, items |-> <<"create", "query">>]]
Four == [a |-> [user |-> "alice", ver |-> 12, items |-> <<"create">>], b |-> [user |-> "bob", ver |-> 10, items |-> <<"query">>],
         c |-> [user |-> "carol", ver |-> 20, items |-> <<"getph">>], d |-> [user |-> "dave", ver |-> 14, items |-> <<"create", "getph">>]]
=============================================================================
