---------------------------- MODULE TraceSession ----------------------------
(***************************************************************************)
(* Trace validation of real KmipSession runs against SessionLoop.tla.      *)
(*                                                                         *)
(* A trace is one connection: its plan (what the harness fed: certificate  *)
(* shape, configuration, frames with announced body length, whether the    *)
(* real decoder accepts the frame in isolation, plug-in answers, trailing  *)
(* partial bytes) and the events observed from OUTSIDE the package, in     *)
(* order:                                                                  *)
(*   [e |-> "recv", n, k]     connection.recv(n) returned k bytes (0 = end)*)
(*   [e |-> "cert"]           connection.getpeercert                       *)
(*   [e |-> "slugs", k]       first HTTP request to the service of plug-in *)
(*                            number k (collapsed per plug-in)             *)
(*   [e |-> "engine", user, groups, out]   process_request entered with    *)
(*                            this identity; out = returned|kmiperr|other  *)
(*   [e |-> "send", cls]      connection.sendall with a response of class  *)
(*                            cls                                          *)
(*                                                                         *)
(* Verdicts are total: every event is consumed.                            *)
(*  "@V@" - a property predicate (C12 / C17) fails on the OBSERVED data:   *)
(*          evaluated from the plan and the events alone (ob), whether or  *)
(*          not the machine still follows.                                 *)
(*  "@D@" - the observed event is not a step of SessionLoop (model drift). *)
(*  "@OK@"- the trace was consumed in step with the machine to its end.    *)
(***************************************************************************)
EXTENDS SessionLoop, Json, IOUtils

Traces == JsonDeserialize(IOEnv.TRACE_FILE)

VARIABLES t, l, sync, ob
tvars == <<t, l, sync, ob, plan, fi, phase, need, avail, pk, enabled, ident, pending, sent, calls, asked>>

PlanOf(tr) == [cfg |-> tr.plan.cfg, tail |-> tr.plan.tail, tneed |-> tr.plan.tneed,
               frames |-> [i \in 1..Len(tr.plan.frames) |->
                             [len |-> tr.plan.frames[i].len, kind |-> tr.plan.frames[i].kind, plug |-> tr.plan.frames[i].plug]]]
Ev == Traces[t].ev

TInit == /\ t \in 1..Len(Traces) /\ l = 1 /\ sync = TRUE
         /\ ob = [sent |-> <<>>, asked |-> 0, eng |-> 0, closed |-> FALSE]
         /\ plan = PlanOf(Traces[t])
         /\ fi = 1 /\ phase = "hdr" /\ need = HeaderLen /\ avail = StreamLen(plan)
         /\ pk = 1 /\ enabled = FALSE /\ ident = NoIdent /\ pending = ""
         /\ sent = <<>> /\ calls = <<>> /\ asked = 0

mvars == <<plan, fi, phase, need, avail, pk, enabled, ident, pending, sent, calls, asked>>

--------------------------------------------------------------------------
(* the machine's silent steps (no call to the environment) *)

PluginSilent == phase = "auth" /\ pk <= Len(Frame.plug)
                /\ (Frame.plug[pk] \in {"disabled", "unsupported"} \/ Cfg.cert # "cn1")
SilentEnabled ==
    \/ (phase \in {"hdr", "body"} /\ need = 0)
    \/ phase \in {"eku", "parse", "encode", "size"}
    \/ (phase = "auth" /\ pk > Len(Frame.plug))
    \/ PluginSilent
Silent == HeaderDone \/ TailHeaderDone \/ BodyDone \/ EkuCheck \/ Parse \/ AuthEnd \/ Encode \/ SizeCheck
          \/ (PluginSilent /\ PluginStep)

\* the response classes the harness reports (AuthFail, InvalidMessage, ResponseTooLarge, GeneralFailure, Failed = any
\* other single failed item, Success, Items = several items) against the machine's pending response.  A response the
\* engine RETURNED may carry any items; one built for a raised KMIP error is a single failed item.
ClsMatches(cls, pend) ==
    CASE pend = "Response"          -> cls # "AuthFail"
      [] pend = "EngineError"       -> cls \notin {"Success", "Items", "AuthFail"}
      [] pend = "GeneralFailure"    -> cls = "GeneralFailure"
      [] pend = "ResponseTooLarge"  -> cls = "ResponseTooLarge"
      [] pend = "AuthFail"          -> cls = "AuthFail"
      [] pend = "AuthFail10"        -> cls = "AuthFail"
      [] pend = "InvalidMessage10"  -> cls = "InvalidMessage"
      [] OTHER -> FALSE

\* what the property allows as the answer to a frame (observed class)
ObsOK(want, cls) ==
    CASE want = "served"          -> cls # "AuthFail"
      [] want = "invalid"         -> cls = "InvalidMessage"
      [] want = "auth"            -> cls = "AuthFail"
      [] OTHER                    -> cls \in {"AuthFail", "InvalidMessage"}

\* does the machine accept event e now, and with which step
Accepts(e) ==
    CASE e.e = "recv" /\ e.k > 0 -> phase \in {"hdr", "body"} /\ need > 0 /\ e.n = Min2(need, MaxBuf) /\ e.k <= e.n /\ e.k <= avail
      [] e.e = "recv" /\ e.k = 0 -> phase \in {"hdr", "body"} /\ need > 0 /\ avail = 0
      [] e.e = "cert"            -> phase = "cert"
      [] e.e = "slugs"           -> phase = "auth" /\ pk = e.k /\ pk <= Len(Frame.plug) /\ ~PluginSilent
      [] e.e = "engine"          -> phase = "engine" /\ e.user = ident.user /\ e.groups = ident.groups
      [] e.e = "send"            -> phase = "send" /\ ClsMatches(e.cls, pending)
      [] OTHER -> FALSE
MachineStep(e) ==
    CASE e.e = "recv" /\ e.k > 0 -> Recv(e.k)
      [] e.e = "recv" /\ e.k = 0 -> RecvEof
      [] e.e = "cert"            -> CertCheck
      [] e.e = "slugs"           -> PluginStep
      [] e.e = "engine"          -> CallEngine
      [] e.e = "send"            -> Send

--------------------------------------------------------------------------
(* the property predicates on the observed data alone *)

NF == Len(plan.frames)
Cur == Len(ob.sent) + 1                          \* the frame an answer is owed for
UpTo(i) == SumLen(plan.frames, Min2(i, NF))
Whole(i) == i <= NF /\ ob.asked = UpTo(i)         \* frame i has been received completely, and nothing beyond it

Failing(e) ==
    CASE e.e = "recv" /\ e.k > 0 ->
            {"C12_overread" : x \in {1} \cap {y \in {1} : ob.asked + e.k > (IF Cur <= NF THEN UpTo(Cur) ELSE StreamLen(plan))}}
      [] e.e = "engine" ->
            {"C12_exec_incomplete" : x \in {y \in {1} : ~Whole(Cur)}}
            \cup {"C12_exec_undecoded" : x \in {y \in {1} : Cur <= NF /\ ~Decodable(plan.frames[Cur].kind)}}
            \cup {"C17_entry" : x \in {y \in {1} : Cur <= NF /\ Decodable(plan.frames[Cur].kind) /\
                      ~(Established(CfgOf(plan, Cur)) /\ e.user = CN /\ e.groups = EstablishedGroups(CfgOf(plan, Cur)))}}
            \cup {"C12_exec_twice" : x \in {y \in {1} : ob.eng > 0}}
      [] e.e = "send" ->
            {"C12_extra_answer" : x \in {y \in {1} : ~Whole(Cur)}}
            \cup {"C12_answer" : x \in {y \in {1} : Cur <= NF /\ Want(plan, Cur) \in {"invalid", "served"} /\ ~ObsOK(Want(plan, Cur), e.cls)}}
            \cup {"C17_refusal" : x \in {y \in {1} : Cur <= NF /\ Want(plan, Cur) \in {"auth", "auth-or-invalid"} /\ ~ObsOK(Want(plan, Cur), e.cls)}}
            \cup {"C12_not_served" : x \in {y \in {1} : Cur <= NF /\ Want(plan, Cur) = "served" /\ ob.eng = 0}}
      [] OTHER -> {}

ObsUpdate(e) ==
    CASE e.e = "recv" /\ e.k > 0 -> [ob EXCEPT !.asked = @ + e.k]
      [] e.e = "recv" /\ e.k = 0 -> [ob EXCEPT !.closed = TRUE]
      [] e.e = "engine"          -> [ob EXCEPT !.eng = @ + 1]
      [] e.e = "send"            -> [ob EXCEPT !.sent = Append(@, e.cls), !.eng = 0]
      [] OTHER -> ob

\* at the end of the stream every complete frame must have been answered, and the session must have ended
\* (a trace whose harness left the stream open - eof = FALSE - ends with the session waiting for the next header)
AtEnd == {"C12_unanswered" : x \in {y \in {1} : Len(ob.sent) < NF}}
         \cup {"C12_not_closed" : x \in {y \in {1} : Traces[t].eof /\ ~ob.closed}}
EndPhase == IF Traces[t].eof THEN phase = "closed" ELSE phase = "hdr" /\ need = HeaderLen

--------------------------------------------------------------------------
TNext ==
    \/ /\ sync /\ SilentEnabled /\ Silent
       /\ UNCHANGED <<t, l, sync, ob>>
    \/ /\ ~(sync /\ SilentEnabled) /\ l <= Len(Ev)
       /\ LET e == Ev[l]
              bad == Failing(e)
              acc == sync /\ Accepts(e) IN
          /\ bad # {} => PrintT("@V@" \o ToJson([tid |-> Traces[t].tid, i |-> l, clauses |-> bad, e |-> e.e]))
          /\ (sync /\ ~acc) => PrintT("@D@" \o ToJson([tid |-> Traces[t].tid, i |-> l, e |-> e.e, phase |-> phase]))
          /\ IF acc THEN MachineStep(e) ELSE UNCHANGED mvars
          /\ sync' = acc
          /\ ob' = ObsUpdate(e)
       /\ l' = l + 1 /\ UNCHANGED t
    \/ /\ ~(sync /\ SilentEnabled) /\ l = Len(Ev) + 1
       /\ AtEnd # {} => PrintT("@V@" \o ToJson([tid |-> Traces[t].tid, i |-> l, clauses |-> AtEnd, e |-> "end"]))
       /\ (sync /\ ~EndPhase) => PrintT("@D@" \o ToJson([tid |-> Traces[t].tid, i |-> l, e |-> "end", phase |-> phase]))
       /\ (sync /\ EndPhase) => PrintT("@OK@" \o ToJson([tid |-> Traces[t].tid]))
       /\ l' = l + 1 /\ UNCHANGED <<t, sync, ob, mvars>>

TSpec == TInit /\ [][TNext]_tvars
=============================================================================
