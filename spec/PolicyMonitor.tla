--------------------------- MODULE PolicyMonitor ---------------------------
(***************************************************************************)
(* The operation-policy directory monitor                                  *)
(* (kmip/services/server/monitor.py, PolicyDirectoryMonitor.scan_policies) *)
(* and property C18.                                                       *)
(*                                                                         *)
(* Environment: policy files (name, content, mtime, valid).  A content is  *)
(* a function from policy names to a definition token or "none".           *)
(* Monitor state ms = [pfiles, ts, pmap, cache, store]:                    *)
(*   pfiles : files seen by the last scan                                  *)
(*   ts     : file -> timestamp of the last load attempt (tracked files)   *)
(*   pmap   : policy name -> file whose definition is in force             *)
(*   cache  : policy name -> stack of <<file, definition>> shadowed entries*)
(*   store  : policy name -> definition in force (shared with the engine)  *)
(* Scan is a transcription of scan_policies, including the sorted iteration*)
(* order and the old_p / disassociate / restore_or_delete calls.           *)
(* Ghost gs = [loaded, lseq, n]: per file the content of its last          *)
(* successful load and the load sequence number.                           *)
(***************************************************************************)
EXTENDS Naturals, Integers, Sequences, FiniteSets, TLC

CONSTANTS DROP_STALE,   \* TRUE: the monitor as repaired; FALSE: the pinned behaviour (negative control)
          Files,        \* file names, as a sequence in sorted order
          Names,        \* non-reserved policy names
          Defs          \* definition tokens

FilesAB == <<"a.json", "b.json">>
FilesABC == <<"a.json", "b.json", "c.json">>
FilesABCD == <<"a.json", "b.json", "c.json", "d.json">>

Reserved == {"default", "public"}
AllNames == Names \cup Reserved
FileSet == {Files[i] : i \in DOMAIN Files}
NoFile == "-"
Absent == [present |-> FALSE, valid |-> FALSE, mtime |-> 0, content |-> [n \in AllNames |-> "none"]]

Contents == [AllNames -> Defs \cup {"none"}]
Defines(c) == {n \in AllNames : c[n] # "none"}

InitStore == [n \in AllNames |-> IF n \in Reserved THEN "builtin" ELSE "none"]
InitMs == [pfiles |-> {}, ts |-> [f \in FileSet |-> -1], pmap |-> [n \in AllNames |-> NoFile],
           cache |-> [n \in AllNames |-> <<>>], hascache |-> {}, store |-> InitStore]
InitGs == [loaded |-> [f \in FileSet |-> [n \in AllNames |-> "none"]], has |-> {}, lseq |-> [f \in FileSet |-> 0], n |-> 0]

--------------------------------------------------------------------------
(* helpers: the monitor's own methods *)

\* disassociate_policy_and_file: drop every cache entry of `p` that came from file f
Disassoc(ms, p, f) ==
    [ms EXCEPT !.cache[p] = SelectSeq(@, LAMBDA e : e[1] # f)]

\* restore_or_delete_policy
RestoreOrDelete(ms, p) ==
    LET c == ms.cache[p] IN
    IF Len(c) = 0
    THEN [ms EXCEPT !.store[p] = "none", !.pmap[p] = NoFile, !.cache[p] = <<>>, !.hascache = @ \ {p}]
    ELSE LET e == c[Len(c)] IN
         [ms EXCEPT !.store[p] = e[2], !.pmap[p] = e[1], !.cache[p] = SubSeq(c, 1, Len(c) - 1)]

RECURSIVE FoldNames(_, _, _, _)
\* apply Op(ms, name) over a set of names (the per-name effects are independent)
FoldNames(ms, S, Op(_, _), dummy) ==
    IF S = {} THEN ms
    ELSE LET n == CHOOSE x \in S : TRUE IN FoldNames(Op(ms, n), S \ {n}, Op, dummy)

\* a removed file: forget its timestamp, drop its cache entries, restore what it provided
RemoveFile(ms, f) ==
    LET m1 == [ms EXCEPT !.ts[f] = -1]
        m2 == FoldNames(m1, m1.hascache, LAMBDA m, p : Disassoc(m, p, f), 0)
        mine == {p \in AllNames : m2.pmap[p] = f} IN
    FoldNames(m2, mine, LAMBDA m, p : RestoreOrDelete(m, p), 0)

\* loading one policy of a file
LoadPolicy(ms, f, p, d) ==
    IF p \in Reserved THEN ms
    ELSE IF ms.store[p] # "none"
         THEN LET m1 == IF ms.pmap[p] # f
                        THEN [ms EXCEPT !.cache[p] = Append(@, <<ms.pmap[p], ms.store[p]>>)]
                        ELSE ms IN
              [m1 EXCEPT !.store[p] = d, !.pmap[p] = f]
         ELSE [ms EXCEPT !.cache[p] = <<>>, !.hascache = @ \cup {p}, !.store[p] = d, !.pmap[p] = f]

\* (re)loading one file whose mtime is newer than the recorded timestamp
LoadFile(ms, f, file) ==
    LET m0 == [ms EXCEPT !.ts[f] = file.mtime]
        oldp == {p \in AllNames : m0.pmap[p] = f} IN
    IF ~file.valid THEN m0
    ELSE LET newp == Defines(file.content)
             m1 == FoldNames(m0, newp, LAMBDA m, p : LoadPolicy(m, f, p, file.content[p]), 0)
             gone == oldp \ newp
             m2 ==FoldNames(m1, gone, LAMBDA m, p : RestoreOrDelete(Disassoc(m, p, f), p), 0) IN
         \* a (shadowed) file that no longer defines a name must not stay in that name's cache
         IF DROP_STALE
         THEN FoldNames(m2, m2.hascache \ newp, LAMBDA m, p : Disassoc(m, p, f), 0)
         ELSE m2

RECURSIVE LoadAll(_, _, _)
LoadAll(ms, files, i) ==
    IF i > Len(Files) THEN ms
    ELSE LET f == Files[i] IN
         \* any change of the modification time is a change of the file: a repair that restores a backup brings an OLDER
         \* time back (0 = never looked at; real modification times are >= 1)
         IF ms.ts[f] >= 0 /\ files[f].present /\ files[f].mtime # ms.ts[f]
         THEN LoadAll(LoadFile(ms, f, files[f]), files, i + 1)
         ELSE LoadAll(ms, files, i + 1)

RECURSIVE RemoveAll(_, _, _)
RemoveAll(ms, gone, i) ==
    IF i > Len(Files) THEN ms
    ELSE IF Files[i] \in gone THEN RemoveAll(RemoveFile(ms, Files[i]), gone, i + 1)
         ELSE RemoveAll(ms, gone, i + 1)

\* scan_policies
Scan(ms, files) ==
    LET present == {f \in FileSet : files[f].present}
        m1 == [ms EXCEPT !.ts = [f \in FileSet |-> IF f \in present \ ms.pfiles THEN 0 ELSE ms.ts[f]]]
        m2 == RemoveAll(m1, ms.pfiles \ present, 1)
        m3 == [m2 EXCEPT !.pfiles = present] IN
    LoadAll(m3, files, 1)

--------------------------------------------------------------------------
(* ghost: what was loaded, and the definition the property prescribes *)

RECURSIVE GhostScan(_, _, _, _)
GhostScan(gs, ms, files, i) ==     \* ms: monitor state BEFORE the scan (for the timestamps)
    IF i > Len(Files) THEN gs
    ELSE LET f == Files[i] IN
         IF ~files[f].present
         THEN GhostScan([gs EXCEPT !.has = @ \ {f}, !.loaded[f] = [n \in AllNames |-> "none"]], ms, files, i + 1)
         ELSE LET known == f \in ms.pfiles
                  t == IF known THEN ms.ts[f] ELSE 0 IN
              IF files[f].mtime # t /\ files[f].valid
              THEN GhostScan([gs EXCEPT !.has = @ \cup {f}, !.loaded[f] = files[f].content,
                                        !.lseq[f] = gs.n + 1, !.n = gs.n + 1], ms, files, i + 1)
              ELSE GhostScan(gs, ms, files, i + 1)

\* the most recently loaded file that still defines p
Definers(gs, p) == {f \in gs.has : gs.loaded[f][p] # "none"}
Ideal(gs, p) ==
    IF p \in Reserved THEN "builtin"
    ELSE IF Definers(gs, p) = {} THEN "none"
    ELSE LET f == CHOOSE x \in Definers(gs, p) : \A y \in Definers(gs, p) : gs.lseq[x] >= gs.lseq[y] IN
         gs.loaded[f][p]

C18_store(store, gs) == \A p \in AllNames : store[p] = Ideal(gs, p)
=============================================================================
