----------------------------- MODULE KmipPolicy -----------------------------
(***************************************************************************)
(* Operation-policy access decision (property C03).                        *)
(*                                                                         *)
(* A policy bundle is                                                      *)
(*   [name, hasPreset, preset, hasGroups, groups]                          *)
(* where preset is a set of entries [t, op, perm] and groups a set of      *)
(* entries [g, t, op, perm]; perm \in {"AllowAll","AllowOwner",            *)
(* "DisallowAll"}.  A missing entry is simply absent from the set.         *)
(* An identity is [user, hasg, groups] (hasg = FALSE: no group             *)
(* information at all; groups is then the empty set).                      *)
(*                                                                         *)
(* Granted     : the decision the property demands (who MAY be served).    *)
(* ImplAllowed : the decision as the engine codes it                       *)
(*               (_is_allowed_by_operation_policy -> is_allowed ->         *)
(*               get_relevant_policy_section), including its deviations:   *)
(*               an identity with group information is denied under a      *)
(*               policy without a groups section, and an empty group list  *)
(*               is denied everything.                                     *)
(* Lemma (checked by TLC over the full finite product, MC_Policy):         *)
(*               ImplAllowed => Granted.                                   *)
(***************************************************************************)
EXTENDS Naturals, Sequences, FiniteSets

Perms == {"AllowAll", "AllowOwner", "DisallowAll"}

PermAllows(perm, user, owner) ==
    \/ perm = "AllowAll"
    \/ (perm = "AllowOwner" /\ user = owner)

HasPolicy(pols, pn) == \E p \in pols : p.name = pn
PolicyOf(pols, pn) == CHOOSE p \in pols : p.name = pn

\* the permission a section gives (a set of [t, op, perm] entries)
SectionAllows(entries, user, owner, t, op) ==
    \E e \in entries : e.t = t /\ e.op = op /\ PermAllows(e.perm, user, owner)

GroupSection(p, g) == {[t |-> e.t, op |-> e.op, perm |-> e.perm] : e \in {x \in p.groups : x.g = g}}
GroupNames(p) == {e.g : e \in p.groups}

(* ---- what the property permits ---- *)
Granted(pols, pn, id, owner, t, op) ==
    /\ HasPolicy(pols, pn)
    /\ LET p == PolicyOf(pols, pn) IN
       IF id.hasg /\ p.hasGroups
       THEN \E g \in id.groups : SectionAllows(GroupSection(p, g), id.user, owner, t, op)
       ELSE p.hasPreset /\ SectionAllows(p.preset, id.user, owner, t, op)

(* ---- what the engine does ---- *)
ImplAllowedForGroup(pols, pn, user, g, useGroup, owner, t, op) ==
    /\ HasPolicy(pols, pn)
    /\ LET p == PolicyOf(pols, pn) IN
       \* "if not policy_bundle": a bundle with neither section is treated as missing
       /\ (p.hasPreset \/ p.hasGroups)
       /\ IF useGroup
          THEN /\ p.hasGroups /\ p.groups # {}
               /\ g \in GroupNames(p)
               /\ SectionAllows(GroupSection(p, g), user, owner, t, op)
          ELSE p.hasPreset /\ SectionAllows(p.preset, user, owner, t, op)

ImplAllowed(pols, pn, id, owner, t, op) ==
    IF ~id.hasg
    THEN ImplAllowedForGroup(pols, pn, id.user, "", FALSE, owner, t, op)
    ELSE \E g \in id.groups : ImplAllowedForGroup(pols, pn, id.user, g, TRUE, owner, t, op)
=============================================================================
