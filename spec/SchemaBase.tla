----------------------------- MODULE SchemaBase -----------------------------
(* Attributes, key blocks, managed objects and the other structures that    *)
(* payloads are built from (KMIP 1.x section 2 "Objects", section 3         *)
(* "Attributes"; KMIP 2.0 sections 2-4).                                    *)
EXTENDS KmipSchemaCore

Rule(k, of, t, lo, hi) == [k |-> k, of |-> of, t |-> t, lo |-> lo, hi |-> hi]

\* attribute name -> value kind, class / enumeration, KMIP 2.0 tag, versions
AttrRule ==
    "Unique Identifier" :> Rule("text", "", "UNIQUE_IDENTIFIER", 10, 20) @@
    "Name" :> Rule("struct", "Name", "NAME", 10, 20) @@
    "Object Type" :> Rule("enum", "ObjectType", "OBJECT_TYPE", 10, 20) @@
    "Cryptographic Algorithm" :> Rule("enum", "CryptographicAlgorithm", "CRYPTOGRAPHIC_ALGORITHM", 10, 20) @@
    "Cryptographic Length" :> Rule("int", "", "CRYPTOGRAPHIC_LENGTH", 10, 20) @@
    "Cryptographic Parameters" :> Rule("struct", "CryptographicParameters", "CRYPTOGRAPHIC_PARAMETERS", 10, 20) @@
    "Certificate Type" :> Rule("enum", "CertificateType", "CERTIFICATE_TYPE", 10, 20) @@
    "Certificate Length" :> Rule("int", "", "CERTIFICATE_LENGTH", 11, 20) @@
    "Digital Signature Algorithm" :> Rule("enum", "DigitalSignatureAlgorithm", "DIGITAL_SIGNATURE_ALGORITHM", 11, 20) @@
    "Digest" :> Rule("struct", "Digest", "DIGEST", 10, 20) @@
    "Operation Policy Name" :> Rule("text", "", "OPERATION_POLICY_NAME", 10, 14) @@
    "Cryptographic Usage Mask" :> Rule("mask", "", "CRYPTOGRAPHIC_USAGE_MASK", 10, 20) @@
    "Lease Time" :> Rule("interval", "", "LEASE_TIME", 10, 20) @@
    "State" :> Rule("enum", "State", "STATE", 10, 20) @@
    "Initial Date" :> Rule("date", "", "INITIAL_DATE", 10, 20) @@
    "Activation Date" :> Rule("date", "", "ACTIVATION_DATE", 10, 20) @@
    "Process Start Date" :> Rule("date", "", "PROCESS_START_DATE", 10, 20) @@
    "Protect Stop Date" :> Rule("date", "", "PROTECT_STOP_DATE", 10, 20) @@
    "Deactivation Date" :> Rule("date", "", "DEACTIVATION_DATE", 10, 20) @@
    "Destroy Date" :> Rule("date", "", "DESTROY_DATE", 10, 20) @@
    "Compromise Occurrence Date" :> Rule("date", "", "COMPROMISE_OCCURRENCE_DATE", 10, 20) @@
    "Compromise Date" :> Rule("date", "", "COMPROMISE_DATE", 10, 20) @@
    "Archive Date" :> Rule("date", "", "ARCHIVE_DATE", 10, 20) @@
    "Last Change Date" :> Rule("date", "", "LAST_CHANGE_DATE", 10, 20) @@
    "Original Creation Date" :> Rule("date", "", "ORIGINAL_CREATION_DATE", 13, 20) @@
    "Object Group" :> Rule("text", "", "OBJECT_GROUP", 10, 20) @@
    "Fresh" :> Rule("bool", "", "FRESH", 11, 20) @@
    "Application Specific Information" :> Rule("struct", "ApplicationSpecificInformation", "APPLICATION_SPECIFIC_INFORMATION", 10, 20) @@
    "Contact Information" :> Rule("text", "", "CONTACT_INFORMATION", 10, 20) @@
    "Sensitive" :> Rule("bool", "", "SENSITIVE", 14, 20) @@
    "Always Sensitive" :> Rule("bool", "", "ALWAYS_SENSITIVE", 14, 20) @@
    "Extractable" :> Rule("bool", "", "EXTRACTABLE", 14, 20) @@
    "Never Extractable" :> Rule("bool", "", "NEVER_EXTRACTABLE", 14, 20)

SchemaBaseT == [
  \* --- attributes ---------------------------------------------------------
  Attribute |-> <<
      Req("attribute_name", "ATTRIBUTE_NAME", "text"),
      Opt("attribute_index", "ATTRIBUTE_INDEX", "int"),
      Req("attribute_value", "ATTRIBUTE_VALUE", "attrval") >>,
  TemplateAttribute |-> <<
      ManyS("names", "NAME", "Name"),
      ManyS("attributes", "ATTRIBUTE", "Attribute") >>,
  Attributes |-> << Many("attributes", "", "attr2") >>,
  CurrentAttribute |-> << Req("attribute", "", "attr2") >>,
  NewAttribute |-> << Req("attribute", "", "attr2") >>,
  AttributeReference |-> <<
      Req("vendor_identification", "VENDOR_IDENTIFICATION", "text"),
      Req("attribute_name", "ATTRIBUTE_NAME", "text") >>,
  Name |-> <<
      Req("name_value", "NAME_VALUE", "text"),
      ReqE("name_type", "NAME_TYPE", "NameType") >>,
  CryptographicParameters |-> <<
      OptE("block_cipher_mode", "BLOCK_CIPHER_MODE", "BlockCipherMode"),
      OptE("padding_method", "PADDING_METHOD", "PaddingMethod"),
      OptE("hashing_algorithm", "HASHING_ALGORITHM", "HashingAlgorithm"),
      OptE("key_role_type", "KEY_ROLE_TYPE", "KeyRoleType"),
      Since(OptE("digital_signature_algorithm", "DIGITAL_SIGNATURE_ALGORITHM", "DigitalSignatureAlgorithm"), 12),
      Since(OptE("cryptographic_algorithm", "CRYPTOGRAPHIC_ALGORITHM", "CryptographicAlgorithm"), 12),
      Since(Opt("random_iv", "RANDOM_IV", "bool"), 12),
      Since(Opt("iv_length", "IV_LENGTH", "int"), 12),
      Since(Opt("tag_length", "TAG_LENGTH", "int"), 12),
      Since(Opt("fixed_field_length", "FIXED_FIELD_LENGTH", "int"), 12),
      Since(Opt("invocation_field_length", "INVOCATION_FIELD_LENGTH", "int"), 12),
      Since(Opt("counter_length", "COUNTER_LENGTH", "int"), 12),
      Since(Opt("initial_counter_value", "INITIAL_COUNTER_VALUE", "int"), 12) >>,
  Digest |-> <<
      ReqE("hashing_algorithm", "HASHING_ALGORITHM", "HashingAlgorithm"),
      Req("digest_value", "DIGEST_VALUE", "bytes"),
      Since(ReqE("key_format_type", "KEY_FORMAT_TYPE", "KeyFormatType"), 11) >>,
  ApplicationSpecificInformation |-> <<
      Req("application_namespace", "APPLICATION_NAMESPACE", "text"),
      Req("application_data", "APPLICATION_DATA", "text") >>,
  DerivationParameters |-> <<
      OptS("cryptographic_parameters", "CRYPTOGRAPHIC_PARAMETERS", "CryptographicParameters"),
      Opt("initialization_vector", "INITIALIZATION_VECTOR", "bytes"),
      Opt("derivation_data", "DERIVATION_DATA", "bytes"),
      Opt("salt", "SALT", "bytes"),
      Opt("iteration_count", "ITERATION_COUNT", "int") >>,
  RevocationReason |-> <<
      ReqE("revocation_code", "REVOCATION_REASON_CODE", "RevocationReasonCode"),
      Opt("revocation_message", "REVOCATION_MESSAGE", "text") >>,
  ProtectionStorageMasks |-> << Many("protection_storage_masks", "PROTECTION_STORAGE_MASK", "mask") >>,
  \* --- key blocks -----------------------------------------------------------
  KeyBlock |-> <<
      ReqE("key_format_type", "KEY_FORMAT_TYPE", "KeyFormatType"),
      OptE("key_compression_type", "KEY_COMPRESSION_TYPE", "KeyCompressionType"),
      ReqS("key_value", "KEY_VALUE", "KeyValue"),
      OptE("cryptographic_algorithm", "CRYPTOGRAPHIC_ALGORITHM", "CryptographicAlgorithm"),
      Opt("cryptographic_length", "CRYPTOGRAPHIC_LENGTH", "int"),
      OptS("key_wrapping_data", "KEY_WRAPPING_DATA", "KeyWrappingData") >>,
  KeyValue |-> <<
      Req("key_material", "KEY_MATERIAL", "bytes"),
      Until(ManyS("attributes", "ATTRIBUTE", "Attribute"), 14) >>,
  KeyWrappingData |-> <<
      ReqE("wrapping_method", "WRAPPING_METHOD", "WrappingMethod"),
      OptS("encryption_key_information", "ENCRYPTION_KEY_INFORMATION", "EncryptionKeyInformation"),
      OptS("mac_signature_key_information", "MAC_SIGNATURE_KEY_INFORMATION", "MACSignatureKeyInformation"),
      Opt("mac_signature", "MAC_SIGNATURE", "bytes"),
      Opt("iv_counter_nonce", "IV_COUNTER_NONCE", "bytes"),
      Since(OptE("encoding_option", "ENCODING_OPTION", "EncodingOption"), 11) >>,
  KeyWrappingSpecification |-> <<
      ReqE("wrapping_method", "WRAPPING_METHOD", "WrappingMethod"),
      OptS("encryption_key_information", "ENCRYPTION_KEY_INFORMATION", "EncryptionKeyInformation"),
      OptS("mac_signature_key_information", "MAC_SIGNATURE_KEY_INFORMATION", "MACSignatureKeyInformation"),
      Many("attribute_names", "ATTRIBUTE_NAME", "text"),
      Since(OptE("encoding_option", "ENCODING_OPTION", "EncodingOption"), 11) >>,
  EncryptionKeyInformation |-> <<
      Req("unique_identifier", "UNIQUE_IDENTIFIER", "text"),
      OptS("cryptographic_parameters", "CRYPTOGRAPHIC_PARAMETERS", "CryptographicParameters") >>,
  MACSignatureKeyInformation |-> <<
      Req("unique_identifier", "UNIQUE_IDENTIFIER", "text"),
      OptS("cryptographic_parameters", "CRYPTOGRAPHIC_PARAMETERS", "CryptographicParameters") >>,
  \* --- managed objects ---------------------------------------------------------
  Certificate |-> <<
      ReqE("certificate_type", "CERTIFICATE_TYPE", "CertificateType"),
      Req("certificate_value", "CERTIFICATE_VALUE", "bytes") >>,
  SymmetricKey |-> << ReqS("key_block", "KEY_BLOCK", "KeyBlock") >>,
  PublicKey |-> << ReqS("key_block", "KEY_BLOCK", "KeyBlock") >>,
  PrivateKey |-> << ReqS("key_block", "KEY_BLOCK", "KeyBlock") >>,
  SplitKey |-> <<
      Req("split_key_parts", "SPLIT_KEY_PARTS", "int"),
      Req("key_part_identifier", "KEY_PART_IDENTIFIER", "int"),
      Req("split_key_threshold", "SPLIT_KEY_THRESHOLD", "int"),
      ReqE("split_key_method", "SPLIT_KEY_METHOD", "SplitKeyMethod"),
      Opt("prime_field_size", "PRIME_FIELD_SIZE", "bigint"),
      ReqS("key_block", "KEY_BLOCK", "KeyBlock") >>,
  Template |-> << SomeS("attributes", "ATTRIBUTE", "Attribute") >>,
  SecretData |-> <<
      ReqE("secret_data_type", "SECRET_DATA_TYPE", "SecretDataType"),
      ReqS("key_block", "KEY_BLOCK", "KeyBlock") >>,
  OpaqueObject |-> <<
      ReqE("opaque_data_type", "OPAQUE_DATA_TYPE", "OpaqueDataType"),
      Req("opaque_data_value", "OPAQUE_DATA_VALUE", "bytes") >>,
  \* --- credentials, nonces, versions ---------------------------------------
  ProtocolVersion |-> <<
      Req("major", "PROTOCOL_VERSION_MAJOR", "int"),
      Req("minor", "PROTOCOL_VERSION_MINOR", "int") >>,
  Nonce |-> <<
      Req("nonce_id", "NONCE_ID", "bytes"),
      Req("nonce_value", "NONCE_VALUE", "bytes") >>,
  Credential |-> <<
      ReqE("credential_type", "CREDENTIAL_TYPE", "CredentialType"),
      Card(F("credential_value", "CREDENTIAL_VALUE", "union", "", "1", 10, 20), "1") >>,
  UsernamePasswordCredential |-> <<
      Req("username", "USERNAME", "text"),
      Opt("password", "PASSWORD", "text") >>,
  DeviceCredential |-> <<
      Opt("device_serial_number", "DEVICE_SERIAL_NUMBER", "text"),
      Opt("password", "PASSWORD", "text"),
      Opt("device_identifier", "DEVICE_IDENTIFIER", "text"),
      Opt("network_identifier", "NETWORK_IDENTIFIER", "text"),
      Opt("machine_identifier", "MACHINE_IDENTIFIER", "text"),
      Opt("media_identifier", "MEDIA_IDENTIFIER", "text") >>,
  AttestationCredential |-> <<
      ReqS("nonce", "NONCE", "Nonce"),
      ReqE("attestation_type", "ATTESTATION_TYPE", "AttestationType"),
      Opt("attestation_measurement", "ATTESTATION_MEASUREMENT", "bytes"),
      Opt("attestation_assertion", "ATTESTATION_ASSERTION", "bytes") >>,
  Authentication |-> << SomeS("credentials", "CREDENTIAL", "Credential") >>
]

ClassTagBase == [
  Attribute |-> "ATTRIBUTE", TemplateAttribute |-> "TEMPLATE_ATTRIBUTE", Attributes |-> "ATTRIBUTES",
  CurrentAttribute |-> "CURRENT_ATTRIBUTE", NewAttribute |-> "NEW_ATTRIBUTE", AttributeReference |-> "ATTRIBUTE_REFERENCE",
  Name |-> "NAME", CryptographicParameters |-> "CRYPTOGRAPHIC_PARAMETERS", Digest |-> "DIGEST",
  ApplicationSpecificInformation |-> "APPLICATION_SPECIFIC_INFORMATION", DerivationParameters |-> "DERIVATION_PARAMETERS",
  RevocationReason |-> "REVOCATION_REASON", ProtectionStorageMasks |-> "PROTECTION_STORAGE_MASKS",
  KeyBlock |-> "KEY_BLOCK", KeyValue |-> "KEY_VALUE", KeyWrappingData |-> "KEY_WRAPPING_DATA",
  KeyWrappingSpecification |-> "KEY_WRAPPING_SPECIFICATION", EncryptionKeyInformation |-> "ENCRYPTION_KEY_INFORMATION",
  MACSignatureKeyInformation |-> "MAC_SIGNATURE_KEY_INFORMATION",
  Certificate |-> "CERTIFICATE", SymmetricKey |-> "SYMMETRIC_KEY", PublicKey |-> "PUBLIC_KEY", PrivateKey |-> "PRIVATE_KEY",
  SplitKey |-> "SPLIT_KEY", Template |-> "TEMPLATE", SecretData |-> "SECRET_DATA", OpaqueObject |-> "OPAQUE_OBJECT",
  ProtocolVersion |-> "PROTOCOL_VERSION", Nonce |-> "NONCE", Credential |-> "CREDENTIAL",
  UsernamePasswordCredential |-> "CREDENTIAL_VALUE", DeviceCredential |-> "CREDENTIAL_VALUE",
  AttestationCredential |-> "CREDENTIAL_VALUE", Authentication |-> "AUTHENTICATION" ]

\* classes that only some versions define: <<first, last>>
ClassSinceBase == [
  Attributes |-> <<20, 20>>, CurrentAttribute |-> <<20, 20>>, NewAttribute |-> <<20, 20>>, AttributeReference |-> <<20, 20>>,
  ProtectionStorageMasks |-> <<20, 20>>, Attribute |-> <<10, 14>>, TemplateAttribute |-> <<10, 14>>, Template |-> <<10, 14>>,
  AttestationCredential |-> <<12, 20>>, Nonce |-> <<12, 20>>, DeviceCredential |-> <<11, 20>> ]
=============================================================================
