----------------------------- MODULE ClientLoop -----------------------------
(***************************************************************************)
(* The client's side of one exchange (KMIPProtocol.write / read /          *)
(* _recv_all in kmip/services/kmip_protocol.py, called by KMIPProxy for    *)
(* every request): send the request, then receive exactly one response     *)
(* frame - 8 header bytes, then as many body bytes as the header           *)
(* announces - however the transport splits it.  One action per socket     *)
(* call.  Property C19 (framing half): a call returns only after it has    *)
(* consumed exactly one whole frame, never a byte of what follows it, and  *)
(* it raises when the stream ends before the frame is complete.            *)
(*                                                                         *)
(* A PLAN is what the transport holds for the client after the request was *)
(* sent: [len, extra, cut]                                                 *)
(*   len   : body length announced by the response header                  *)
(*   extra : bytes that follow the frame on the stream (a later response)  *)
(*   cut   : how many bytes the transport delivers before it ends          *)
(*           (cut >= 8 + len: the whole frame arrives)                     *)
(***************************************************************************)
EXTENDS Naturals, Sequences, FiniteSets, TLC

CONSTANTS Plans,
          OVERREAD      \* negative control: recv asks for a fixed buffer size instead of what the frame still needs

HeaderLen == 8
Buf == 4              \* the fixed buffer size of the negative control

VARIABLES plan, phase, need, avail, consumed, outcome
cvars == <<plan, phase, need, avail, consumed, outcome>>

Min2(a, b) == IF a < b THEN a ELSE b
FrameLen(p) == HeaderLen + p.len

CInit == /\ plan \in Plans
         /\ phase = "send" /\ need = 0 /\ consumed = 0 /\ outcome = "none"
         /\ avail = Min2(plan.cut, FrameLen(plan) + plan.extra)

Send == /\ phase = "send"
        /\ phase' = "hdr" /\ need' = HeaderLen
        /\ UNCHANGED <<plan, avail, consumed, outcome>>

\* one recv(need) returning k >= 1 bytes
Recv(k) ==
    /\ phase \in {"hdr", "body"} /\ need > 0
    /\ LET ask == IF OVERREAD THEN Buf ELSE need IN
       /\ k \in 1..Min2(ask, avail)
       /\ need' = (IF k >= need THEN 0 ELSE need - k)
       /\ avail' = avail - k /\ consumed' = consumed + k
    /\ UNCHANGED <<plan, phase, outcome>>

\* recv returns b'': the stream ended
RecvEof ==
    /\ phase \in {"hdr", "body"} /\ need > 0 /\ avail = 0
    /\ phase' = "done"
    /\ outcome' = IF phase = "hdr" /\ need = HeaderLen THEN "eof" ELSE "mismatch"    \* EOFError / RequestLengthMismatch
    /\ UNCHANGED <<plan, need, avail, consumed>>

HeaderDone ==
    /\ phase = "hdr" /\ need = 0
    /\ phase' = "body" /\ need' = plan.len
    /\ UNCHANGED <<plan, avail, consumed, outcome>>

BodyDone ==
    /\ phase = "body" /\ need = 0
    /\ phase' = "done" /\ outcome' = "delivered"
    /\ UNCHANGED <<plan, need, avail, consumed>>

CNext == Send \/ (\E k \in 1..(HeaderLen + Buf) : Recv(k)) \/ RecvEof \/ HeaderDone \/ BodyDone
CSpec == CInit /\ [][CNext]_cvars

\* properties
Whole(p) == p.cut >= FrameLen(p)
DeliversExactlyOneFrame == outcome = "delivered" => consumed = FrameLen(plan)
NoOverRead == consumed <= FrameLen(plan)
RaisesOnShortStream == phase = "done" => (outcome = "delivered" <=> Whole(plan))
=============================================================================
