----------------------------- MODULE TraceClient -----------------------------
(* Trace validation of real client exchanges (ProxyKmipClient over KMIPProxy over KMIPProtocol) against ClientLoop.tla.
   One record per client call: the plan (body length the response header announces, bytes the transport delivers before it
   ends), the socket events in order ([e |-> "send"], [e |-> "recv", n, k]) and what the call did (kind = "returned",
   "op_failure" or "raised").  Total verdicts:
     "@V@" a C19 framing predicate fails on the observed data alone;
     "@D@" an event is not a step of ClientLoop (drift);  "@OK@" consumed in step to the end. *)
EXTENDS ClientLoop, Json, IOUtils

Recs == JsonDeserialize(IOEnv.TRACE_FILE)

VARIABLES t, l, sync, got
tvars == <<t, l, sync, got, plan, phase, need, avail, consumed, outcome>>
mvars == <<plan, phase, need, avail, consumed, outcome>>

PlanOf(r) == [len |-> r.plan.len, extra |-> r.plan.extra, cut |-> r.plan.cut]
Ev == Recs[t].ev

TInit == /\ t \in 1..Len(Recs) /\ l = 1 /\ sync = TRUE /\ got = 0
         /\ plan = PlanOf(Recs[t])
         /\ phase = "send" /\ need = 0 /\ consumed = 0 /\ outcome = "none"
         /\ avail = Min2(plan.cut, FrameLen(plan) + plan.extra)

SilentEnabled == phase \in {"hdr", "body"} /\ need = 0
Silent == HeaderDone \/ BodyDone

Accepts(e) ==
    CASE e.e = "send" -> phase = "send"
      [] e.e = "recv" /\ e.k > 0 -> phase \in {"hdr", "body"} /\ need > 0 /\ e.n = need /\ e.k <= need /\ e.k <= avail
      [] e.e = "recv" /\ e.k = 0 -> phase \in {"hdr", "body"} /\ need > 0 /\ avail = 0
      [] OTHER -> FALSE
MachineStep(e) ==
    CASE e.e = "send" -> Send
      [] e.e = "recv" /\ e.k > 0 -> Recv(e.k)
      [] OTHER -> RecvEof

\* the property on the observed data: bytes the client took from the transport, and what the call did
AtEnd ==
    LET r == Recs[t]  whole == r.plan.cut >= FrameLen(plan) IN
    {"C19_short_stream_not_reported" : x \in {y \in {1} : ~whole /\ r.kind # "raised"}}
    \cup {"C19_overread" : x \in {y \in {1} : got > FrameLen(plan)}}
    \cup {"C19_incomplete_read" : x \in {y \in {1} : r.kind \in {"returned", "op_failure"} /\ got # FrameLen(plan)}}

TNext ==
    \/ /\ sync /\ SilentEnabled /\ Silent /\ UNCHANGED <<t, l, sync, got>>
    \/ /\ ~(sync /\ SilentEnabled) /\ l <= Len(Ev)
       /\ LET e == Ev[l]  acc == sync /\ Accepts(e) IN
          /\ (sync /\ ~acc) => PrintT("@D@" \o ToJson([id |-> Recs[t].id, i |-> l, e |-> e.e, phase |-> phase]))
          /\ IF acc THEN MachineStep(e) ELSE UNCHANGED mvars
          /\ sync' = acc
          /\ got' = IF e.e = "recv" THEN got + e.k ELSE got
       /\ l' = l + 1 /\ UNCHANGED t
    \/ /\ ~(sync /\ SilentEnabled) /\ l = Len(Ev) + 1
       /\ AtEnd # {} => PrintT("@V@" \o ToJson([id |-> Recs[t].id, clauses |-> AtEnd]))
       /\ (sync /\ phase = "done") => PrintT("@OK@" \o ToJson([id |-> Recs[t].id]))
       /\ (sync /\ phase # "done") => PrintT("@D@" \o ToJson([id |-> Recs[t].id, i |-> l, e |-> "end", phase |-> phase]))
       /\ l' = l + 1 /\ UNCHANGED <<t, sync, got, mvars>>

TSpec == TInit /\ [][TNext]_tvars
=============================================================================
