----------------------------- MODULE KmipTypes -----------------------------
(***************************************************************************)
(* Vocabulary shared by every PyKMIP specification module: object types,   *)
(* lifecycle states, operations, usage-mask bits, protocol versions and    *)
(* the attribute rule table.                                               *)
(*                                                                         *)
(* Versions are integers major*10+minor (1.0 = 10 ... 2.0 = 20).            *)
(* The attribute rule table is a second, independent copy of the table in  *)
(* kmip/services/server/policy.py, pinned against the unchanged tree; the  *)
(* flags the properties rely on (modifiable / deletable / multi-valued /   *)
(* added / deprecated) follow KMIP 1.0-2.0 section 3 "Attributes".         *)
(***************************************************************************)
EXTENDS Naturals, Integers, Sequences, FiniteSets

NoUid == 0

KeyTypes    == {"SymmetricKey", "PublicKey", "PrivateKey", "SplitKey"}
StoredTypes == KeyTypes \cup {"Certificate", "SecretData", "OpaqueData"}
AllTypes    == StoredTypes \cup {"Template"}

\* which Python class fields an object of each type has (reading a field an
\* object does not have is an unanticipated exception in the engine)
HasState(t) == t # "OpaqueData"
HasMask(t)  == t # "OpaqueData"
HasAlg(t)   == t \in KeyTypes
HasFmt(t)   == t \in KeyTypes

LcStates == {"PreActive", "Active", "Deactivated", "Compromised", "Destroyed", "DestroyedCompromised"}
Rank(s) == CASE s = "PreActive" -> 0 [] s = "Active" -> 1 [] s = "Deactivated" -> 2
             [] s = "Compromised" -> 3 [] s = "Destroyed" -> 4 [] s = "DestroyedCompromised" -> 5
             [] OTHER -> 0

SupportedVersions == {10, 11, 12, 13, 14, 20}
VersionsDescending == <<20, 14, 13, 12, 11, 10>>

ServerOps == {"Create", "CreateKeyPair", "Register", "DeriveKey", "Locate", "Get", "GetAttributes",
              "GetAttributeList", "Activate", "Revoke", "Destroy", "Query", "DiscoverVersions",
              "Encrypt", "Decrypt", "Sign", "SignatureVerify", "MAC", "SetAttribute",
              "ModifyAttribute", "DeleteAttribute"}

MinVersion(op) == CASE op = "DiscoverVersions" -> 11
                    [] op \in {"Encrypt", "Decrypt", "Sign", "SignatureVerify", "MAC"} -> 12
                    [] op = "SetAttribute" -> 20
                    [] OTHER -> 10

\* the operation whose policy entry governs an operation (engine.py comments:
\* cryptographic uses and base/wrapping keys are governed by Get)
GoverningOp(op) == IF op \in {"Encrypt", "Decrypt", "Sign", "SignatureVerify", "MAC", "DeriveKey", "WrapKeyUse"}
                   THEN "Get" ELSE op

CryptoUses == {"Encrypt", "Decrypt", "Sign", "SignatureVerify", "MAC"}
KindFor(op) == CASE op \in {"Encrypt", "Decrypt"} -> {"SymmetricKey"}
                 [] op = "Sign" -> {"PrivateKey"}
                 [] op = "SignatureVerify" -> {"PublicKey"}
                 [] op = "MAC" -> StoredTypes \ {"OpaqueData"}
                 [] OTHER -> {}
BitFor(op) == CASE op = "Encrypt" -> "ENCRYPT" [] op = "Decrypt" -> "DECRYPT" [] op = "Sign" -> "SIGN"
                [] op = "SignatureVerify" -> "VERIFY" [] op = "MAC" -> "MAC_GENERATE"
                [] op = "DeriveKey" -> "DERIVE_KEY" [] op = "WrapKeyUse" -> "WRAP_KEY" [] OTHER -> "NONE"

QueryOps(v) == <<"Create", "CreateKeyPair", "Register", "DeriveKey", "Locate", "Get", "GetAttributes",
                 "GetAttributeList", "Activate", "Revoke", "Destroy", "Query">>
               \o (IF v >= 11 THEN <<"DiscoverVersions">> ELSE <<>>)
               \o (IF v >= 12 THEN <<"Encrypt", "Decrypt", "Sign", "SignatureVerify", "MAC">> ELSE <<>>)

\* symmetric algorithms / key sizes the Create operation accepts (subset modelled)
SymKeySizes(alg) == CASE alg = "AES" -> {128, 192, 256}
                      [] alg = "TRIPLE_DES" -> {64, 128, 192}
                      [] alg = "CAMELLIA" -> {128, 192, 256}
                      [] OTHER -> {}

--------------------------------------------------------------------------
(* attribute rule table, in the engine's reporting order *)

AllT   == {"Certificate", "SymmetricKey", "PublicKey", "PrivateKey", "SplitKey", "Template", "SecretData", "OpaqueData"}
CertKeysT == {"Certificate", "SymmetricKey", "PublicKey", "PrivateKey", "SplitKey", "Template"}
NoTplT == {"Certificate", "SymmetricKey", "PublicKey", "PrivateKey", "SplitKey", "SecretData", "OpaqueData"}

R(n, m, d, mu, a, dp, ts) == [name |-> n, mod |-> m, del |-> d, multi |-> mu, added |-> a, depr |-> dp, types |-> ts]

AttrRules == <<
  R("Unique Identifier", FALSE, FALSE, FALSE, 10, 0, AllT),
  R("Name", TRUE, TRUE, TRUE, 10, 0, AllT),
  R("Object Type", FALSE, FALSE, FALSE, 10, 0, AllT),
  R("Cryptographic Algorithm", FALSE, FALSE, FALSE, 10, 0, CertKeysT),
  R("Cryptographic Length", FALSE, FALSE, FALSE, 10, 0, CertKeysT),
  R("Cryptographic Parameters", TRUE, TRUE, TRUE, 10, 0, CertKeysT),
  R("Cryptographic Domain Parameters", FALSE, FALSE, FALSE, 10, 0, {"PublicKey", "PrivateKey", "Template"}),
  R("Certificate Type", FALSE, FALSE, FALSE, 10, 0, {"Certificate"}),
  R("Certificate Length", FALSE, FALSE, FALSE, 11, 0, {"Certificate"}),
  R("X.509 Certificate Identifier", FALSE, FALSE, FALSE, 11, 0, {"Certificate"}),
  R("X.509 Certificate Subject", FALSE, FALSE, FALSE, 11, 0, {"Certificate"}),
  R("X.509 Certificate Issuer", FALSE, FALSE, FALSE, 11, 0, {"Certificate"}),
  R("Certificate Identifier", FALSE, FALSE, FALSE, 10, 11, {"Certificate"}),
  R("Certificate Subject", FALSE, FALSE, FALSE, 10, 11, {"Certificate"}),
  R("Certificate Issuer", FALSE, FALSE, FALSE, 10, 11, {"Certificate"}),
  R("Digital Signature Algorithm", FALSE, FALSE, FALSE, 11, 0, {"Certificate"}),
  R("Digest", FALSE, FALSE, TRUE, 10, 0, NoTplT),
  R("Operation Policy Name", FALSE, FALSE, FALSE, 10, 20, AllT),
  R("Cryptographic Usage Mask", FALSE, FALSE, FALSE, 10, 0, AllT \ {"OpaqueData"}),
  R("Lease Time", FALSE, FALSE, FALSE, 10, 0, NoTplT \ {"OpaqueData"}),
  R("Usage Limits", TRUE, TRUE, FALSE, 10, 0, {"SymmetricKey", "PublicKey", "PrivateKey", "SplitKey", "Template"}),
  R("State", FALSE, FALSE, FALSE, 10, 0, NoTplT \ {"OpaqueData"}),
  R("Initial Date", FALSE, FALSE, FALSE, 10, 0, AllT),
  R("Activation Date", TRUE, FALSE, FALSE, 10, 0, AllT \ {"OpaqueData"}),
  R("Process Start Date", TRUE, FALSE, FALSE, 10, 0, {"SymmetricKey", "SplitKey", "Template"}),
  R("Protect Stop Date", TRUE, FALSE, FALSE, 10, 0, {"SymmetricKey", "SplitKey", "Template"}),
  R("Deactivation Date", TRUE, FALSE, FALSE, 10, 0, AllT \ {"OpaqueData"}),
  R("Destroy Date", FALSE, FALSE, FALSE, 10, 0, NoTplT),
  R("Compromise Occurrence Date", FALSE, FALSE, FALSE, 10, 0, NoTplT),
  R("Compromise Date", FALSE, FALSE, FALSE, 10, 0, NoTplT),
  R("Revocation Reason", FALSE, FALSE, FALSE, 10, 0, NoTplT),
  R("Archive Date", FALSE, FALSE, FALSE, 10, 0, AllT),
  R("Object Group", TRUE, TRUE, TRUE, 10, 0, AllT),
  R("Fresh", FALSE, FALSE, FALSE, 11, 0, AllT),
  R("Link", TRUE, TRUE, TRUE, 10, 0, AllT),
  R("Application Specific Information", TRUE, TRUE, TRUE, 10, 0, AllT),
  R("Contact Information", TRUE, TRUE, FALSE, 10, 0, AllT),
  R("Last Change Date", FALSE, FALSE, FALSE, 10, 0, AllT),
  R("Custom Attribute", TRUE, TRUE, TRUE, 10, 0, AllT),
  R("Sensitive", TRUE, FALSE, FALSE, 14, 0, AllT)
>>

RuleNames == {AttrRules[i].name : i \in DOMAIN AttrRules}
HasRule(n) == n \in RuleNames
Rule(n) == AttrRules[CHOOSE i \in DOMAIN AttrRules : AttrRules[i].name = n]

AttrSupported(n, v)  == HasRule(n) /\ v >= Rule(n).added
AttrDeprecated(n, v) == Rule(n).depr # 0 /\ v >= Rule(n).depr
AttrApplicable(n, t) == t \in Rule(n).types
AttrMulti(n)         == Rule(n).multi
AttrModifiable(n)    == Rule(n).mod
AttrDeletable(n)     == Rule(n).del

\* attributes the engine can actually read from a stored object
StoredAttrs == {"Unique Identifier", "Name", "Object Type", "Cryptographic Algorithm", "Cryptographic Length",
                "Certificate Type", "Operation Policy Name", "Cryptographic Usage Mask", "State", "Initial Date",
                "Object Group", "Application Specific Information", "Sensitive"}
\* attributes that must never change through Set/Modify/DeleteAttribute (C15)
FixedAttrs == {"Unique Identifier", "Object Type", "State", "Operation Policy Name", "Cryptographic Usage Mask",
               "Cryptographic Algorithm", "Cryptographic Length", "Initial Date"}

--------------------------------------------------------------------------
(* small helpers *)
Range(s) == {s[i] : i \in DOMAIN s}
Max2(a, b) == IF a >= b THEN a ELSE b
Min2(a, b) == IF a <= b THEN a ELSE b
SeqRemoveAt(s, i) == [j \in 1..(Len(s) - 1) |-> IF j < i THEN s[j] ELSE s[j + 1]]
SeqCount(s, x) == Cardinality({i \in DOMAIN s : s[i] = x})
FirstIndex(s, x) == IF \E i \in DOMAIN s : s[i] = x THEN CHOOSE i \in DOMAIN s : s[i] = x /\ \A j \in 1..(i-1) : s[j] # x ELSE 0
HasDup(s) == \E i, j \in DOMAIN s : i # j /\ s[i] = s[j]
=============================================================================
