--------------------------- MODULE MC_SessionLoop ---------------------------
(* Model-checking harness for SessionLoop.tla: every connection plan of a
   bounded family is an initial state; the transport's chunking is the
   nondeterministic choice of k in Recv(k).  MaxBuf = 4 stands for 4096: a
   body of 5 bytes needs at least two recv calls however the transport
   behaves, a body of 3 or a header of 8 may or may not be split.          *)
EXTENDS SessionLoop

MCMaxBuf == 4
Lens == {0, 5}
PlugMenu == {<<>>, <<"ok">>, <<"user404">>, <<"disabled", "okB">>, <<"unreachable", "ok">>, <<"unsupported">>}
CfgMenu == [cert : {"absent", "cn1", "cn2"}, eku : {"client", "other"}, tlsauth : BOOLEAN]
FrameMenu == [len : Lens, kind : Kinds, plug : PlugMenu]
\* the second frame varies less in the quick family
FrameMenu2 == [len : {5}, kind : {"ok", "undec", "big"}, plug : {<<>>, <<"user404">>, <<"ok">>}]
Tails == {<<0, 0>>, <<3, 0>>, <<9, 5>>}     \* <<bytes of an incomplete frame, body length its header announces>>

\* (record-set products filtered by a predicate: TLC enumerates those in linear time; a three-variable set comprehension
\* of the same 8 640 plans took 75 s to normalise)
TailOK(p) == <<p.tail, p.tneed>> \in Tails
FrameMenuQ == [len : Lens, kind : Kinds, plug : {<<>>, <<"ok">>, <<"user404">>, <<"disabled", "okB">>}]
FrameMenuQ2 == [len : {5}, kind : {"ok", "undec"}, plug : {<<>>, <<"user404">>}]
FramesQ == {<<f>> : f \in FrameMenu} \cup (FrameMenu \X FrameMenu2)
FramesT == {<<f>> : f \in FrameMenu} \cup (FrameMenu \X FrameMenu) \cup (FrameMenu2 \X FrameMenu2 \X FrameMenu2)
PlansQuick == {p \in [cfg : CfgMenu, frames : FramesQ, tail : {0, 3, 9}, tneed : {0, 5}] : TailOK(p)}
PlansThorough == {p \in [cfg : CfgMenu, frames : FramesT, tail : {0, 3, 9}, tneed : {0, 5}] : TailOK(p)}

\* negative control: a receive loop that asks for a full buffer regardless of what the frame still needs
\* (the recv argument is min(need, MaxBuf) in the code); modelled by letting Recv over-consume
OverRecv(k) ==
    /\ phase \in {"hdr", "body"} /\ need > 0
    /\ k \in 1..Min2(MaxBuf, avail)
    /\ need' = (IF k >= need THEN 0 ELSE need - k) /\ avail' = avail - k /\ asked' = asked + k
    /\ UNCHANGED <<plan, fi, phase, pk, enabled, ident, pending, sent, calls>>
NegNext == SNext \/ \E k \in 1..MaxBuf : OverRecv(k)
NegSpec == SInit /\ [][NegNext]_svars

\* negative control: the engine is called although authentication failed
BadAuthEnd ==
    /\ phase = "auth" /\ pk > Len(Frame.plug) /\ enabled
    /\ ident' = [user |-> CN, groups |-> NoGroups] /\ phase' = "engine"
    /\ UNCHANGED <<plan, fi, need, avail, pk, enabled, pending, sent, calls, asked>>
Neg2Next == SNext \/ BadAuthEnd
Neg2Spec == SInit /\ [][Neg2Next]_svars
=============================================================================
