------------------------------ MODULE MC_C14 ------------------------------
(* C14: Locate returns exactly the permitted, matching objects, newest first.
   Stores of up to three objects of mixed types / owners / policies / states
   (equal initial dates for the two halves of a key pair), conjunctions of up
   to two attribute filters from the full filter list, offsets and maxima
   0..3, two requesters. *)
EXTENDS MC_Engine, BuiltinPolicies

CONSTANT SecondFilters     \* second filter of a conjunction ("@none" = single filter)

D(k, who, u, n, m, i, j) == [k |-> k, who |-> who, u |-> u, n |-> n, m |-> m, i |-> i, j |-> j]

FilterNames == {"Name", "State", "Object Type", "Cryptographic Algorithm", "Cryptographic Length",
                "Cryptographic Usage Mask", "Operation Policy Name", "Object Group",
                "Application Specific Information", "Certificate Type", "Unique Identifier", "Initial Date", "@none"}
FVal(n, st0) ==
    CASE n = "Name" -> "n1" [] n = "State" -> "Active" [] n = "Object Type" -> "SymmetricKey"
      [] n = "Cryptographic Algorithm" -> "AES" [] n = "Cryptographic Length" -> 128
      [] n = "Cryptographic Usage Mask" -> <<"ENCRYPT">> [] n = "Operation Policy Name" -> "public"
      [] n = "Object Group" -> "og1" [] n = "Application Specific Information" -> <<"ns1", "d1">>
      [] n = "Certificate Type" -> "X_509" [] n = "Unique Identifier" -> "1"
      [] n = "Initial Date" -> 101
      [] OTHER -> "zz"
Filt(n, s) == IF n = "@none" THEN <<>> ELSE <<A(n, FVal(n, s))>>

Mk(d) ==
    LET Rr(op, p) == Rq(d.who, 12, "None", <<It(op, "", p)>>) IN
    CASE d.k = "create" -> Rr("Create", PCreate(<<"ENCRYPT">>, IF d.n = "" THEN <<AI("Name", 0, "n1")>> ELSE <<AI("Name", 0, "n1"), A("Operation Policy Name", d.n)>>))
      [] d.k = "reg" -> Rr("Register", PRegister(d.n, <<"SIGN">>, <<AI("Object Group", 0, "og1"), AI("Application Specific Information", 0, <<"ns1", "d1">>)>>))
      [] d.k = "pair" -> Rr("CreateKeyPair", [common |-> <<A("Cryptographic Algorithm", "RSA"), A("Cryptographic Length", 1024)>>,
                                             priv |-> <<A("Cryptographic Usage Mask", <<"SIGN">>)>>,
                                             pub |-> <<A("Cryptographic Usage Mask", <<"VERIFY">>)>>])
      [] d.k = "act" -> Rr("Activate", PUid(d.u))
      [] d.k = "loc" -> Rr("Locate", PLocate(Filt(d.n, st) \o Filt(d.m, st), d.i, d.j))
      [] d.k = "dates" -> Rr("Locate", PLocate(<<A("Initial Date", d.i), A("Initial Date", d.j)>> \o Filt(d.n, st), -1, -1))

IsLocate(r) == r.items[1].op = "Locate"
LastWasLocate == ev.kind = "req" /\ IsLocate(ev.req)
LocView == <<st, g, LastWasLocate>>

MenuC14(s) ==
    IF LastWasLocate THEN {}
    ELSE (IF s.seq < MaxObjs
          THEN {D("create", w, 0, pn, "", 0, 0) : w \in {"alice", "bob"}, pn \in {"", "public"}}
               \cup {D("reg", "alice", 0, t, "", 0, 0) : t \in {"Certificate", "SecretData", "OpaqueData"}}
               \cup (IF s.seq + 2 <= MaxObjs THEN {D("pair", "bob", 0, "", "", 0, 0)} ELSE {})
          ELSE {})
         \cup {D("act", "alice", u, "", "", 0, 0) : u \in DOMAIN s.objs}
         \cup (IF s.seq >= 2
               THEN {D("loc", w, 0, n, m, -1, -1) : w \in {"alice", "bob"}, n \in FilterNames, m \in SecondFilters}
                    \cup {D("loc", w, 0, "@none", "@none", o, m) : w \in {"alice", "bob"}, o \in {-1, 0, 1, 2, 3, -2, -3}, m \in {-1, 0, 1, 2, 3, -2, -3}}
                    \cup {D("loc", w, 0, "Object Type", "@none", o, m) : w \in {"alice"}, o \in {-1, 0, 1}, m \in {-1, 1, 2}}
                    \cup {D("dates", w, 0, n, "", i, j) : w \in {"alice"}, n \in {"@none", "Object Type"}, i \in {100, 101, 102}, j \in {100, 101, 103}}
               ELSE {})

CheckedC14 == {"C14_order", "C14_set", "C14_page", "C03_effect", "C13_item"}
=============================================================================
