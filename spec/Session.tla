------------------------------- MODULE Session -------------------------------
(***************************************************************************)
(* One client connection (kmip/services/server/session.py).                *)
(*                                                                         *)
(* Part 1 (C17): the authentication decision.  A configuration is          *)
(*   [cert, eku, tlsauth, plugins, req]                                    *)
(*   cert    : "absent" | "cn0" | "cn1" | "cn2"  (number of common names)  *)
(*   eku     : "absent" | "other" | "lookalike" | "any" | "client"  (the   *)
(*             extended key usage extension; lookalike = OIDs that         *)
(*             textually contain clientAuth; any = anyExtendedKeyUsage     *)
(*             (2.5.29.37.0) with other purposes but without clientAuth:   *)
(*             the property asks for the client-authentication usage)      *)
(*   tlsauth : enable_tls_client_auth                                      *)
(*   plugins : sequence of plugin kinds, in configuration order            *)
(*   req     : "valid" | "undecodable"                                     *)
(* SessionOutcome is the message loop as coded (order of the checks, the   *)
(* plugin loop, the fallback to the certificate's common name only when no *)
(* plugin is enabled).  Established / EstablishedIdentity is the property's*)
(* own definition.  C17 relates the two; TLC checks it over the full       *)
(* product and emits every row for execution on a real KmipSession.        *)
(*                                                                         *)
(* Part 2 (C12): the receive loop and one-response-per-frame discipline,   *)
(* in MC_C12.                                                              *)
(***************************************************************************)
EXTENDS Naturals, Sequences, FiniteSets, TLC

\* "okB": the service vouches for the user with ANOTHER group list (its answer changed since an earlier request)
\* "user500": the service answers the user lookup with an error status other than 404 (500) and the group lookup normally;
\* "all403": it answers both lookups with 403 and a JSON error body.  Neither is the service vouching for the user.
PluginKinds == {"disabled", "unsupported", "ok", "okB", "user404", "groups404", "unreachable", "badjson", "user500", "all403"}
VouchKinds == {"ok", "okB"}
EnabledKinds == PluginKinds \ {"disabled", "unsupported"}

NoGroups == <<"-nogroups-">>
GroupsOf(k) == <<"grp", k>>              \* the group list plugin number k returns
GroupsOfKind(k, kind) == IF kind = "okB" THEN <<"other", k>> ELSE GroupsOf(k)
CN == "alice"

--------------------------------------------------------------------------
(* the implementation, in code order *)

RECURSIVE PluginLoop(_, _, _)
\* returns [done, identity] after trying plugins k..n; enabled accumulates
PluginLoop(cfg, k, enabled) ==
    IF k > Len(cfg.plugins)
    THEN [found |-> FALSE, enabled |-> enabled, groups |-> NoGroups]
    ELSE LET p == cfg.plugins[k] IN
         IF p \in {"disabled", "unsupported"} THEN PluginLoop(cfg, k + 1, enabled)
         ELSE \* an enabled SLUGS block: the user id comes from the certificate (exactly one CN),
              \* then the user and group lookups
              IF cfg.cert = "cn1" /\ p \in VouchKinds
              THEN [found |-> TRUE, enabled |-> TRUE, groups |-> GroupsOfKind(k, p)]
              ELSE PluginLoop(cfg, k + 1, TRUE)

Outcome(called, user, groups, reason, parsed) ==
    [called |-> called, user |-> user, groups |-> groups, reason |-> reason, parsed |-> parsed]

SessionOutcome(cfg) ==
    IF cfg.cert = "absent" THEN Outcome(FALSE, "", NoGroups, "AuthenticationNotSuccessful", FALSE)
    ELSE IF cfg.tlsauth /\ cfg.eku # "client" THEN Outcome(FALSE, "", NoGroups, "AuthenticationNotSuccessful", FALSE)
    ELSE IF cfg.req = "undecodable" THEN Outcome(FALSE, "", NoGroups, "InvalidMessage", FALSE)
    ELSE LET r == PluginLoop(cfg, 1, FALSE) IN
         IF r.found THEN Outcome(TRUE, CN, r.groups, "", TRUE)
         ELSE IF ~r.enabled /\ cfg.cert = "cn1" THEN Outcome(TRUE, CN, NoGroups, "", TRUE)
         ELSE Outcome(FALSE, "", NoGroups, "AuthenticationNotSuccessful", TRUE)

--------------------------------------------------------------------------
(* the property *)

EnabledIdx(cfg) == {k \in DOMAIN cfg.plugins : cfg.plugins[k] \in EnabledKinds}
Vouching(cfg) == {k \in DOMAIN cfg.plugins : cfg.plugins[k] \in VouchKinds}

Established(cfg) ==
    /\ cfg.cert # "absent"
    /\ (cfg.tlsauth => cfg.eku = "client")
    /\ cfg.cert = "cn1"
    /\ (EnabledIdx(cfg) = {} \/ Vouching(cfg) # {})

EstablishedGroups(cfg) ==
    IF EnabledIdx(cfg) = {} THEN NoGroups
    ELSE LET k == CHOOSE x \in Vouching(cfg) : \A j \in Vouching(cfg) : x <= j IN     \* first success wins
         GroupsOfKind(k, cfg.plugins[k])

\* o = [called, user, groups, reason] - modelled or observed
C17_entry(cfg, o) == o.called => (Established(cfg) /\ cfg.req = "valid" /\ o.user = CN /\ o.groups = EstablishedGroups(cfg))
C17_refusal(cfg, o) == (~Established(cfg)) => (~o.called /\ (cfg.req = "valid" => o.reason = "AuthenticationNotSuccessful"))
C17_served(cfg, o) == (Established(cfg) /\ cfg.req = "valid") => o.called
C17(cfg, o) == C17_entry(cfg, o) /\ C17_refusal(cfg, o)
=============================================================================
