----------------------------- MODULE MC_Engine -----------------------------
(***************************************************************************)
(* Model checking harness for KmipEngine: a history of requests drawn from *)
(* a per-configuration menu, with server restarts.  Used three ways:       *)
(*  - exhaustive checking of the property predicates (KmipProps) on every  *)
(*    modelled step (action property StepOK, invariant StoreOK);           *)
(*  - negative controls (switches below) where TLC must find a violation;  *)
(*  - edge emission (ACTION_CONSTRAINT Emit): every explored transition is *)
(*    printed and replayed on the real engine by the harness.              *)
(***************************************************************************)
EXTENDS KmipProps, Json

CONSTANTS
    Menu(_),        \* store state -> set of request descriptors offered in that state
    MkReq(_),       \* descriptor -> request (Identity where the menu holds requests)
    Pols,           \* operation policies in force
    MaxDepth,       \* bound on the number of requests in a history
    MaxObjs,        \* bound on identifiers handed out
    \* negative-control switches (TRUE = the mechanism is in place)
    AUTOINC,        \* identifiers come from the AUTOINCREMENT high-water mark
    RESET_PH,       \* the ID placeholder is reset at the start of a request
    RESTARTS,       \* server restarts are part of the histories
    Checked         \* the clauses a configuration checks (others are checked by their own configurations)

NoClauses == {}
Identity(x) == x

VARIABLES st, g, ev, depth
vars == <<st, g, ev, depth>>
view == <<st, g, depth>>

NoEv == [kind |-> "none"]

Init ==
    /\ st = [objs |-> <<>>, seq |-> 0, ph |-> NoUid, pols |-> Pols]
    /\ g = [issued |-> {}]
    /\ ev = NoEv
    /\ depth = 0

\* the engine as configured by the switches
MaxLive(s) == IF DOMAIN s.objs = {} THEN 0 ELSE CHOOSE u \in DOMAIN s.objs : \A w \in DOMAIN s.objs : u >= w
Tweak(s) == [s EXCEPT !.seq = IF AUTOINC THEN @ ELSE MaxLive(s)]
RunReq(s, r) == IF RESET_PH THEN RunRequest(Tweak(s), r) ELSE RunRequestFrom(Tweak(s), r)

DoRequest(r) ==
    LET m == RunReq(st, r) IN
    /\ depth < MaxDepth
    /\ m.st.seq <= MaxObjs
    /\ st' = m.st
    /\ ev' = [kind |-> "req", req |-> r, res |-> m]
    /\ g' = [issued |-> g.issued \cup DOMAIN st.objs \cup DOMAIN m.st.objs]
    /\ depth' = depth + 1

DoRestart ==
    /\ RESTARTS
    /\ depth < MaxDepth
    /\ st.ph # NoUid
    /\ st' = Restart(st)
    /\ ev' = [kind |-> "restart"]
    /\ UNCHANGED g
    /\ depth' = depth + 1

Next == (\E d \in Menu(st) : DoRequest(MkReq(d))) \/ DoRestart

Spec == Init /\ [][Next]_vars

--------------------------------------------------------------------------
(* properties of the model *)

Before(m, s, k) == IF k = 1 THEN [s EXCEPT !.ph = IF RESET_PH THEN NoUid ELSE s.ph] ELSE m.items[k - 1].st
Ghost(s) == [issued |-> g.issued \cup DOMAIN s.objs, dead |-> (g.issued \cup DOMAIN s.objs) \ DOMAIN s.objs]

StepFails ==
    IF ev'.kind # "req" THEN {}
    ELSE LET m == ev'.res  r == ev'.req IN
         UNION {FailedIn(Checked, Before(m, st, k), r, r.items[k], m.items[k], m.items[k].st,
                              [issued |-> g.issued \cup DOMAIN Before(m, st, k).objs,
                               dead |-> (g.issued \cup DOMAIN Before(m, st, k).objs) \ DOMAIN Before(m, st, k).objs])
                   \cup (IF Addresses(r.items[k]) /\ r.items[k].p.uid = NoUid /\ k = 1 /\ m.items[k].status = "Success"
                         THEN {"C11_placeholder"} ELSE {})
                : k \in DOMAIN m.items}
         \cup (IF m.kind = "raised" /\ m.st.objs # st.objs THEN {"C08_told"} ELSE {})

\* the clauses a configuration checks (others are checked by their own configurations)
StepOK == [][StepFails \cap Checked = {}]_vars

\* no live object was ever issued twice, the high-water mark dominates
StoreOK == /\ \A u \in DOMAIN st.objs : u <= st.seq \/ ~AUTOINC
           /\ \A u \in DOMAIN st.objs : st.objs[u].state \in LcStates \cup {"NA"}

--------------------------------------------------------------------------
(* edge emission *)

RECURSIVE ObjList(_)
ObjList(objs) ==
    IF DOMAIN objs = {} THEN <<>>
    ELSE LET u == CHOOSE x \in DOMAIN objs : \A y \in DOMAIN objs : x <= y IN
         <<[uid |-> u] @@ objs[u]>> \o ObjList([x \in (DOMAIN objs) \ {u} |-> objs[x]])

StJson(s) == [objs |-> ObjList(s.objs), seq |-> s.seq]

ItemJson(r) == [status |-> r.status, reason |-> r.reason, mc |-> r.mc, uids |-> r.uids, any |-> r.any]

Emit ==
    PrintT("@E@" \o ToJson([from |-> StJson(st), to |-> StJson(st'), depth |-> depth,
                            kind |-> ev'.kind,
                            req |-> IF ev'.kind = "req" THEN ev'.req ELSE [none |-> TRUE],
                            res |-> IF ev'.kind = "req"
                                    THEN [kind |-> ev'.res.kind,
                                          items |-> [k \in DOMAIN ev'.res.items |-> ItemJson(ev'.res.items[k])]]
                                    ELSE [none |-> TRUE]]))

--------------------------------------------------------------------------
(* request builders shared by the menus *)

Rq(user, ver, opt, items) ==
    [user |-> user, hasg |-> FALSE, groups |-> {}, ver |-> ver, opt |-> opt, ts |-> "None",
     async |-> FALSE, now |-> 100 + st.seq, items |-> items]
RqG(user, groups, ver, opt, items) == [Rq(user, ver, opt, items) EXCEPT !.hasg = TRUE, !.groups = groups]

It(op, bid, p) == [op |-> op, bid |-> bid, p |-> p]
A(n, v) == [name |-> n, idx |-> -1, v |-> v]
AI(n, i, v) == [name |-> n, idx |-> i, v |-> v]

SymAttrs(mask, extra) == <<A("Cryptographic Algorithm", "AES"), A("Cryptographic Length", 128),
                            A("Cryptographic Usage Mask", mask)>> \o extra
PCreate(mask, extra) == [otype |-> "SymmetricKey", attrs |-> SymAttrs(mask, extra)]
PRegister(t, mask, extra) ==
    [otype |-> t, hasobj |-> TRUE,
     attrs |-> (IF HasMask(t) THEN <<A("Cryptographic Usage Mask", mask)>> ELSE <<>>) \o extra,
     obj |-> [type |-> t,
              val |-> IF t = "PublicKey" THEN "rsapub" ELSE IF t = "PrivateKey" THEN "rsapriv" ELSE "k16",
              vlen |-> 16,
              alg |-> IF t \in {"SymmetricKey", "SplitKey"} THEN "AES" ELSE IF HasAlg(t) THEN "RSA" ELSE "NA",
              len |-> IF t \in {"SymmetricKey", "SplitKey"} THEN 128 ELSE IF HasAlg(t) THEN 1024 ELSE 0,
              fmt |-> IF t \in {"SymmetricKey", "SplitKey"} THEN "RAW" ELSE IF t = "PublicKey" THEN "PKCS_1" ELSE IF t = "PrivateKey" THEN "PKCS_8" ELSE "NA",
              sub |-> IF t = "Certificate" THEN "X_509" ELSE IF t = "SecretData" THEN "PASSWORD" ELSE IF t = "OpaqueData" THEN "NONE" ELSE "NA",
              wrapped |-> FALSE]]
\* a key object of another kind whose material would do as an AES key (RAW, 16 bytes, AES / 128): the kind checks
\* of the cryptographic operations and of wrapping-key use must refuse it although the backend could use it
PRegisterRaw(t, mask) ==
    [PRegister(t, mask, <<>>) EXCEPT !.obj.val = "k16", !.obj.alg = "AES", !.obj.len = 128, !.obj.fmt = "RAW"]
PUid(u) == [uid |-> u]
PRevoke(u, code) == [uid |-> u, code |-> code]
PGet(u) == [uid |-> u, fmt |-> "", comp |-> "", wrap |-> FALSE,
            w |-> [method |-> "ENCRYPT", haskey |-> FALSE, kuid |-> 0, hasmac |-> FALSE, anames |-> FALSE, enc |-> "NO_ENCODING",
                  nocp |-> FALSE]]      \* nocp: the encryption key information carries no cryptographic parameters
PGetWrap(u, k) == [PGet(u) EXCEPT !.wrap = TRUE, !.w.haskey = TRUE, !.w.kuid = k]
PCrypto(u) == [uid |-> u, hascp |-> TRUE]
PMac(u) == [uid |-> u, hasalg |-> TRUE, hasdata |-> TRUE]
PGetAttrs(u) == [uid |-> u, names |-> <<>>]
PLocate(filters, off, max) == [filters |-> filters, offset |-> off, max |-> max]

\* identifiers a request may name: live ones, the next dead/unused ones
Candidates(s) == (DOMAIN s.objs) \cup {u \in 1..(s.seq + 1) : TRUE}
=============================================================================
