---------------------------- MODULE TraceSchema ----------------------------
(* C01: validation of recorded codec executions against KmipSchema.         *)
(* Every record is one TLC state.                                           *)
(*  kind "value":  the harness built the library object for the abstract    *)
(*     value `val` (a value of class cls defined under ver), encoded it     *)
(*     (bytes), decoded the bytes with a fresh object of the class,         *)
(*     projected the decoded object back (dec) and re-encoded it (bytes2).  *)
(*  kind "accept": a byte string the decoder accepted (d1), its re-encoding *)
(*     and the decoding of that (d2).                                       *)
(* @V@ = a clause of C01 fails on the real execution; @D@ = the bytes are   *)
(* not the tree the schema prescribes (wire drift, round trip intact);      *)
(* @M@ = the harness produced an ill-typed value (machinery).               *)
EXTENDS SchemaRec, Json, IOUtils

Recs == JsonDeserialize(IOEnv.TRACE_FILE)

VARIABLES n, done
Init == n \in 1..Len(Recs) /\ done = FALSE

Want(r, v) == RootTree(r.cls, r.tag, v, r.ver)

ValueFails(r, wv) ==
    IF ~r.enc_ok THEN {<<"C01_encodable", r.err>>}
    ELSE IF ~r.dec_ok THEN {<<"C01_decodable", r.err>>}
    ELSE (IF ~r.dec_typed THEN {<<"C01_roundtrip", "decoded object is not a value of the class: " \o r.err>>}
          ELSE LET wd == Want(r, r.dec) IN
               IF TreeEq(wd, wv) THEN {}
               ELSE {<<"C01_roundtrip", ToString(TreeDiff(wd, wv))>>})
         \cup (IF ~r.re_ok THEN {<<"C01_reencode", "decoded object cannot be encoded: " \o r.err>>}
               ELSE IF r.bytes2 = r.bytes THEN {} ELSE {<<"C01_reencode", "re-encoded bytes differ">>})
         \cup (IF r.eq = "unequal" THEN {<<"C01_eq", "the library's own == says decoded # original">>} ELSE {})
         \* encoding is a function of (value, version): after the same object has been encoded under the other versions
         \* that define its class, encoding it again under this version gives the same bytes (pure = "same" | "differs" | "na")
         \cup (IF r.pure = "differs" THEN {<<"C01_encoding_changes_the_value", r.puredetail>>} ELSE {})

AcceptFails(r) ==
    IF ~r.e1_ok THEN {<<"C01_accepted_unencodable", r.err>>}
    ELSE IF ~r.d2_ok THEN {<<"C01_accepted_undecodable", r.err>>}
    ELSE IF ~r.typed THEN {}
    ELSE LET w1 == Want(r, r.d1)  w2 == Want(r, r.d2) IN
         IF TreeEq(w1, w2) THEN {}
         ELSE {<<"C01_stable", ToString(TreeDiff(w1, w2))>>}

\* the bytes against the prescribed tree: Enc(tree) = bytes is the fast path (exact for everything but big
\* integers, whose width KMIP does not fix); otherwise parse and compare up to big-integer width
Drift(r, wv) ==
    IF ~r.enc_ok THEN {}
    ELSE IF Enc(wv) = r.bytes THEN {}
    ELSE LET p == Parse(r.bytes) IN
         IF ~p.ok THEN {"not well-formed TTLV: " \o p.why}
         ELSE IF TreeEq(p.tree, wv) THEN {}
         ELSE {"bytes are not the prescribed tree: " \o ToString(TreeDiff(p.tree, wv))}

Next == /\ ~done
        /\ LET r == Recs[n] IN
           IF r.kind = "value"
           THEN LET ill == IllRoot(r.cls, r.val, r.ver) IN
                IF ill # {} THEN PrintT("@M@" \o ToJson([id |-> r.id, ill |-> ill]))
                ELSE LET wv == Want(r, r.val)
                         f == ValueFails(r, wv)
                         d == Drift(r, wv) IN
                     /\ f # {} => PrintT("@V@" \o ToJson([id |-> r.id, fails |-> f]))
                     /\ d # {} => PrintT("@D@" \o ToJson([id |-> r.id, drift |-> d]))
                     \* self-check of schema and hint-free recogniser against each other
                     /\ (r.cls \in Classes /\ Rec(r.cls, wv, r.ver, "") # {}) =>
                            PrintT("@D@" \o ToJson([id |-> r.id, drift |-> {"recogniser rejects the prescribed tree: " \o x : x \in Rec(r.cls, wv, r.ver, "")}]))
           ELSE LET f == AcceptFails(r) IN
                f # {} => PrintT("@V@" \o ToJson([id |-> r.id, fails |-> f]))
        /\ done' = TRUE /\ n' = n
Spec == Init /\ [][Next]_<<n, done>>
=============================================================================
