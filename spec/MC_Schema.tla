------------------------------ MODULE MC_Schema ------------------------------
(***************************************************************************)
(* Model-level half of C01: the schema is sequentially decodable.          *)
(*                                                                         *)
(* DecObj is the decoder the KMIP format presupposes (and the one the      *)
(* implementation uses, Base.is_tag_next): walk the class's fields in wire *)
(* order, consume the next item when its tag is the field's tag, fail when *)
(* a required field is absent or an item is left over.  Where the protocol *)
(* supplies context (operation -> payload class, credential type ->        *)
(* credential class, attribute name / tag -> value type) the decoder is    *)
(* given it (`hint`).  Lemma checked by TLC for every class, version and   *)
(* presence combination of optional fields:                                *)
(*        DecObj(cls, ObjTree(cls, tag, v, ver)) = v                       *)
(* i.e. no two optional neighbours share a tag, no prefix ambiguity, every *)
(* primitive is recoverable from its bytes.  Together with MC_TTLV         *)
(* (Parse(Enc(t)) = t) this is the round trip on the specification itself. *)
(*                                                                         *)
(* The universe: for every (class, version) the harness supplies one       *)
(* maximal consistent value; TLC enumerates all restrictions to subsets of *)
(* the optional fields (all subsets when there are at most MaxOpt optional *)
(* fields, otherwise all subsets with at most 2 present or at most 2       *)
(* absent), checks the lemma and prints each restricted value ("@R@") for  *)
(* the harness to execute on the real code.                                *)
(***************************************************************************)
EXTENDS KmipSchema, Json, IOUtils, FiniteSets

CONSTANT MaxOpt
Base == JsonDeserialize(IOEnv.TRACE_FILE)      \* <<[cls, ver, tag, val], ...>>

--------------------------------------------------------------------------
(* primitives back from bytes *)
RECURSIVE Strip(_)
Strip(s) == IF Len(s) > 0 /\ s[1] = 0 THEN Strip(Tail(s)) ELSE s
FromTwos(b) == IF Len(b) > 0 /\ b[1] >= 128 THEN [s |-> 1, m |-> Strip(Inc(Complement(b)))] ELSE [s |-> 0, m |-> Strip(b)]
TypOf(kind) == CASE kind \in {"int", "mask"} -> TInteger [] kind = "enum" -> TEnum [] kind = "interval" -> TInterval
                 [] kind = "long" -> TLong [] kind = "date" -> TDateTime [] kind = "bigint" -> TBigInt
                 [] kind = "bool" -> TBool [] kind = "text" -> TText [] kind = "bytes" -> TBytes
DecPrim(kind, t) ==
    CASE kind \in {"int", "mask", "long", "date", "bigint"} -> FromTwos(t.val)
      [] kind \in {"enum", "interval"} -> [s |-> 0, m |-> Strip(t.val)]
      [] kind = "bool" -> t.val[8] = 1
      [] OTHER -> t.val

NoVal == [x \in {} |-> 0]
Bad == [ok |-> FALSE, v |-> NoVal, pos |-> 0]
Has(h, n) == n \in DOMAIN h

RECURSIVE DecObj(_, _, _, _), DecFields(_, _, _, _, _, _), DecVal(_, _, _, _)

\* the tag the decoder expects for field f (hint: the value being decoded, where context decides)
WantTag(f, h, ver) ==
    CASE f.k = "union" /\ f.t = "" -> Tag[ClassTag[h["_k"]]]
      [] f.k = "attr2" -> Tag[RuleOf(h["_name"]).t]
      [] f.k = "tmpl" /\ ver >= 20 -> Tmpl2Tag(f.t)
      [] OTHER -> Tag[f.t]

DecVal(f, t, ver, h) ==       \* [ok, v]
    CASE f.k = "struct" -> DecObj(f.of, t, ver, h)
      [] f.k = "attrs"  -> DecObj("Attribute", t, ver, h)
      [] f.k = "union"  -> DecObj(h["_k"], t, ver, h)
      [] f.k \in {"attrval", "attr2"} ->
            LET r == RuleOf(h["_name"])
                d == DecVal([f EXCEPT !.k = r.k, !.of = r.of], t, ver, h.v) IN
            [ok |-> d.ok, v |-> [_name |-> h["_name"], v |-> d.v]]
      [] f.k = "tmpl" ->
            IF ver < 20 THEN DecObj("TemplateAttribute", t, ver, h)
            ELSE IF t.typ # TStructure THEN [ok |-> FALSE, v |-> NoVal]
            ELSE LET n == Len(t.val)
                     hs == IF Has(h, "attributes") THEN h.attributes ELSE <<>>
                     ds == [j \in 1..n |-> IF j <= Len(hs)
                                           THEN DecVal([f EXCEPT !.k = "attr2"], t.val[j], ver, hs[j].attribute_value)
                                           ELSE [ok |-> FALSE, v |-> NoVal]] IN
                 [ok |-> n = Len(hs) /\ \A j \in 1..n : ds[j].ok /\ t.val[j].tag = Tag[RuleOf(hs[j].attribute_value["_name"]).t],
                  v |-> IF n = 0 THEN [_k |-> "TemplateAttribute"]
                        ELSE [_k |-> "TemplateAttribute",
                              attributes |-> [j \in 1..n |-> [_k |-> "Attribute", attribute_name |-> hs[j].attribute_name,
                                                               attribute_value |-> ds[j].v]]]]
      [] OTHER -> [ok |-> t.typ = TypOf(f.k), v |-> IF t.typ = TypOf(f.k) THEN DecPrim(f.k, t) ELSE NoVal]

\* consume the fields fs[i..] from kids[pos..]
DecFields(fs, i, kids, pos, ver, h) ==
    IF i > Len(fs) THEN [ok |-> TRUE, v |-> NoVal, pos |-> pos]
    ELSE LET f == fs[i] IN
    IF ~Live(f, ver) THEN DecFields(fs, i + 1, kids, pos, ver, h)
    ELSE IF f.k = "attrs" /\ ver >= 20
    THEN \* one Attributes structure standing for the repeated attributes
         IF pos <= Len(kids) /\ kids[pos].tag = Tag["ATTRIBUTES"]
         THEN LET d == DecVal([f EXCEPT !.k = "tmpl", !.t = "TEMPLATE_ATTRIBUTE"], kids[pos], ver,
                              IF Has(h, f.n) THEN [_k |-> "TemplateAttribute", attributes |-> h[f.n]] ELSE [_k |-> "TemplateAttribute"])
                  rest == DecFields(fs, i + 1, kids, pos + 1, ver, h) IN
              IF ~d.ok \/ ~rest.ok THEN Bad
              ELSE [ok |-> TRUE, pos |-> rest.pos,
                    v |-> IF Has(d.v, "attributes") THEN (f.n :> d.v.attributes) @@ rest.v ELSE rest.v]
         ELSE DecFields(fs, i + 1, kids, pos, ver, h)
    ELSE
    LET hf == IF Has(h, f.n) THEN h[f.n] ELSE NoVal
        \* the context for the tag: the first element's hint for repeated fields
        h1 == IF IsMulti(f) THEN (IF Len(hf) > 0 THEN hf[1] ELSE NoVal) ELSE hf
        decidable == ~(f.k \in {"attr2"} \/ (f.k = "union" /\ f.t = "")) \/ Has(h, f.n)
        want == IF decidable THEN WantTag(f, h1, ver) ELSE -1
        \* number of consecutive items with the wanted tag
        run == IF IsMulti(f)
               THEN LET ks == {k \in 0..(Len(kids) - pos + 1) : \A j \in 1..k :
                                   kids[pos + j - 1].tag = (IF f.k = "attr2" /\ j <= Len(hf) THEN WantTag(f, hf[j], ver) ELSE want)} IN
                    CHOOSE k \in ks : \A k2 \in ks : k2 <= k
               ELSE IF pos <= Len(kids) /\ kids[pos].tag = want THEN 1 ELSE 0 IN
    IF run = 0
    THEN IF f.c \in {"1", "+"} THEN Bad ELSE DecFields(fs, i + 1, kids, pos, ver, h)
    ELSE LET ds == [j \in 1..run |-> DecVal(f, kids[pos + j - 1], ver,
                                            IF IsMulti(f) THEN (IF j <= Len(hf) THEN hf[j] ELSE NoVal) ELSE hf)]
             rest == DecFields(fs, i + 1, kids, pos + run, ver, h) IN
         IF ~(\A j \in 1..run : ds[j].ok) \/ ~rest.ok THEN Bad
         ELSE [ok |-> TRUE, pos |-> rest.pos,
               v |-> (f.n :> (IF IsMulti(f) THEN [j \in 1..run |-> ds[j].v] ELSE ds[1].v)) @@ rest.v]

DecObj(cls, t, ver, h) ==
    IF t.typ # TStructure THEN [ok |-> FALSE, v |-> NoVal]
    ELSE LET d == DecFields(Schema[cls], 1, t.val, 1, ver, h) IN
         [ok |-> d.ok /\ d.pos = Len(t.val) + 1, v |-> IF d.ok THEN ("_k" :> cls) @@ d.v ELSE NoVal]

--------------------------------------------------------------------------
(* the universe *)
OptNames(cls, ver, v) == {Schema[cls][i].n : i \in {j \in DOMAIN Schema[cls] :
                              Live(Schema[cls][j], ver) /\ Schema[cls][j].c \in {"?", "*"} /\ Schema[cls][j].n \in DOMAIN v}}
Subsets(S) == IF Cardinality(S) <= MaxOpt THEN SUBSET S
              ELSE {P \in SUBSET S : Cardinality(P) <= 2 \/ Cardinality(S \ P) <= 2}
Restrict(v, opt, P) == [n \in (DOMAIN v \ opt) \cup P |-> v[n]]

VARIABLES n, pres, done
vars == <<n, pres, done>>
Init == /\ n \in 1..Len(Base)
        /\ pres \in Subsets(OptNames(Base[n].cls, Base[n].ver, Base[n].val))
        /\ done = FALSE

Value == LET b == Base[n] IN Restrict(b.val, OptNames(b.cls, b.ver, b.val), pres)

Lemma ==
    LET b == Base[n]
        v == Value
        t == ObjTree(b.cls, b.tag, v, b.ver)
        d == DecObj(b.cls, t, b.ver, v) IN
    /\ Ill(b.cls, v, b.ver) = {}
    /\ d.ok
    /\ TreeEq(ObjTree(b.cls, b.tag, d.v, b.ver), t)
    /\ DOMAIN d.v = DOMAIN v
    /\ Parse(Enc(t)).ok /\ TreeEq(Parse(Enc(t)).tree, t)

Next == /\ ~done
        /\ PrintT("@R@" \o ToJson([cls |-> Base[n].cls, ver |-> Base[n].ver, val |-> Value, lemma |-> Lemma]))
        /\ done' = TRUE /\ UNCHANGED <<n, pres>>
Spec == Init /\ [][Next]_vars
LemmaHolds == done => TRUE
=============================================================================
