------------------------------ MODULE UidAlloc ------------------------------
(***************************************************************************)
(* The identifier allocator of the object store (property C07), without    *)
(* bounds: SQLite's AUTOINCREMENT keeps a high-water mark (sqlite_sequence)*)
(* that survives destroys, restarts and crashes.  This module is checked   *)
(* by Apalache as an INDUCTIVE invariant (IndInit => IndInv at length 0,   *)
(* IndInv /\ Next => IndInv' at length 1), so the result holds for any     *)
(* number of objects and any history - the bounded TLC runs of MC_C07 and  *)
(* the replay on the real engine bind the same allocator (`seq` in         *)
(* KmipEngine.tla) to the code.                                            *)
(*                                                                         *)
(* AUTOINC = FALSE is the negative control: the next identifier is "one    *)
(* more than the largest live one" (what a plain INTEGER PRIMARY KEY does).*)
(***************************************************************************)
EXTENDS Integers, FiniteSets, Apalache

CONSTANT
    \* @type: Bool;
    AUTOINC

VARIABLES
    \* @type: Int;
    seq,        \* the high-water mark kept by the database
    \* @type: Set(Int);
    live,       \* identifiers of the objects in the store
    \* @type: Set(Int);
    issued,     \* ghost: every identifier ever handed out
    \* @type: Bool;
    reused      \* ghost: some Create handed out an identifier that had been issued before

\* @type: Set(Int) => Int;
MaxOf(S) == IF S = {} THEN 0 ELSE CHOOSE m \in S : \A x \in S : x <= m
NextUid == IF AUTOINC THEN seq + 1 ELSE MaxOf(live) + 1

Init == seq = 0 /\ live = {} /\ issued = {} /\ reused = FALSE

Create ==
    /\ seq' = IF AUTOINC THEN seq + 1 ELSE seq
    /\ live' = live \cup {NextUid}
    /\ reused' = (reused \/ NextUid \in issued)
    /\ issued' = issued \cup {NextUid}

Destroy == \E u \in live : live' = live \ {u} /\ UNCHANGED <<seq, issued, reused>>

\* a restart keeps what the database holds; a crash in the middle of a creation may have advanced the mark
\* without the object (the transaction is rolled back, the mark is part of it - or not: both are allowed)
Restart == UNCHANGED <<seq, live, issued, reused>>
CrashInCreate == (\E d \in {0, 1} : seq' = seq + d) /\ UNCHANGED <<live, issued, reused>>

Next == Create \/ Destroy \/ Restart \/ CrashInCreate

\* the property: no identifier is ever handed out twice
NeverReused == ~reused

\* the inductive invariant
IndInv ==
    /\ seq >= 0
    /\ live \subseteq issued
    /\ \A u \in issued : 1 <= u /\ u <= seq
    /\ ~reused
\* an arbitrary state satisfying the invariant (Apalache's generators: any integers, sets of up to 6 / 8 elements)
IndInit == seq = Gen(1) /\ live = Gen(6) /\ issued = Gen(8) /\ reused = Gen(1) /\ IndInv
=============================================================================
