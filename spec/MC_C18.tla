------------------------------ MODULE MC_C18 ------------------------------
(* C18: the policies in force follow the policy files.  File events (write a
   valid or broken version, remove) with a scan after one or two events. *)
EXTENDS PolicyMonitor, Json

CONSTANTS MaxEvents, MaxPending

VARIABLES files, clock, ms, gs, ev, pend, nev, removed, last
vars == <<files, clock, ms, gs, ev, pend, nev, removed, last>>
view == <<files, ms, gs, pend, nev, removed, last>>     \* clock is implied by the mtimes' order

Init == /\ files = [f \in FileSet |-> Absent]
        /\ clock = 10
        /\ ms = InitMs /\ gs = InitGs
        /\ ev = [kind |-> "none"] /\ pend = 0 /\ nev = 0 /\ removed = FALSE
        /\ last = [f \in FileSet |-> Absent]         \* what a removed file looked like (for Restore)

\* contents a file may have: any assignment of definitions to names, reserved names only rarely
FileContents == {c \in Contents : c["public"] = "none" /\ c["default"] \in {"none", "d1"}}

Write(f, c, valid) ==
    /\ nev < MaxEvents /\ pend < MaxPending
    /\ files' = [files EXCEPT ![f] = [present |-> TRUE, valid |-> valid, mtime |-> clock + 1, content |-> c]]
    /\ clock' = clock + 1
    /\ ev' = [kind |-> "write", f |-> f, content |-> c, valid |-> valid, mtime |-> clock + 1]
    /\ pend' = pend + 1 /\ nev' = nev + 1
    /\ UNCHANGED <<ms, gs, removed, last>>

Remove(f) ==
    /\ nev < MaxEvents /\ pend < MaxPending          \* several files may disappear between two scans
    /\ files[f].present
    /\ files' = [files EXCEPT ![f] = Absent]
    /\ ev' = [kind |-> "remove", f |-> f]
    /\ pend' = pend + 1 /\ nev' = nev + 1 /\ removed' = TRUE
    /\ last' = [last EXCEPT ![f] = files[f]]
    /\ UNCHANGED <<ms, gs, clock>>

\* a removed file comes back exactly as it was - same content, same (old) modification time: moved out of the directory
\* and back, renamed to *.disabled and back, restored with cp -p
Restore(f) ==
    /\ nev < MaxEvents /\ pend < MaxPending
    /\ ~files[f].present /\ last[f].present
    /\ files' = [files EXCEPT ![f] = last[f]]
    /\ ev' = [kind |-> "write", f |-> f, content |-> last[f].content, valid |-> last[f].valid, mtime |-> last[f].mtime]
    /\ pend' = pend + 1 /\ nev' = nev + 1
    /\ UNCHANGED <<ms, gs, clock, removed, last>>

DoScan ==
    /\ pend > 0
    /\ ms' = Scan(ms, files)
    /\ gs' = GhostScan(gs, ms, files, 1)
    /\ ev' = [kind |-> "scan"]
    /\ pend' = 0 /\ removed' = FALSE
    /\ UNCHANGED <<files, clock, nev, last>>

Next == \/ \E f \in FileSet, c \in FileContents : Write(f, c, TRUE)
        \/ \E f \in FileSet : files[f].present /\ Write(f, files[f].content, FALSE)     \* broken version
        \/ \E f \in FileSet : Remove(f)
        \/ \E f \in FileSet : Restore(f)
        \/ DoScan

Spec == Init /\ [][Next]_vars

Settled == pend = 0
C18 == Settled => C18_store(ms.store, gs)
ReservedUntouched == \A p \in Reserved : ms.store[p] = "builtin"

Emit == PrintT("@E@" \o ToJson([ev |-> ev', nev |-> nev,
                                from |-> [files |-> files, ms |-> ms, gs |-> gs, pend |-> pend],
                                to |-> [files |-> files', ms |-> ms', gs |-> gs', pend |-> pend',
                                        ideal |-> [p \in AllNames |-> Ideal(gs', p)]]]))
=============================================================================
