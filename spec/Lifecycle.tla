----------------------------- MODULE Lifecycle ------------------------------
(***************************************************************************)
(* The lifecycle of one managed cryptographic object as a machine of its   *)
(* own (property C04, first sentence): it moves only Pre-Active -> Active  *)
(* -> Deactivated, or into Compromised, and - over a history of any length *)
(* - never returns to a state it has left.  `seen` is the history of       *)
(* states the object has been in.  The step relation Moves is the relation *)
(* KmipProps!LcMoves that clause C04_moves demands of every observed step  *)
(* of the real engine (MC_C04 checks with TLC that the two are the same    *)
(* relation); tlaps/LifecycleProof.tla proves the "never returns" part     *)
(* without a bound on the history.                                         *)
(***************************************************************************)
EXTENDS Naturals

States == {"PreActive", "Active", "Deactivated", "Compromised"}
Moves == {<<"PreActive", "Active">>, <<"Active", "Deactivated">>,
          <<"PreActive", "Compromised">>, <<"Active", "Compromised">>, <<"Deactivated", "Compromised">>}
Rank(s) == CASE s = "PreActive" -> 0 [] s = "Active" -> 1 [] s = "Deactivated" -> 2 [] OTHER -> 3

VARIABLES state, seen
vars == <<state, seen>>

Init == state = "PreActive" /\ seen = {"PreActive"}
Step == \E y \in States : /\ <<state, y>> \in Moves
                          /\ state' = y /\ seen' = seen \cup {y}
Next == Step
Spec == Init /\ [][Next]_vars

\* the object is never again in a state it has left: every state it has been in ranks no higher than the current one, and
\* only the current one ranks as high
NeverReturns == \A s \in seen : Rank(s) <= Rank(state) /\ (Rank(s) = Rank(state) => s = state)
=============================================================================
