----------------------------- MODULE KmipEngine -----------------------------
(***************************************************************************)
(* The PyKMIP request processor (kmip/services/server/engine.py) as a set  *)
(* of step functions.  A store state is                                    *)
(*   st = [objs : uid -> object record, seq : AUTOINCREMENT high-water     *)
(*         mark, ph : the engine's ID placeholder (NoUid = none),          *)
(*         pols : operation policies]                                      *)
(* A handler H_<Op>(st, req, p) returns a result record                    *)
(*   [st, status, reason, mc (message class), uids, attrs, names, any]     *)
(* in the order the code evaluates its guards, because the order decides   *)
(* which error a request gets and whether anything was mutated before.     *)
(* status = "Unmodelled" marks requests outside the modelled fragment      *)
(* (trace validation then only evaluates the property predicates).         *)
(* any = TRUE marks outcomes decided by the cryptographic backend, which   *)
(* this module does not compute (see CryptoTerms).                         *)
(*                                                                         *)
(* The same operators drive TLC model checking (MC_Engine), edge emission  *)
(* for spec->code replay, and trace validation (TraceEngine).              *)
(***************************************************************************)
EXTENDS KmipTypes, KmipPolicy, TLC

\* Negative-control switch: "none" is the engine as specified; any other value
\* switches one protecting mechanism off (selftest: TLC must then find a
\* violation of the corresponding property).
CONSTANT Mut

--------------------------------------------------------------------------
(* results *)

NoAttrs == <<>>

Res(st, status, reason, mc, uids) ==
    [st |-> st, status |-> status, reason |-> reason, mc |-> mc, uids |-> uids,
     attrs |-> NoAttrs, names |-> <<>>, any |-> FALSE]

Ok(st, uids)            == Res(st, "Success", "", "", uids)
Fail(st, reason)        == Res(st, "OperationFailed", reason, "Other", <<>>)
FailC(st, reason, mc)   == Res(st, "OperationFailed", reason, mc, <<>>)
Internal(st)            == Res(st, "OperationFailed", "GeneralFailure", "General", <<>>)
Unmodelled(st)          == Res(st, "Unmodelled", "", "", <<>>)
Backend(st, uids)       == [Res(st, "Success", "", "", uids) EXCEPT !.any = TRUE]

Ident(req) == [user |-> req.user, hasg |-> req.hasg, groups |-> req.groups]

--------------------------------------------------------------------------
(* store helpers *)

Uids(st) == DOMAIN st.objs
PutObj(objs, u, o) == [x \in (DOMAIN objs) \cup {u} |-> IF x = u THEN o ELSE objs[x]]
DelObj(objs, u)    == [x \in (DOMAIN objs) \ {u} |-> objs[x]]

NewObj(t, owner, now) ==
    [type |-> t, owner |-> owner, policy |-> "",
     state |-> IF HasState(t) THEN "PreActive" ELSE "NA",
     mask |-> {}, names |-> <<>>, groups |-> <<>>, appinfo |-> <<>>,
     sensitive |-> FALSE, idate |-> now, alg |-> "NA", len |-> 0, fmt |-> "NA",
     val |-> "gen", sub |-> "NA"]

\* INSERT applies the column default for the policy name
Stored(o) == [o EXCEPT !.policy = IF o.policy = "" THEN "default" ELSE o.policy]

\* add one object: AUTOINCREMENT gives max(seq, largest live uid) + 1
NextUid(st) == st.seq + 1
AddObj(st, o) == [st EXCEPT !.objs = PutObj(st.objs, NextUid(st), Stored(o)),
                            !.seq = NextUid(st), !.ph = NextUid(st)]

Allowed(st, id, u, op) ==
    LET o == st.objs[u] IN Mut = "no_access" \/ ImplAllowed(st.pols, o.policy, id, o.owner, o.type, op)

\* _get_object_with_access_controls: identifier or placeholder, lookup, access
Target(st, uidArg) == IF uidArg = NoUid THEN st.ph ELSE uidArg

Load(st, id, uidArg, op) ==
    LET u == Target(st, uidArg) IN
    IF u \notin Uids(st) THEN [ok |-> FALSE, u |-> u, reason |-> "ItemNotFound"]
    ELSE IF ~Allowed(st, id, u, op) THEN [ok |-> FALSE, u |-> u, reason |-> "PermissionDenied"]
    ELSE [ok |-> TRUE, u |-> u, reason |-> ""]

\* identifiers listed in a payload are literal (no placeholder substitution)
LoadDirect(st, id, u, op) ==
    IF u \notin Uids(st) THEN [ok |-> FALSE, u |-> u, reason |-> "ItemNotFound"]
    ELSE IF ~Allowed(st, id, u, op) THEN [ok |-> FALSE, u |-> u, reason |-> "PermissionDenied"]
    ELSE [ok |-> TRUE, u |-> u, reason |-> ""]

NotFound(st, l) == FailC(st, l.reason, "NotFound")

--------------------------------------------------------------------------
(* creation attributes: _process_template_attribute *)

\* KMIP 2.0 carries creation attributes without indices
EffIdx(a, ver) == IF ver >= 20 THEN -1 ELSE a.idx

EntIdx(ents, n) == IF \E i \in DOMAIN ents : ents[i].name = n
                   THEN CHOOSE i \in DOMAIN ents : ents[i].name = n ELSE 0

RECURSIVE TmplFold(_, _, _, _)
TmplFold(attrs, i, ver, acc) ==
    IF i > Len(attrs) \/ acc.err # "" THEN acc
    ELSE LET a == attrs[i]
             k == EntIdx(acc.ents, a.name)
             idx == EffIdx(a, ver)
         IN
         IF ~AttrSupported(a.name, ver) THEN [acc EXCEPT !.err = "InvalidField"]
         ELSE IF AttrMulti(a.name)
              THEN IF idx = -1 /\ k # 0 THEN [acc EXCEPT !.err = "InvalidField"]
                   ELSE IF k = 0
                        THEN TmplFold(attrs, i + 1, ver,
                                      [acc EXCEPT !.ents = Append(@, [name |-> a.name, vals |-> <<a.v>>])])
                        ELSE TmplFold(attrs, i + 1, ver,
                                      [acc EXCEPT !.ents[k].vals = Append(@, a.v)])
              ELSE IF idx # -1 /\ idx # 0 THEN [acc EXCEPT !.err = "InvalidField"]
                   ELSE IF k # 0 THEN [acc EXCEPT !.err = "IndexOutOfBounds"]
                   ELSE TmplFold(attrs, i + 1, ver,
                                 [acc EXCEPT !.ents = Append(@, [name |-> a.name, vals |-> <<a.v>>])])

Tmpl(attrs, ver) == TmplFold(attrs, 1, ver, [err |-> "", ents |-> <<>>])
TmplHas(t, n) == EntIdx(t.ents, n) # 0
TmplVal(t, n) == t.ents[EntIdx(t.ents, n)].vals[1]

(* _set_attribute_on_managed_object for one (name, values) entry.           *)
(* Returns [err, o].  err = "Internal" is an unanticipated exception.       *)
MaskSet(v) == Range(v)

SetSingle(o, n, v) ==
    LET differs(existingTruthy, same) == existingTruthy /\ ~same IN
    CASE n = "Cryptographic Algorithm" ->
            IF ~HasAlg(o.type) THEN [err |-> "InvalidField", o |-> o]
            ELSE IF differs(o.alg # "NA", o.alg = v) THEN [err |-> "InvalidField", o |-> o]
            ELSE IF o.alg # "NA" THEN [err |-> "", o |-> o]
            ELSE [err |-> "", o |-> [o EXCEPT !.alg = v]]
      [] n = "Cryptographic Length" ->
            IF ~HasAlg(o.type) THEN [err |-> "InvalidField", o |-> o]
            ELSE IF differs(o.len # 0, o.len = v) THEN [err |-> "InvalidField", o |-> o]
            ELSE IF o.len # 0 THEN [err |-> "", o |-> o]
            ELSE [err |-> "", o |-> [o EXCEPT !.len = v]]
      [] n = "Cryptographic Usage Mask" ->
            IF differs(o.mask # {}, o.mask = MaskSet(v)) THEN [err |-> "InvalidField", o |-> o]
            ELSE IF o.mask # {} THEN [err |-> "", o |-> o]
            ELSE [err |-> "", o |-> [o EXCEPT !.mask = MaskSet(v)]]
      [] n = "Operation Policy Name" ->
            IF differs(o.policy # "", o.policy = v) THEN [err |-> "InvalidField", o |-> o]
            ELSE IF o.policy # "" THEN [err |-> "", o |-> o]
            ELSE [err |-> "", o |-> [o EXCEPT !.policy = v]]
      [] n = "Sensitive" ->
            IF differs(o.sensitive, o.sensitive = v) THEN [err |-> "InvalidField", o |-> o]
            ELSE IF o.sensitive THEN [err |-> "", o |-> o]
            ELSE [err |-> "", o |-> [o EXCEPT !.sensitive = v]]
      [] OTHER -> [err |-> "InvalidField", o |-> o]

SetEntry(o, n, vals) ==
    IF ~AttrApplicable(n, o.type) THEN [err |-> "InvalidField", o |-> o]
    ELSE IF AttrMulti(n)
         THEN CASE n = "Name" ->
                     LET n2 == o.names \o vals IN
                     IF HasDup(n2) THEN [err |-> "InvalidField", o |-> o]
                     ELSE [err |-> "", o |-> [o EXCEPT !.names = n2]]
                [] n = "Application Specific Information" ->
                     [err |-> "", o |-> [o EXCEPT !.appinfo = @ \o vals]]
                [] n = "Object Group" ->
                     [err |-> "", o |-> [o EXCEPT !.groups = @ \o vals]]
                [] OTHER -> [err |-> "InvalidField", o |-> o]
         ELSE SetSingle(o, n, vals[1])

RECURSIVE SetEnts(_, _, _)
SetEnts(o, ents, i) ==
    IF i > Len(ents) THEN [err |-> "", o |-> o]
    ELSE LET r == SetEntry(o, ents[i].name, ents[i].vals) IN
         IF r.err # "" THEN r ELSE SetEnts(r.o, ents, i + 1)

ErrRes(st, err) == IF err = "Internal" THEN Internal(st) ELSE Fail(st, err)

--------------------------------------------------------------------------
(* object-creating operations *)

H_Create(st, req, p) ==
    IF p.otype # "SymmetricKey" THEN Fail(st, "InvalidField")
    ELSE LET t == Tmpl(p.attrs, req.ver) IN
    IF t.err # "" THEN Fail(st, t.err)
    ELSE IF ~TmplHas(t, "Cryptographic Algorithm") THEN Fail(st, "InvalidField")
    ELSE IF ~TmplHas(t, "Cryptographic Length") THEN Fail(st, "InvalidField")
    ELSE IF ~TmplHas(t, "Cryptographic Usage Mask") THEN Fail(st, "InvalidField")
    ELSE LET alg == TmplVal(t, "Cryptographic Algorithm")
             len == TmplVal(t, "Cryptographic Length") IN
    IF SymKeySizes(alg) = {} THEN Unmodelled(st)
    ELSE IF len \notin SymKeySizes(alg) THEN Fail(st, "InvalidField")
    ELSE LET base == [NewObj("SymmetricKey", req.user, req.now) EXCEPT !.alg = alg, !.len = len, !.fmt = "RAW"]
             s == SetEnts(base, t.ents, 1) IN
    IF s.err # "" THEN ErrRes(st, s.err)
    ELSE LET st2 == AddObj(st, s.o) IN Ok(st2, <<st2.seq>>)

\* common attributes are propagated where not overridden
MergeCommon(own, common) ==
    own.ents \o SelectSeq(common.ents, LAMBDA e : EntIdx(own.ents, e.name) = 0)

H_CreateKeyPair(st, req, p) ==
    LET tp == Tmpl(p.pub, req.ver)
        tr == Tmpl(p.priv, req.ver)
        tc == Tmpl(p.common, req.ver) IN
    \* templates are processed public, private, common
    IF tp.err # "" THEN Fail(st, tp.err)
    ELSE IF tr.err # "" THEN Fail(st, tr.err)
    ELSE IF tc.err # "" THEN Fail(st, tc.err)
    ELSE LET pub == [err |-> "", ents |-> MergeCommon(tp, tc)]
             prv == [err |-> "", ents |-> MergeCommon(tr, tc)] IN
    IF ~TmplHas(pub, "Cryptographic Algorithm") \/ ~TmplHas(pub, "Cryptographic Length")
       \/ ~TmplHas(pub, "Cryptographic Usage Mask") THEN Fail(st, "InvalidField")
    ELSE IF ~TmplHas(prv, "Cryptographic Algorithm") \/ ~TmplHas(prv, "Cryptographic Length")
       \/ ~TmplHas(prv, "Cryptographic Usage Mask") THEN Fail(st, "InvalidField")
    ELSE IF TmplVal(pub, "Cryptographic Algorithm") # TmplVal(prv, "Cryptographic Algorithm") THEN Fail(st, "InvalidField")
    ELSE IF TmplVal(pub, "Cryptographic Length") # TmplVal(prv, "Cryptographic Length") THEN Fail(st, "InvalidField")
    ELSE LET alg == TmplVal(pub, "Cryptographic Algorithm")
             len == TmplVal(pub, "Cryptographic Length") IN
    IF alg # "RSA" THEN Fail(st, "InvalidField")
    ELSE IF len \notin {512, 1024, 2048} THEN Unmodelled(st)
    ELSE LET bpub == [NewObj("PublicKey", req.user, req.now) EXCEPT !.alg = alg, !.len = len, !.fmt = "PKCS_1"]
             bprv == [NewObj("PrivateKey", req.user, req.now) EXCEPT !.alg = alg, !.len = len, !.fmt = "PKCS_8"]
             spub == SetEnts(bpub, pub.ents, 1)
             sprv == SetEnts(bprv, prv.ents, 1) IN
    IF spub.err # "" THEN ErrRes(st, spub.err)
    ELSE IF sprv.err # "" THEN ErrRes(st, sprv.err)
    ELSE LET st1 == AddObj(st, spub.o)
             st2 == AddObj(st1, sprv.o) IN
         \* one commit for both; the placeholder is the private key
         Ok(st2, <<st2.seq, st1.seq>>)       \* <<private, public>>

\* p.obj = [type, val, alg, len, fmt, sub, wrapped]
H_Register(st, req, p) ==
    IF p.otype = "Template" THEN Fail(st, "InvalidField")
    ELSE IF ~p.hasobj THEN Fail(st, "InvalidField")
    ELSE LET t == Tmpl(p.attrs, req.ver) IN
    IF t.err # "" THEN Fail(st, t.err)
    ELSE IF p.obj.wrapped THEN Unmodelled(st)
    \* a symmetric key whose stated length does not match its value is refused
    \* only X.509 certificates can be stored
    ELSE IF p.otype = "Certificate" /\ p.obj.sub # "X_509" THEN Fail(st, "InvalidField")
    \* a key block without cryptographic algorithm or length cannot be stored
    ELSE IF HasAlg(p.otype) /\ (p.obj.alg = "NA" \/ p.obj.len = 0) THEN Fail(st, "InvalidField")
    ELSE IF p.otype = "SymmetricKey" /\ p.obj.len # 8 * p.obj.vlen THEN Fail(st, "InvalidField")
    ELSE LET base == [NewObj(p.otype, req.user, req.now) EXCEPT
                        !.alg = IF HasAlg(p.otype) THEN p.obj.alg ELSE "NA",
                        !.len = IF HasAlg(p.otype) THEN p.obj.len ELSE 0,
                        !.fmt = IF HasFmt(p.otype) THEN p.obj.fmt ELSE "NA",
                        !.val = p.obj.val, !.sub = p.obj.sub]
             s == SetEnts(base, t.ents, 1) IN
    IF s.err # "" THEN ErrRes(st, s.err)
    ELSE LET st2 == AddObj(st, s.o) IN Ok(st2, <<st2.seq>>)

\* DeriveKey: guards and the creation step; the derived bytes are the backend's
RECURSIVE DeriveBases(_, _, _, _)
DeriveBases(st, id, uids, i) ==   \* "" or the failure reason of the first bad base object
    IF i > Len(uids) THEN [err |-> "", mc |-> ""]
    ELSE LET l == LoadDirect(st, id, uids[i], "Get") IN
         IF ~l.ok THEN [err |-> l.reason, mc |-> "NotFound"]
         ELSE LET o == st.objs[l.u] IN
              IF o.type \notin {"SecretData", "SymmetricKey", "PublicKey", "PrivateKey"} THEN [err |-> "InvalidField", mc |-> "Other"]
              ELSE IF "DERIVE_KEY" \notin o.mask THEN [err |-> "InvalidField", mc |-> "Other"]
              ELSE DeriveBases(st, id, uids, i + 1)

H_DeriveKey(st, req, p) ==
    LET t == Tmpl(p.attrs, req.ver) IN
    IF t.err # "" THEN Fail(st, t.err)
    ELSE IF p.otype \notin {"SymmetricKey", "SecretData"} THEN Fail(st, "InvalidField")
    ELSE LET b == DeriveBases(st, Ident(req), p.uids, 1) IN
    IF b.err # "" THEN FailC(st, b.err, b.mc)
    ELSE IF Len(p.uids) = 0 THEN Unmodelled(st)
    ELSE IF ~TmplHas(t, "Cryptographic Length") THEN Fail(st, "InvalidField")
    ELSE LET len == TmplVal(t, "Cryptographic Length") IN
    IF len % 8 # 0 THEN Fail(st, "InvalidField")
    ELSE IF p.otype = "SymmetricKey" /\ ~TmplHas(t, "Cryptographic Algorithm") THEN Fail(st, "InvalidField")
    ELSE Unmodelled(st)      \* derivation itself: CryptoTerms

--------------------------------------------------------------------------
(* lifecycle *)

H_Activate(st, req, p) ==
    LET l == Load(st, Ident(req), p.uid, "Activate") IN
    IF ~l.ok THEN NotFound(st, l)
    ELSE LET o == st.objs[l.u] IN
    IF ~HasState(o.type) THEN Fail(st, "IllegalOperation")
    ELSE IF o.state # "PreActive" /\ Mut # "activate_any" THEN Fail(st, "PermissionDenied")
    ELSE Ok([st EXCEPT !.objs[l.u].state = "Active"], <<l.u>>)

H_Revoke(st, req, p) ==
    IF p.code = "" THEN Fail(st, "InvalidField")
    ELSE LET l == Load(st, Ident(req), p.uid, "Revoke") IN
    IF ~l.ok THEN NotFound(st, l)
    ELSE LET o == st.objs[l.u] IN
    IF ~HasState(o.type) THEN Fail(st, "IllegalOperation")
    ELSE IF p.code \in {"KEY_COMPROMISE", "CA_COMPROMISE"}
         THEN Ok([st EXCEPT !.objs[l.u].state = "Compromised"], <<l.u>>)
         ELSE IF o.state # "Active" /\ Mut # "revoke_any" THEN Fail(st, "IllegalOperation")
              ELSE Ok([st EXCEPT !.objs[l.u].state = "Deactivated"], <<l.u>>)

H_Destroy(st, req, p) ==
    LET l == Load(st, Ident(req), p.uid, "Destroy") IN
    IF ~l.ok THEN NotFound(st, l)
    ELSE LET o == st.objs[l.u] IN
    IF HasState(o.type) /\ o.state = "Active" /\ Mut # "destroy_active" THEN Fail(st, "PermissionDenied")
    ELSE Ok([st EXCEPT !.objs = DelObj(st.objs, l.u)], <<l.u>>)

--------------------------------------------------------------------------
(* reading *)

\* the value the engine reads for an attribute; Absent = None / not readable
Absent == [absent |-> TRUE]
Present(v) == [absent |-> FALSE, v |-> v]

AttrVal(o, u, n) ==
    CASE n = "Unique Identifier" -> Present(ToString(u))
      [] n = "Name" -> Present(o.names)
      [] n = "Object Type" -> Present(o.type)
      [] n = "Cryptographic Algorithm" -> IF HasAlg(o.type) /\ o.alg # "NA" THEN Present(o.alg) ELSE Absent
      [] n = "Cryptographic Length" -> IF HasAlg(o.type) /\ o.len # 0 THEN Present(o.len) ELSE Absent
      [] n = "Certificate Type" -> IF o.type = "Certificate" THEN Present(o.sub) ELSE Absent
      [] n = "Operation Policy Name" -> Present(o.policy)
      [] n = "Cryptographic Usage Mask" -> IF HasMask(o.type) THEN Present(o.mask) ELSE Absent
      [] n = "State" -> IF HasState(o.type) THEN Present(o.state) ELSE Absent
      [] n = "Initial Date" -> Present(o.idate)
      [] n = "Object Group" -> Present(o.groups)
      [] n = "Application Specific Information" -> Present(o.appinfo)
      [] n = "Sensitive" -> Present(o.sensitive)
      [] OTHER -> Absent

\* reading alg / length of an object whose class has no such field raises
ReadRaises(o, n) == n \in {"Cryptographic Algorithm", "Cryptographic Length"} /\ ~HasAlg(o.type)

\* _get_attributes_from_managed_object for one name: a sequence of [name, idx, v]
AttrsFor(o, u, n, ver) ==
    IF ~AttrSupported(n, ver) THEN <<>>
    ELSE IF AttrDeprecated(n, ver) THEN <<>>
    ELSE IF ~AttrApplicable(n, o.type) THEN <<>>
    ELSE LET a == AttrVal(o, u, n) IN
         IF a.absent THEN <<>>
         ELSE IF AttrMulti(n)
              THEN [i \in 1..Len(a.v) |-> [name |-> n, idx |-> IF ver >= 20 THEN -1 ELSE i - 1, v |-> a.v[i]]]
              ELSE <<[name |-> n, idx |-> -1, v |-> a.v]>>

RECURSIVE AttrsOfNames(_, _, _, _, _)
AttrsOfNames(o, u, names, i, ver) ==
    IF i > Len(names) THEN <<>>
    ELSE AttrsFor(o, u, names[i], ver) \o AttrsOfNames(o, u, names, i + 1, ver)

AllRuleNames == [i \in DOMAIN AttrRules |-> AttrRules[i].name]

RECURSIVE DedupFrom(_, _, _)
DedupFrom(s, i, acc) == IF i > Len(s) THEN acc
                        ELSE DedupFrom(s, i + 1, IF s[i] \in Range(acc) THEN acc ELSE Append(acc, s[i]))
Dedup(s) == DedupFrom(s, 1, <<>>)

H_GetAttributes(st, req, p) ==
    LET l == Load(st, Ident(req), p.uid, "GetAttributes") IN
    IF ~l.ok THEN NotFound(st, l)
    ELSE LET names == IF Len(p.names) = 0 THEN AllRuleNames ELSE Dedup(p.names) IN
         [Ok(st, <<l.u>>) EXCEPT !.attrs = AttrsOfNames(st.objs[l.u], l.u, names, 1, req.ver)]

H_GetAttributeList(st, req, p) ==
    LET l == Load(st, Ident(req), p.uid, "GetAttributeList") IN
    IF ~l.ok THEN NotFound(st, l)
    ELSE LET as == AttrsOfNames(st.objs[l.u], l.u, AllRuleNames, 1, req.ver) IN
         \* the response payload keeps the first occurrence of each name
         [Ok(st, <<l.u>>) EXCEPT !.names = Dedup([i \in DOMAIN as |-> as[i].name])]

\* p = [uid, fmt ("" = none), comp ("" = none), wrap (bool), w = [method, haskey, kuid, hasmac, anames (bool), enc]]
H_Get(st, req, p) ==
    IF p.comp # "" THEN Fail(st, "KeyCompressionTypeNotSupported")
    ELSE LET l == Load(st, Ident(req), p.uid, "Get") IN
    IF ~l.ok THEN NotFound(st, l)
    ELSE LET o == st.objs[l.u] IN
    IF p.fmt # "" /\ ~HasFmt(o.type) THEN Fail(st, "KeyFormatTypeNotSupported")
    ELSE IF p.fmt # "" /\ p.fmt # o.fmt THEN Fail(st, "KeyFormatTypeNotSupported")
    ELSE IF ~p.wrap THEN Ok(st, <<l.u>>)
    \* only objects with a key block can be handed out wrapped
    ELSE IF o.type \in {"Certificate", "OpaqueData"} THEN Fail(st, "IllegalOperation")
    ELSE IF p.w.method # "ENCRYPT" THEN Fail(st, "OperationNotSupported")
    ELSE IF p.w.haskey
         THEN LET k == LoadDirect(st, Ident(req), p.w.kuid, "Get") IN
              \* any failure to load the wrapping key is reported as not found
              IF ~k.ok THEN Fail(st, "ItemNotFound")
              ELSE LET ko == st.objs[k.u] IN
              IF ko.type # "SymmetricKey" THEN Fail(st, "IllegalOperation")
              ELSE IF ko.state # "Active" THEN Fail(st, "PermissionDenied")
              ELSE IF "WRAP_KEY" \notin ko.mask THEN Fail(st, "PermissionDenied")
              ELSE IF p.w.anames THEN Fail(st, "IllegalOperation")
              ELSE IF p.w.enc # "NO_ENCODING" THEN Fail(st, "EncodingOptionError")
              \* the wrapping algorithm comes from the key information's cryptographic parameters
              ELSE IF p.w.nocp THEN Fail(st, "InvalidField")
              ELSE Backend(st, <<l.u>>)
         ELSE Fail(st, "PermissionDenied")

--------------------------------------------------------------------------
(* cryptographic uses: guards in code order; the backend decides the rest *)

H_CryptoUse(st, req, op, p) ==
    LET l == Load(st, Ident(req), p.uid, "Get") IN
    IF ~l.ok THEN NotFound(st, l)
    ELSE LET o == st.objs[l.u] IN
    IF ~p.hascp THEN Fail(st, "InvalidField")
    ELSE IF o.type \notin KindFor(op) THEN Fail(st, "PermissionDenied")
    ELSE IF o.state # "Active" /\ Mut # "use_inactive" THEN Fail(st, "PermissionDenied")
    ELSE IF BitFor(op) \notin o.mask /\ Mut # "use_unmasked" THEN Fail(st, "PermissionDenied")
    ELSE Backend(st, <<l.u>>)

\* p = [uid, hasalg (bool: algorithm given in the parameters), hasdata]
H_MAC(st, req, p) ==
    LET l == Load(st, Ident(req), p.uid, "Get") IN
    IF ~l.ok THEN NotFound(st, l)
    ELSE LET o == st.objs[l.u] IN
    IF ~p.hasalg /\ ~(HasAlg(o.type) /\ o.alg # "NA") THEN Fail(st, "PermissionDenied")
    ELSE IF o.val = "" THEN Fail(st, "PermissionDenied")
    ELSE IF ~p.hasdata THEN Fail(st, "PermissionDenied")
    ELSE IF ~HasState(o.type) THEN Fail(st, "PermissionDenied")
    ELSE IF o.state # "Active" THEN Fail(st, "PermissionDenied")
    ELSE IF "MAC_GENERATE" \notin o.mask THEN Fail(st, "PermissionDenied")
    ELSE Backend(st, <<l.u>>)

--------------------------------------------------------------------------
(* Locate *)

\* one filter against one object: "match" / "nomatch" / "skip" / "date" / an error reason
FilterOne(o, u, f) ==
    \* an attribute without a rule set applies to no object; an object without a value for
    \* the attribute does not match
    IF ~HasRule(f.name) THEN "nomatch"
    ELSE IF ~AttrApplicable(f.name, o.type) THEN "nomatch"
    ELSE LET a == AttrVal(o, u, f.name) IN
    IF a.absent THEN "nomatch"
    ELSE CASE f.name = "Application Specific Information" -> IF \E i \in DOMAIN a.v : a.v[i] = f.v THEN "match" ELSE "nomatch"
           [] f.name = "Object Group" -> IF f.v \in Range(a.v) THEN "match" ELSE "nomatch"
           [] f.name = "Name" -> IF f.v \in Range(a.v) THEN "match" ELSE "nomatch"
           [] f.name = "Cryptographic Usage Mask" -> IF Range(f.v) \subseteq a.v THEN "match" ELSE "nomatch"
           [] f.name = "Initial Date" -> "date"
           [] OTHER -> IF f.v = a.v THEN "match" ELSE "nomatch"

\* _track_date_attributes
TrackDate(d, v) ==
    IF ~d.hasStart THEN [d EXCEPT !.hasStart = TRUE, !.start = v]
    ELSE IF ~d.hasEnd THEN IF v > d.start THEN [d EXCEPT !.hasEnd = TRUE, !.end = v]
                           ELSE [d EXCEPT !.hasEnd = TRUE, !.end = d.start, !.start = v]
    ELSE [d EXCEPT !.err = TRUE]

NoDates == [hasStart |-> FALSE, hasEnd |-> FALSE, start |-> 0, end |-> 0, err |-> FALSE, seen |-> FALSE]

ValidDate(v, d) ==
    IF d.hasStart THEN IF d.hasEnd THEN v >= d.start /\ v <= d.end ELSE v = d.start
    ELSE TRUE

\* all filters against one object, in order: "match" / "nomatch" / error reason
RECURSIVE ObjMatch(_, _, _, _, _)
ObjMatch(o, u, filters, i, d) ==
    IF i > Len(filters)
    THEN IF d.seen /\ o.idate # 0 /\ ~ValidDate(o.idate, d) THEN "nomatch" ELSE "match"
    ELSE LET r == FilterOne(o, u, filters[i]) IN
         CASE r = "nomatch" -> "nomatch"
           [] r = "Internal" -> "Internal"
           [] r = "date" -> LET d2 == TrackDate([d EXCEPT !.seen = TRUE], filters[i].v) IN
                            IF d2.err THEN "InvalidField" ELSE ObjMatch(o, u, filters, i + 1, d2)
           [] OTHER -> ObjMatch(o, u, filters, i + 1, d)

\* insertion of u into a list sorted by initial date descending, stable (ties keep uid order)
RECURSIVE SortDesc(_, _)
SortDesc(st, us) ==    \* us: set of uids
    IF us = {} THEN <<>>
    ELSE LET best == CHOOSE u \in us : \A w \in us :
                        \/ st.objs[u].idate > st.objs[w].idate
                        \/ (st.objs[u].idate = st.objs[w].idate /\ u <= w)
         IN <<best>> \o SortDesc(st, us \ {best})

Slice(s, off, max) ==
    LET a == IF off < 0 THEN 0 ELSE off
        rest == IF a >= Len(s) THEN <<>> ELSE SubSeq(s, a + 1, Len(s))
    IN IF max < 0 THEN rest ELSE SubSeq(rest, 1, Min2(max, Len(rest)))

\* p = [filters, offset (-1 = none), max (-1 = none)]
LocateVisible(st, id) == {u \in Uids(st) : Mut = "locate_unfiltered" \/ Allowed(st, id, u, "Locate")}

H_Locate(st, req, p) ==
    LET vis == LocateVisible(st, Ident(req))
        verdict(u) == ObjMatch(st.objs[u], u, p.filters, 1, NoDates)
        errs == {u \in vis : verdict(u) \notin {"match", "nomatch"}} IN
    \* a negative count is no page (-1 is this model's marker for "absent")
    IF p.offset < -1 \/ p.max < -1 THEN Fail(st, "InvalidField")
    \* a filter on an attribute the request's version does not know yet is refused - whatever is stored
    ELSE IF \E i \in DOMAIN p.filters : HasRule(p.filters[i].name) /\ ~AttrSupported(p.filters[i].name, req.ver)
    THEN Fail(st, "InvalidField")
    ELSE IF Len(p.filters) > 0 /\ errs # {}
    THEN LET first == CHOOSE u \in errs : \A w \in errs : u <= w IN
         IF verdict(first) = "Internal" THEN Internal(st) ELSE Fail(st, verdict(first))
    ELSE LET m == IF Len(p.filters) = 0 THEN vis ELSE {u \in vis : verdict(u) = "match"} IN
         Ok(st, Slice(SortDesc(st, m), p.offset, p.max))

--------------------------------------------------------------------------
(* attribute operations *)

\* value equality per attribute (current-attribute matching in KMIP 2.0)
InstIndex(o, u, n, v) ==    \* index (0-based) of the instance equal to v, or -1
    CASE n = "Name" -> FirstIndex(o.names, v) - 1
      [] n = "Object Group" -> FirstIndex(o.groups, v) - 1
      [] n = "Application Specific Information" -> FirstIndex(o.appinfo, v) - 1
      [] n = "Cryptographic Usage Mask" -> IF HasMask(o.type) /\ Range(v) = o.mask THEN 0 ELSE -1
      [] OTHER -> LET a == AttrVal(o, u, n) IN IF ~a.absent /\ a.v = v THEN 0 ELSE -1

SetAt(o, n, i, v) ==       \* i is 0-based
    CASE n = "Name" -> [o EXCEPT !.names[i + 1] = v]
      [] n = "Object Group" -> [o EXCEPT !.groups[i + 1] = v]
      [] n = "Application Specific Information" -> [o EXCEPT !.appinfo[i + 1] = v]
      [] OTHER -> o

InstCount(o, n) ==
    CASE n = "Name" -> Len(o.names)
      [] n = "Object Group" -> Len(o.groups)
      [] n = "Application Specific Information" -> Len(o.appinfo)
      [] OTHER -> 0

ListAttrs == {"Name", "Object Group", "Application Specific Information"}

H_SetAttribute(st, req, p) ==
    LET l == Load(st, Ident(req), p.uid, "SetAttribute") IN
    IF ~l.ok THEN NotFound(st, l)
    ELSE LET n == p.new.name  o == st.objs[l.u] IN
    IF ~HasRule(n) THEN Fail(st, "ItemNotFound")      \* a name the server has no rule for (Always Sensitive, Extractable ...)
    ELSE IF AttrMulti(n) THEN Fail(st, "MultiValuedAttribute")
    ELSE IF ~AttrModifiable(n) THEN Fail(st, "ReadOnlyAttribute")
    ELSE LET s == SetEntry(o, n, <<p.new.v>>) IN
    IF s.err # "" THEN ErrRes(st, s.err)
    ELSE Ok([st EXCEPT !.objs[l.u] = s.o], <<l.u>>)

\* KMIP 2.0 form: p = [uid, hascur, cur = [name, v], new = [name, v]]
H_Modify20(st, req, p) ==
    LET l == Load(st, Ident(req), p.uid, "ModifyAttribute") IN
    IF ~l.ok THEN NotFound(st, l)
    ELSE LET n == p.new.name  o == st.objs[l.u] IN
    IF ~HasRule(n) THEN Fail(st, "ItemNotFound")
    ELSE IF ~AttrModifiable(n) THEN Fail(st, "PermissionDenied")
    \* the current attribute must be an instance of the attribute that is modified
    ELSE IF p.hascur /\ p.cur.name # n THEN Fail(st, "AttributeNotFound")
    ELSE IF AttrMulti(n)
         THEN IF ~p.hascur THEN Fail(st, "AttributeInstanceNotFound")
              ELSE IF n \notin ListAttrs THEN Fail(st, "AttributeNotFound")
              ELSE LET i == InstIndex(o, l.u, n, p.cur.v) IN
                   IF i < 0 THEN Fail(st, "AttributeNotFound")
                   ELSE Ok([st EXCEPT !.objs[l.u] = SetAt(o, n, i, p.new.v)], <<l.u>>)
         ELSE IF ~p.hascur /\ AttrVal(o, l.u, n).absent THEN Fail(st, "AttributeNotFound")
              ELSE IF p.hascur /\ InstIndex(o, l.u, n, p.cur.v) < 0 THEN Fail(st, "AttributeNotFound")
              ELSE LET s == SetSingle(o, n, p.new.v) IN
                   IF s.err # "" THEN ErrRes(st, s.err)
                   ELSE Ok([st EXCEPT !.objs[l.u] = s.o], <<l.u>>)

\* KMIP 1.x form: p = [uid, attr = [name, idx (-1 = absent), v]]
H_Modify1x(st, req, p) ==
    LET l == Load(st, Ident(req), p.uid, "ModifyAttribute") IN
    IF ~l.ok THEN NotFound(st, l)
    ELSE LET n == p.attr.name  o == st.objs[l.u] IN
    IF ~HasRule(n) THEN Fail(st, "ItemNotFound")      \* see KNOWN/fixed: unknown names
    ELSE IF ~AttrModifiable(n) THEN Fail(st, "PermissionDenied")
    ELSE IF AttrMulti(n)
         THEN IF n \notin ListAttrs THEN Fail(st, "ItemNotFound")     \* the server stores no instance
              ELSE LET i == IF p.attr.idx = -1 THEN 0 ELSE p.attr.idx IN
                   IF i >= 0 /\ i < InstCount(o, n)
                   THEN LET o2 == SetAt(o, n, i, p.attr.v) IN
                        [Ok([st EXCEPT !.objs[l.u] = o2], <<l.u>>) EXCEPT
                           !.attrs = <<[name |-> n, idx |-> i, v |-> p.attr.v]>>]
                   ELSE Fail(st, "ItemNotFound")
         ELSE IF p.attr.idx # -1 THEN Fail(st, "InvalidField")
              ELSE IF Len(AttrsFor(o, l.u, n, req.ver)) = 0 THEN Fail(st, "InvalidField")
              ELSE LET s == SetSingle(o, n, p.attr.v) IN
                   IF s.err # "" THEN ErrRes(st, s.err)
                   ELSE [Ok([st EXCEPT !.objs[l.u] = s.o], <<l.u>>) EXCEPT
                           !.attrs = AttrsFor(s.o, l.u, n, req.ver)]

DelAt(o, n, i) ==      \* 0-based
    CASE n = "Name" -> [o EXCEPT !.names = SeqRemoveAt(@, i + 1)]
      [] n = "Object Group" -> [o EXCEPT !.groups = SeqRemoveAt(@, i + 1)]
      [] n = "Application Specific Information" -> [o EXCEPT !.appinfo = SeqRemoveAt(@, i + 1)]
      [] OTHER -> o
DelAll(o, n) ==
    CASE n = "Name" -> [o EXCEPT !.names = <<>>]
      [] n = "Object Group" -> [o EXCEPT !.groups = <<>>]
      [] n = "Application Specific Information" -> [o EXCEPT !.appinfo = <<>>]
      [] OTHER -> o

\* _delete_attribute_from_managed_object; mode "value" / "index" / "all"
DeleteFrom(st, u, n, mode, i, v) ==
    LET o == st.objs[u] IN
    IF ~HasRule(n) THEN Fail(st, "ItemNotFound")
    ELSE IF ~AttrApplicable(n, o.type) THEN Fail(st, "ItemNotFound")
    ELSE IF ~AttrDeletable(n) THEN Fail(st, "PermissionDenied")
    ELSE IF ~AttrMulti(n) THEN Fail(st, "InvalidField")
    ELSE IF n \notin ListAttrs THEN Fail(st, "InvalidField")
    ELSE CASE mode = "value" ->
                LET k == InstIndex(o, u, n, v) IN
                IF k < 0 THEN Fail(st, "ItemNotFound")
                ELSE Ok([st EXCEPT !.objs[u] = DelAt(o, n, k)], <<u>>)
           [] mode = "index" ->
                IF i >= 0 /\ i < InstCount(o, n)
                THEN Ok([st EXCEPT !.objs[u] = DelAt(o, n, i)], <<u>>)
                ELSE Fail(st, "ItemNotFound")
           [] OTHER -> Ok([st EXCEPT !.objs[u] = DelAll(o, n)], <<u>>)

\* 1.x: p = [uid, name ("" = missing), idx (-99 = absent)]
H_Delete1x(st, req, p) ==
    LET l == Load(st, Ident(req), p.uid, "DeleteAttribute") IN
    IF ~l.ok THEN NotFound(st, l)
    ELSE IF p.name = "" THEN Fail(st, "InvalidMessage")
    ELSE LET i == IF p.idx = -99 THEN 0 ELSE p.idx
             o == st.objs[l.u]
             existing == IF HasRule(p.name) THEN AttrsFor(o, l.u, p.name, req.ver) ELSE <<>> IN
         IF Len(existing) > 0 /\ i # 0 /\ ~(i >= 0 /\ i < Len(existing)) THEN Fail(st, "ItemNotFound")
         ELSE LET r == DeleteFrom(st, l.u, p.name, "index", i, 0) IN
              IF r.status # "Success" THEN r
              ELSE [r EXCEPT !.attrs = IF Len(existing) > 0 THEN <<existing[IF i = 0 THEN 1 ELSE i + 1]>> ELSE <<>>]

\* 2.0: p = [uid, hascur, cur = [name, v], ref ("" = none)]
H_Delete20(st, req, p) ==
    LET l == Load(st, Ident(req), p.uid, "DeleteAttribute") IN
    IF ~l.ok THEN NotFound(st, l)
    ELSE IF p.hascur THEN DeleteFrom(st, l.u, p.cur.name, "value", 0, p.cur.v)
    ELSE IF p.ref # "" THEN DeleteFrom(st, l.u, p.ref, "all", 0, 0)
    ELSE Fail(st, "InvalidMessage")

--------------------------------------------------------------------------
(* Query / DiscoverVersions *)

H_Query(st, req, p) ==
    [Ok(st, <<>>) EXCEPT !.names = IF p.qops THEN QueryOps(req.ver) ELSE <<>>]

\* p.versions: sequence of version codes; answer newest first
RECURSIVE SortVersionsDesc(_)
SortVersionsDesc(S) == IF S = {} THEN <<>>
                       ELSE LET m == CHOOSE x \in S : \A y \in S : x >= y IN <<m>> \o SortVersionsDesc(S \ {m})
H_DiscoverVersions(st, req, p) ==
    [Ok(st, <<>>) EXCEPT !.attrs =
        \* the server's order of preference (newest first), whatever order the client used
        IF Len(p.versions) = 0 THEN VersionsDescending
        ELSE SelectSeq(VersionsDescending, LAMBDA v : v \in Range(p.versions))]

--------------------------------------------------------------------------
(* dispatch, batch, request *)

RunItem(st, req, it) ==
    LET op == it.op  p == it.p IN
    IF op \notin ServerOps THEN Fail(st, "OperationNotSupported")
    ELSE IF req.ver < MinVersion(op) THEN FailC(st, "OperationNotSupported", "OpVersion")
    ELSE CASE op = "Create" -> H_Create(st, req, p)
           [] op = "CreateKeyPair" -> H_CreateKeyPair(st, req, p)
           [] op = "Register" -> H_Register(st, req, p)
           [] op = "DeriveKey" -> H_DeriveKey(st, req, p)
           [] op = "Locate" -> H_Locate(st, req, p)
           [] op = "Get" -> H_Get(st, req, p)
           [] op = "GetAttributes" -> H_GetAttributes(st, req, p)
           [] op = "GetAttributeList" -> H_GetAttributeList(st, req, p)
           [] op = "Activate" -> H_Activate(st, req, p)
           [] op = "Revoke" -> H_Revoke(st, req, p)
           [] op = "Destroy" -> H_Destroy(st, req, p)
           [] op = "Query" -> H_Query(st, req, p)
           [] op = "DiscoverVersions" -> H_DiscoverVersions(st, req, p)
           [] op \in {"Encrypt", "Decrypt", "Sign", "SignatureVerify"} -> H_CryptoUse(st, req, op, p)
           [] op = "MAC" -> H_MAC(st, req, p)
           [] op = "SetAttribute" -> H_SetAttribute(st, req, p)
           [] op = "ModifyAttribute" -> IF req.ver >= 20 THEN H_Modify20(st, req, p) ELSE H_Modify1x(st, req, p)
           [] op = "DeleteAttribute" -> IF req.ver >= 20 THEN H_Delete20(st, req, p) ELSE H_Delete1x(st, req, p)

Raised(st, reason, mc) == [st |-> st, kind |-> "raised", reason |-> reason, mc |-> mc, items |-> <<>>]

RECURSIVE BatchFold(_, _, _, _)
BatchFold(st, req, k, acc) ==
    IF k > Len(req.items) THEN [st |-> st, kind |-> "resp", reason |-> "", mc |-> "", items |-> acc]
    ELSE LET r == RunItem(st, req, req.items[k])
             acc2 == Append(acc, r) IN
         IF r.status # "Success" /\ req.opt # "Continue"
         THEN [st |-> r.st, kind |-> "resp", reason |-> "", mc |-> "", items |-> acc2]
         ELSE BatchFold(r.st, req, k + 1, acc2)

\* request level: version, time stamp, asynchronous indicator, Undo, batch ids;
\* the placeholder is valid within one batch only
RunRequestFrom(st, req) ==
    IF req.ver \notin SupportedVersions THEN Raised(st, "InvalidMessage", "Version")
    ELSE IF req.ts = "Future" THEN Raised(st, "InvalidMessage", "Future")
    ELSE IF req.ts = "Stale" THEN Raised(st, "InvalidMessage", "Stale")
    ELSE IF req.async THEN Raised(st, "InvalidMessage", "Async")
    ELSE IF req.opt = "Undo" THEN Raised(st, "InvalidMessage", "Undo")
    ELSE IF Len(req.items) > 1 /\ \E k \in DOMAIN req.items : req.items[k].bid = ""
         THEN Raised(st, "InvalidMessage", "BatchId")
    ELSE BatchFold(st, req, 1, <<>>)

RunRequest(st0, req) == RunRequestFrom([st0 EXCEPT !.ph = NoUid], req)

\* a server restart keeps the database and resets the transient fields
Restart(st) == [st EXCEPT !.ph = NoUid]
=============================================================================
