------------------------------ MODULE TraceC20 ------------------------------
(* C20: secrets stay out of logs and error messages at the default level.
   A trace is the sequence of log records and result messages observed while a
   history with high-entropy canary values (key material, secret data,
   passwords, plaintext) ran against the real server / client.  The harness
   marks each record with `tainted` (a canary occurs in it in one of the searched
   encodings).  Invariant: no record of level >= INFO (20) and no result message
   is tainted.  Positive control per trace file: some DEBUG record IS tainted
   (the canary is visible where it may be). *)
EXTENDS Naturals, Sequences, FiniteSets, TLC, Json, IOUtils

Recs == JsonDeserialize(IOEnv.TRACE_FILE)
INFO == 20

VARIABLES n, done
Init == n \in 1..Len(Recs) /\ done = FALSE
Leak(r) == r.tainted /\ (r.kind = "message" \/ r.level >= INFO)
Next == /\ ~done
        /\ Leak(Recs[n]) => PrintT("@V@" \o ToJson([id |-> Recs[n].id]))
        /\ (Recs[n].tainted /\ Recs[n].kind = "log" /\ Recs[n].level < INFO) => PrintT("@CTRL@" \o ToJson([id |-> Recs[n].id]))
        /\ done' = TRUE /\ n' = n
Spec == Init /\ [][Next]_<<n, done>>
=============================================================================
