------------------------------ MODULE MC_C04 ------------------------------
(* C04: lifecycle is monotone and gates every cryptographic use.
   All histories over creation (several masks / types), Activate, Revoke with
   three reason codes, Destroy, the cryptographic uses and wrapping-key use. *)
EXTENDS MC_Engine, BuiltinPolicies

AllBits == <<"ENCRYPT", "DECRYPT", "SIGN", "VERIFY", "MAC_GENERATE", "WRAP_KEY", "DERIVE_KEY">>
Masks == {<<>>, <<"ENCRYPT">>, <<"SIGN">>, AllBits, <<"EXPORT", "UNRESTRICTED">>}     \* the last one: bits that grant no operation the server performs
Codes == {"KEY_COMPROMISE", "CESSATION_OF_OPERATION", "CA_COMPROMISE"}

One(op, p) == Rq("alice", 12, "None", <<It(op, "", p)>>)

MenuC04(s) ==
    LET us == Candidates(s) IN
    {One("Create", PCreate(m, <<>>)) : m \in Masks}
    \cup {One("Register", PRegister(t, AllBits, <<>>)) : t \in {"PrivateKey", "PublicKey", "SecretData", "OpaqueData", "Certificate"}}
    \cup {One("Register", PRegisterRaw(t, AllBits)) : t \in {"PrivateKey", "PublicKey", "SplitKey"}}
    \cup {One("Activate", PUid(u)) : u \in us}
    \cup {One("Revoke", PRevoke(u, c)) : u \in us, c \in Codes}
    \cup {One("Destroy", PUid(u)) : u \in us}
    \cup {One(op, PCrypto(u)) : op \in {"Encrypt", "Decrypt", "Sign", "SignatureVerify"}, u \in us}
    \cup {One("MAC", PMac(u)) : u \in us}
    \cup {One("Get", PGetWrap(u, k)) : u \in us, k \in us}

\* the relation whose "never returns" consequence tlaps/LifecycleProof.tla proves for histories of any length is the
\* relation clause C04_moves demands of every step of the engine
LC == INSTANCE Lifecycle WITH state <- "PreActive", seen <- {"PreActive"}
ASSUME LifecycleRelationIsTheClause == LC!Moves = LcMoves

CheckedC04 == {"C04_moves", "C04_initial", "C04_use", "C04_destroy", "C04_compromise", "C08_failclean", "C08_frame", "C07_fresh", "C13_item"}
=============================================================================
