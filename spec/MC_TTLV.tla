------------------------------- MODULE MC_TTLV -------------------------------
(* Design-level lemmas of the TTLV definition over a bounded universe of trees:
   the format is uniquely decodable (Parse(Enc(t)) = t), encodings are accepted
   (WellFormed(Enc(t))) and canonical (Enc(Parse(b).tree) = b); number encodings
   match two's complement at the boundaries. *)
EXTENDS TTLV

Leaves ==
    {[tag |-> 4325484, typ |-> TInteger, val |-> v] : v \in {<<0,0,0,0>>, <<127,255,255,255>>, <<128,0,0,0>>, <<255,255,255,255>>}}
    \cup {[tag |-> 4325377, typ |-> TLong, val |-> v] : v \in {Zeros(8), <<128,0,0,0,0,0,0,0>>, <<255,255,255,255,255,255,255,254>>}}
    \cup {[tag |-> 4325378, typ |-> TBigInt, val |-> v] : v \in {Zeros(8), Zeros(8) \o <<255,0,0,0,0,0,0,1>>}}
    \cup {[tag |-> 4325379, typ |-> TEnum, val |-> <<0,0,0,1>>], [tag |-> 4325380, typ |-> TBool, val |-> BoolVal(TRUE)],
          [tag |-> 4325380, typ |-> TBool, val |-> BoolVal(FALSE)],
          [tag |-> 4325381, typ |-> TDateTime, val |-> <<0,0,0,0,86,1,2,3>>], [tag |-> 4325382, typ |-> TInterval, val |-> <<0,1,81,128>>]}
    \cup {[tag |-> 5505025, typ |-> TText, val |-> [i \in 1..k |-> 65 + (i % 26)]] : k \in {0, 1, 7, 8, 9, 15, 16, 17}}
    \cup {[tag |-> 4325385, typ |-> TBytes, val |-> [i \in 1..k |-> (i * 37) % 256]] : k \in {0, 1, 7, 8, 9, 16}}

Struct(kids) == [tag |-> 4325496, typ |-> TStructure, val |-> kids]
Level1 == Leaves \cup {Struct(<<>>)} \cup {Struct(<<a>>) : a \in Leaves} \cup {Struct(<<a, b>>) : a \in Leaves, b \in Leaves}

VARIABLE t
Init == t \in Level1 \cup {Struct(<<Struct(<<a>>), b>>) : a \in Leaves, b \in Leaves}
Next == UNCHANGED t
Spec == Init /\ [][Next]_t

RoundTrip == LET b == Enc(t) p == Parse(b) IN p.ok /\ p.tree = t /\ Enc(p.tree) = b /\ Len(b) % 8 = 0

\* two's complement at the boundaries (sign + magnitude in, value bytes out)
Numbers ==
    /\ IntVal(FALSE, <<0,0,0,1>>) = <<0,0,0,1>>
    /\ IntVal(TRUE, <<0,0,0,1>>) = <<255,255,255,255>>
    /\ IntVal(TRUE, <<128,0,0,0>>) = <<128,0,0,0>>
    /\ IntVal(TRUE, <<0,0,0,0>>) = <<0,0,0,0>>
    /\ LongVal(TRUE, <<0,0,0,0,0,0,3,232>>) = <<255,255,255,255,255,255,252,24>>
    /\ BigVal(FALSE, <<128,0,0,0,0,0,0,0>>) = <<128,0,0,0,0,0,0,0>>      \* magnitude given WITH its sign byte elsewhere
    /\ BigVal(TRUE, <<0,0,3,232>>) = <<255,255,255,255,255,255,252,24>>
    /\ BigVal(FALSE, <<1>>) = <<0,0,0,0,0,0,0,1>>
\* ill-formed inputs are rejected
Rejects ==
    /\ ~WellFormed(<<66,0,1,2,0,0,0,4,0,0,0,1,0,0,0,1>>)            \* non-zero padding
    /\ ~WellFormed(<<66,0,1,2,0,0,0,8,0,0,0,1,0,0,0,0>>)            \* Integer with length 8
    /\ ~WellFormed(<<66,0,1,1,0,0,0,8,66,0,2,2,0,0,0,4,0,0,0,1,0,0,0,0>>)    \* child runs past the structure length
    /\ ~WellFormed(<<66,0,1,7,0,0,0,3,65,66,67,0,0,0,0,0,0,0,0,0,0,0,0,0>>)  \* trailing bytes
    /\ ~WellFormed(<<66,0,1,12,0,0,0,0>>)                            \* unknown type
    /\ WellFormed(<<66,0,1,7,0,0,0,3,65,66,67,0,0,0,0,0>>)
=============================================================================
