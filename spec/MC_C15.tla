------------------------------ MODULE MC_C15 ------------------------------
(* C15: attribute operations change only what they may, exactly as asked.
   Sequences of Set / Modify / DeleteAttribute in the KMIP 1.x index form and
   the KMIP 2.0 current / new / reference form, over every attribute name of
   the rule table that can be sent, indices absent / 0 / 1 / 2 / negative, on
   objects of three types with 0-2 instances of the multi-valued attributes. *)
EXTENDS MC_Engine, BuiltinPolicies

CONSTANTS Vers, LeafOps     \* LeafOps: attribute operations are leaves (edge emission)

Names1x == {"Name", "Object Group", "Application Specific Information", "Sensitive", "Operation Policy Name",
            "Cryptographic Usage Mask", "State", "Cryptographic Algorithm", "Cryptographic Length", "Initial Date",
            "Unique Identifier", "Object Type", "Contact Information", "Activation Date", "x-custom",
            \* more of the rule table, and names a request can carry although the server has no rule for them
            "Fresh", "Lease Time", "Deactivation Date", "Process Start Date", "Last Change Date", "Destroy Date",
            "Archive Date", "Compromise Date", "Certificate Type", "Certificate Length", "Digest", "Link",
            "Always Sensitive", "Extractable", "Never Extractable", "Original Creation Date"}
Names20 == Names1x \ {"x-custom", "Contact Information", "Digest", "Link"}
\* text-valued multi-instance attributes also get the empty value as a third candidate
TextMulti == {"Name", "Object Group", "Application Specific Information"}
Cands(n) == IF n \in TextMulti THEN {1, 2, 3} ELSE {1, 2}

\* two candidate values per attribute: one that is already there, one that is new
Val(n, k) ==
    CASE n = "Name" -> IF k = 1 THEN "n1" ELSE IF k = 2 THEN "n9" ELSE ""
      [] n = "Object Group" -> IF k = 1 THEN "og1" ELSE IF k = 2 THEN "og9" ELSE ""
      [] n = "Application Specific Information" -> IF k = 1 THEN <<"ns1", "d1">> ELSE IF k = 2 THEN <<"ns9", "d9">> ELSE <<"ns1", "">>
      [] n \in {"Fresh", "Always Sensitive", "Extractable", "Never Extractable"} -> k = 1
      [] n \in {"Lease Time", "Certificate Length"} -> IF k = 1 THEN 60 ELSE 61
      [] n \in {"Deactivation Date", "Process Start Date", "Last Change Date", "Destroy Date", "Archive Date",
                "Compromise Date", "Original Creation Date"} -> 7
      [] n = "Certificate Type" -> "X_509"
      [] n = "Sensitive" -> k = 1
      [] n = "Operation Policy Name" -> IF k = 1 THEN "default" ELSE "public"
      [] n = "Cryptographic Usage Mask" -> IF k = 1 THEN <<"ENCRYPT">> ELSE <<"ENCRYPT", "SIGN">>
      [] n = "State" -> IF k = 1 THEN "PreActive" ELSE "Active"
      [] n = "Cryptographic Algorithm" -> IF k = 1 THEN "AES" ELSE "TRIPLE_DES"
      [] n = "Cryptographic Length" -> IF k = 1 THEN 128 ELSE 256
      [] n = "Initial Date" -> IF k = 1 THEN 100 ELSE 5
      [] n = "Unique Identifier" -> IF k = 1 THEN "1" ELSE "7"
      [] n = "Object Type" -> IF k = 1 THEN "SymmetricKey" ELSE "SecretData"
      [] n = "Activation Date" -> 7
      [] OTHER -> "zz"

D(k, who, v, u, n, i, c, b) == [k |-> k, who |-> who, v |-> v, u |-> u, n |-> n, i |-> i, c |-> c, b |-> b]

Mk(d) ==
    LET Rr(op, p) == Rq(d.who, d.v, "None", <<It(op, "", p)>>) IN
    CASE d.k = "mk" -> Rr("Register", PRegister(d.n, <<"ENCRYPT">>,
                           IF d.i = 0 THEN <<>>
                           ELSE IF d.i = 1 THEN <<AI("Name", 0, "n1"), AI("Object Group", 0, "og1"),
                                                  AI("Application Specific Information", 0, <<"ns1", "d1">>)>>
                           ELSE <<AI("Name", 0, "n1"), AI("Name", 1, "n2"), AI("Object Group", 0, "og1"), AI("Object Group", 1, "og1"),
                                  AI("Application Specific Information", 0, <<"ns1", "d1">>),
                                  AI("Application Specific Information", 1, <<"ns2", "d2">>)>>))
      [] d.k = "mod1x" -> Rr("ModifyAttribute", [uid |-> d.u, attr |-> AI(d.n, d.i, Val(d.n, d.c))])
      [] d.k = "del1x" -> Rr("DeleteAttribute", [uid |-> d.u, name |-> d.n, idx |-> d.i])
      [] d.k = "mod20" -> Rr("ModifyAttribute", [uid |-> d.u, hascur |-> d.b, cur |-> A(d.n, Val(d.n, d.i)), new |-> A(d.n, Val(d.n, d.c))])
      \* the current attribute names ANOTHER attribute whose value happens to equal an instance of the one to modify
      [] d.k = "mod20x" -> Rr("ModifyAttribute", [uid |-> d.u, hascur |-> TRUE,
                                                  cur |-> IF d.n = "Sensitive" THEN A("Cryptographic Length", 1) ELSE A("Unique Identifier", Val(d.n, 1)),
                                                  new |-> A(d.n, Val(d.n, 2))])
      [] d.k = "delcur" -> Rr("DeleteAttribute", [uid |-> d.u, hascur |-> TRUE, cur |-> A(d.n, Val(d.n, d.c)), ref |-> ""])
      [] d.k = "delref" -> Rr("DeleteAttribute", [uid |-> d.u, hascur |-> FALSE, cur |-> A("", ""), ref |-> d.n])
      [] d.k = "set" -> Rr("SetAttribute", [uid |-> d.u, new |-> A(d.n, Val(d.n, d.c))])
      [] d.k = "getattrs" -> Rr("GetAttributes", PGetAttrs(d.u))

\* with two objects the menu concentrates on the stored multi-valued attributes (shared values
\* between objects, frame condition across objects)
FocusNames == {"Name", "Object Group", "Application Specific Information", "Sensitive", "Cryptographic Usage Mask"}
NamesAt(s, all) == IF s.seq >= 2 THEN all \cap FocusNames ELSE all

LastWasAttrOp == ev.kind = "req" /\ ev.req.items[1].op \in AttrOps
LeafView == <<st, g, LastWasAttrOp>>

MenuC15(s) ==
    IF LeafOps /\ LastWasAttrOp THEN {}
    ELSE IF s.seq = 0 THEN {D("mk", "alice", 12, 0, t, i, 0, FALSE) : t \in {"SymmetricKey", "SecretData", "OpaqueData"}, i \in {0, 1, 2}}
    ELSE (IF s.seq = 1 /\ MaxObjs >= 2 THEN {D("mk", "alice", 12, 0, "SymmetricKey", 1, 0, FALSE)} ELSE {})
         \cup UNION {
        (IF v >= 20
         THEN UNION {{D("mod20", w, v, u, n, ci, c, hc) : ci \in Cands(n), c \in Cands(n), hc \in BOOLEAN} : n \in NamesAt(s, Names20)}
              \cup {D("mod20x", w, v, u, n, 0, 0, TRUE) : n \in {"Object Group", "Name", "Sensitive"}}
              \cup UNION {{D("delcur", w, v, u, n, 0, c, FALSE) : c \in Cands(n)} : n \in NamesAt(s, Names20)}
              \cup {D("delref", w, v, u, n, 0, 0, FALSE) : n \in NamesAt(s, Names1x \cup {""})}
              \cup UNION {{D("set", w, v, u, n, 0, c, FALSE) : c \in Cands(n)} : n \in NamesAt(s, Names20)}
         ELSE UNION {{D("mod1x", w, v, u, n, i, c, FALSE) : i \in {-1, 0, 1, 2, -2}, c \in Cands(n)} : n \in NamesAt(s, Names1x)}
              \cup {D("del1x", w, v, u, n, i, 0, FALSE) : n \in NamesAt(s, Names1x \cup {""}), i \in {-99, 0, 1, 2, -1}})
        : w \in {"alice", "bob"}, v \in Vers, u \in {1, 2}}

CheckedC15 == {"C15_fixed", "C15_fail", "C15_exact", "C08_frame", "C08_failclean", "C13_item", "C03_effect", "C03_denial"}
=============================================================================
