--------------------------- MODULE SchemaPayloads1 ---------------------------
(* Operation payloads, part 1 (KMIP 1.x section 4 "Client-to-Server        *)
(* Operations"): cryptographic operations.                                 *)
EXTENDS KmipSchemaCore

SchemaPayloads1T == [
  EncryptRequestPayload |-> <<
      Opt("unique_identifier", "UNIQUE_IDENTIFIER", "text"),
      OptS("cryptographic_parameters", "CRYPTOGRAPHIC_PARAMETERS", "CryptographicParameters"),
      Req("data", "DATA", "bytes"),
      Opt("iv_counter_nonce", "IV_COUNTER_NONCE", "bytes"),
      Since(Opt("auth_additional_data", "AUTHENTICATED_ENCRYPTION_ADDITIONAL_DATA", "bytes"), 14) >>,
  EncryptResponsePayload |-> <<
      Req("unique_identifier", "UNIQUE_IDENTIFIER", "text"),
      Req("data", "DATA", "bytes"),
      Opt("iv_counter_nonce", "IV_COUNTER_NONCE", "bytes"),
      Since(Opt("auth_tag", "AUTHENTICATED_ENCRYPTION_TAG", "bytes"), 14) >>,
  DecryptRequestPayload |-> <<
      Opt("unique_identifier", "UNIQUE_IDENTIFIER", "text"),
      OptS("cryptographic_parameters", "CRYPTOGRAPHIC_PARAMETERS", "CryptographicParameters"),
      Req("data", "DATA", "bytes"),
      Opt("iv_counter_nonce", "IV_COUNTER_NONCE", "bytes"),
      Since(Opt("auth_additional_data", "AUTHENTICATED_ENCRYPTION_ADDITIONAL_DATA", "bytes"), 14),
      Since(Opt("auth_tag", "AUTHENTICATED_ENCRYPTION_TAG", "bytes"), 14) >>,
  DecryptResponsePayload |-> <<
      Req("unique_identifier", "UNIQUE_IDENTIFIER", "text"),
      Req("data", "DATA", "bytes") >>
]
ClassTagPayloads1 == [
  EncryptRequestPayload |-> "REQUEST_PAYLOAD", EncryptResponsePayload |-> "RESPONSE_PAYLOAD",
  DecryptRequestPayload |-> "REQUEST_PAYLOAD", DecryptResponsePayload |-> "RESPONSE_PAYLOAD" ]
ClassSincePayloads1 == [
  EncryptRequestPayload |-> <<12, 20>>, EncryptResponsePayload |-> <<12, 20>>,
  DecryptRequestPayload |-> <<12, 20>>, DecryptResponsePayload |-> <<12, 20>> ]
=============================================================================
