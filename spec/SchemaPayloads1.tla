--------------------------- MODULE SchemaPayloads1 ---------------------------
(* Operation payloads, part 1 (KMIP 1.x section 4 "Client-to-Server        *)
(* Operations"): cryptographic operations.                                 *)
EXTENDS KmipSchemaCore

SchemaPayloads1T == [
  EncryptRequestPayload |-> <<
      Opt("unique_identifier", "UNIQUE_IDENTIFIER", "text"),
      OptS("cryptographic_parameters", "CRYPTOGRAPHIC_PARAMETERS", "CryptographicParameters"),
      Req("data", "DATA", "bytes"),
      Opt("iv_counter_nonce", "IV_COUNTER_NONCE", "bytes"),
      Since(Opt("auth_additional_data", "AUTHENTICATED_ENCRYPTION_ADDITIONAL_DATA", "bytes"), 14) >>,
  EncryptResponsePayload |-> <<
      Req("unique_identifier", "UNIQUE_IDENTIFIER", "text"),
      Req("data", "DATA", "bytes"),
      Opt("iv_counter_nonce", "IV_COUNTER_NONCE", "bytes"),
      Since(Opt("auth_tag", "AUTHENTICATED_ENCRYPTION_TAG", "bytes"), 14) >>,
  DecryptRequestPayload |-> <<
      Opt("unique_identifier", "UNIQUE_IDENTIFIER", "text"),
      OptS("cryptographic_parameters", "CRYPTOGRAPHIC_PARAMETERS", "CryptographicParameters"),
      Req("data", "DATA", "bytes"),
      Opt("iv_counter_nonce", "IV_COUNTER_NONCE", "bytes"),
      Since(Opt("auth_additional_data", "AUTHENTICATED_ENCRYPTION_ADDITIONAL_DATA", "bytes"), 14),
      Since(Opt("auth_tag", "AUTHENTICATED_ENCRYPTION_TAG", "bytes"), 14) >>,
  DecryptResponsePayload |-> <<
      Req("unique_identifier", "UNIQUE_IDENTIFIER", "text"),
      Req("data", "DATA", "bytes") >>,
  \* KMIP 1.3 adds Correlation Value, Init Indicator, Final Indicator and 1.4 Digested Data to the Sign request
  \* (Data then being required only for single-part operations without Digested Data); SignRequestPayload has no
  \* constructor argument for them, so they are left out and Data stays required.
  SignRequestPayload |-> <<
      Opt("unique_identifier", "UNIQUE_IDENTIFIER", "text"),
      OptS("cryptographic_parameters", "CRYPTOGRAPHIC_PARAMETERS", "CryptographicParameters"),
      Req("data", "DATA", "bytes") >>,
  \* KMIP 1.3 adds Correlation Value (no constructor argument: left out)
  SignResponsePayload |-> <<
      Req("unique_identifier", "UNIQUE_IDENTIFIER", "text"),
      Req("signature_data", "SIGNATURE_DATA", "bytes") >>
]
ClassTagPayloads1 == [
  EncryptRequestPayload |-> "REQUEST_PAYLOAD", EncryptResponsePayload |-> "RESPONSE_PAYLOAD",
  DecryptRequestPayload |-> "REQUEST_PAYLOAD", DecryptResponsePayload |-> "RESPONSE_PAYLOAD",
  SignRequestPayload |-> "REQUEST_PAYLOAD", SignResponsePayload |-> "RESPONSE_PAYLOAD" ]
ClassSincePayloads1 == [
  EncryptRequestPayload |-> <<12, 20>>, EncryptResponsePayload |-> <<12, 20>>,
  DecryptRequestPayload |-> <<12, 20>>, DecryptResponsePayload |-> <<12, 20>>,
  SignRequestPayload |-> <<12, 20>>, SignResponsePayload |-> <<12, 20>> ]
=============================================================================
