--------------------------- MODULE SchemaPayloads1 ---------------------------
(* Operation payloads, part 1 (KMIP 1.x section 4 "Client-to-Server        *)
(* Operations"): cryptographic operations.                                 *)
EXTENDS KmipSchemaCore

SchemaPayloads1T == [
  EncryptRequestPayload |-> <<
      Opt("unique_identifier", "UNIQUE_IDENTIFIER", "text"),
      OptS("cryptographic_parameters", "CRYPTOGRAPHIC_PARAMETERS", "CryptographicParameters"),
      Req("data", "DATA", "bytes"),
      Opt("iv_counter_nonce", "IV_COUNTER_NONCE", "bytes"),
      Since(Opt("auth_additional_data", "AUTHENTICATED_ENCRYPTION_ADDITIONAL_DATA", "bytes"), 14) >>,
  EncryptResponsePayload |-> <<
      Req("unique_identifier", "UNIQUE_IDENTIFIER", "text"),
      Req("data", "DATA", "bytes"),
      Opt("iv_counter_nonce", "IV_COUNTER_NONCE", "bytes"),
      Since(Opt("auth_tag", "AUTHENTICATED_ENCRYPTION_TAG", "bytes"), 14) >>,
  DecryptRequestPayload |-> <<
      Opt("unique_identifier", "UNIQUE_IDENTIFIER", "text"),
      OptS("cryptographic_parameters", "CRYPTOGRAPHIC_PARAMETERS", "CryptographicParameters"),
      Req("data", "DATA", "bytes"),
      Opt("iv_counter_nonce", "IV_COUNTER_NONCE", "bytes"),
      Since(Opt("auth_additional_data", "AUTHENTICATED_ENCRYPTION_ADDITIONAL_DATA", "bytes"), 14),
      Since(Opt("auth_tag", "AUTHENTICATED_ENCRYPTION_TAG", "bytes"), 14) >>,
  DecryptResponsePayload |-> <<
      Req("unique_identifier", "UNIQUE_IDENTIFIER", "text"),
      Req("data", "DATA", "bytes") >>,
  \* KMIP 1.3 adds Correlation Value, Init Indicator, Final Indicator and 1.4 Digested Data to the Sign request
  \* (Data then being required only for single-part operations without Digested Data); SignRequestPayload has no
  \* constructor argument for them, so they are left out and Data stays required.
  SignRequestPayload |-> <<
      Opt("unique_identifier", "UNIQUE_IDENTIFIER", "text"),
      OptS("cryptographic_parameters", "CRYPTOGRAPHIC_PARAMETERS", "CryptographicParameters"),
      Req("data", "DATA", "bytes") >>,
  \* KMIP 1.3 adds Correlation Value (no constructor argument: left out)
  SignResponsePayload |-> <<
      Req("unique_identifier", "UNIQUE_IDENTIFIER", "text"),
      Req("signature_data", "SIGNATURE_DATA", "bytes") >>,
  \* Signature Data is required by KMIP 1.2 and optional from 1.3 on (multi-part operations)
  SignatureVerifyRequestPayload |-> <<
      Opt("unique_identifier", "UNIQUE_IDENTIFIER", "text"),
      OptS("cryptographic_parameters", "CRYPTOGRAPHIC_PARAMETERS", "CryptographicParameters"),
      Opt("data", "DATA", "bytes"),
      Opt("digested_data", "DIGESTED_DATA", "bytes"),
      Until(Req("signature_data", "SIGNATURE_DATA", "bytes"), 12),
      Since(Opt("signature_data", "SIGNATURE_DATA", "bytes"), 13),
      Since(Opt("correlation_value", "CORRELATION_VALUE", "bytes"), 13),
      Since(Opt("init_indicator", "INIT_INDICATOR", "bool"), 13),
      Since(Opt("final_indicator", "FINAL_INDICATOR", "bool"), 13) >>,
  SignatureVerifyResponsePayload |-> <<
      Req("unique_identifier", "UNIQUE_IDENTIFIER", "text"),
      ReqE("validity_indicator", "VALIDITY_INDICATOR", "ValidityIndicator"),
      Opt("data", "DATA", "bytes"),
      Since(Opt("correlation_value", "CORRELATION_VALUE", "bytes"), 13) >>,
  \* KMIP 1.3 adds Correlation Value, Init Indicator, Final Indicator to the MAC request and Correlation Value to the
  \* response (Data / MAC Data then being required for single-part operations only); no constructor arguments: left out
  MACRequestPayload |-> <<
      Opt("unique_identifier", "UNIQUE_IDENTIFIER", "text"),
      OptS("cryptographic_parameters", "CRYPTOGRAPHIC_PARAMETERS", "CryptographicParameters"),
      Req("data", "DATA", "bytes") >>,
  MACResponsePayload |-> <<
      Req("unique_identifier", "UNIQUE_IDENTIFIER", "text"),
      Req("mac_data", "MAC_DATA", "bytes") >>,
  \* Unique Identifier "Yes, MAY be repeated"; under 2.0 the Template Attribute is an Attributes structure (kind tmpl)
  DeriveKeyRequestPayload |-> <<
      ReqE("object_type", "OBJECT_TYPE", "ObjectType"),
      Some("unique_identifiers", "UNIQUE_IDENTIFIER", "text"),
      ReqE("derivation_method", "DERIVATION_METHOD", "DerivationMethod"),
      ReqS("derivation_parameters", "DERIVATION_PARAMETERS", "DerivationParameters"),
      F("template_attribute", "TEMPLATE_ATTRIBUTE", "tmpl", "", "1", 10, 20) >>,
  \* the 2.0 response carries the Unique Identifier only
  DeriveKeyResponsePayload |-> <<
      Req("unique_identifier", "UNIQUE_IDENTIFIER", "text"),
      F("template_attribute", "TEMPLATE_ATTRIBUTE", "tmpl", "", "?", 10, 14) >>,
  \* 2.0: the Template Attribute is an Attributes structure; 2.0 also adds Protection Storage Masks (no constructor
  \* argument: left out)
  RekeyRequestPayload |-> <<
      Opt("unique_identifier", "UNIQUE_IDENTIFIER", "text"),
      Opt("offset", "OFFSET", "interval"),
      F("template_attribute", "TEMPLATE_ATTRIBUTE", "tmpl", "", "?", 10, 20) >>,
  \* the 2.0 response carries the Unique Identifier only
  RekeyResponsePayload |-> <<
      Req("unique_identifier", "UNIQUE_IDENTIFIER", "text"),
      F("template_attribute", "TEMPLATE_ATTRIBUTE", "tmpl", "", "?", 10, 14) >>,
  \* Re-key Key Pair exists since KMIP 1.1.  2.0: Common / Private Key / Public Key Attributes structures; 2.0 also adds
  \* the Protection Storage Masks (no constructor arguments: left out)
  RekeyKeyPairRequestPayload |-> <<
      Opt("private_key_uuid", "PRIVATE_KEY_UNIQUE_IDENTIFIER", "text"),
      Opt("offset", "OFFSET", "interval"),
      F("common_template_attribute", "COMMON_TEMPLATE_ATTRIBUTE", "tmpl", "", "?", 10, 20),
      F("private_key_template_attribute", "PRIVATE_KEY_TEMPLATE_ATTRIBUTE", "tmpl", "", "?", 10, 20),
      F("public_key_template_attribute", "PUBLIC_KEY_TEMPLATE_ATTRIBUTE", "tmpl", "", "?", 10, 20) >>,
  \* the 2.0 response carries the two Unique Identifiers only
  RekeyKeyPairResponsePayload |-> <<
      Req("private_key_unique_identifier", "PRIVATE_KEY_UNIQUE_IDENTIFIER", "text"),
      Req("public_key_unique_identifier", "PUBLIC_KEY_UNIQUE_IDENTIFIER", "text"),
      F("private_key_template_attribute", "PRIVATE_KEY_TEMPLATE_ATTRIBUTE", "tmpl", "", "?", 10, 14),
      F("public_key_template_attribute", "PUBLIC_KEY_TEMPLATE_ATTRIBUTE", "tmpl", "", "?", 10, 14) >>
]
ClassTagPayloads1 == [
  EncryptRequestPayload |-> "REQUEST_PAYLOAD", EncryptResponsePayload |-> "RESPONSE_PAYLOAD",
  DecryptRequestPayload |-> "REQUEST_PAYLOAD", DecryptResponsePayload |-> "RESPONSE_PAYLOAD",
  SignRequestPayload |-> "REQUEST_PAYLOAD", SignResponsePayload |-> "RESPONSE_PAYLOAD",
  SignatureVerifyRequestPayload |-> "REQUEST_PAYLOAD", SignatureVerifyResponsePayload |-> "RESPONSE_PAYLOAD",
  MACRequestPayload |-> "REQUEST_PAYLOAD", MACResponsePayload |-> "RESPONSE_PAYLOAD",
  DeriveKeyRequestPayload |-> "REQUEST_PAYLOAD", DeriveKeyResponsePayload |-> "RESPONSE_PAYLOAD",
  RekeyRequestPayload |-> "REQUEST_PAYLOAD", RekeyResponsePayload |-> "RESPONSE_PAYLOAD",
  RekeyKeyPairRequestPayload |-> "REQUEST_PAYLOAD", RekeyKeyPairResponsePayload |-> "RESPONSE_PAYLOAD" ]
ClassSincePayloads1 == [
  EncryptRequestPayload |-> <<12, 20>>, EncryptResponsePayload |-> <<12, 20>>,
  DecryptRequestPayload |-> <<12, 20>>, DecryptResponsePayload |-> <<12, 20>>,
  SignRequestPayload |-> <<12, 20>>, SignResponsePayload |-> <<12, 20>>,
  SignatureVerifyRequestPayload |-> <<12, 20>>, SignatureVerifyResponsePayload |-> <<12, 20>>,
  MACRequestPayload |-> <<12, 20>>, MACResponsePayload |-> <<12, 20>>,
  RekeyKeyPairRequestPayload |-> <<11, 20>>, RekeyKeyPairResponsePayload |-> <<11, 20>> ]
=============================================================================
