----------------------------- MODULE CryptoTerms -----------------------------
(***************************************************************************)
(* What the cryptographic operations must compute (property C06), as a     *)
(* free term algebra: TLC cannot evaluate AES, but it can decide WHICH     *)
(* term every accepted parameter tuple must produce and which tuples must  *)
(* be refused.  That is where the faults the property worries about live   *)
(* (IV ignored, padding for the wrong modes, tag truncation, hash taken    *)
(* from the wrong table, derivation inputs crossed, wrong key argument).   *)
(* The harness evaluates each term with reference implementations and      *)
(* compares bytes with what the real server answers.                       *)
(*                                                                         *)
(* Outcome of a row: [kind |-> "refuse", why] | [kind |-> "term", t, ...]  *)
(* "backend" rows: the term, unless the reference primitive itself refuses *)
(* the combination (then any specific KMIP refusal is right).              *)
(***************************************************************************)
EXTENDS Naturals, Sequences, FiniteSets, TLC, Json

SymAlgs == {"AES", "TRIPLE_DES", "CAMELLIA", "BLOWFISH", "CAST5", "IDEA", "RC4"}
OtherAlgs == {"RSA", "HMAC_SHA256", "NONE"}
Modes == {"CBC", "ECB", "OFB", "CFB", "CTR", "GCM", "NIST_KEY_WRAP", "NONE"}
Pads == {"PKCS5", "ANSI_X923", "OAEP", "NONE"}
IVs == {"absent", "block", "short"}
NeedsIV(m) == m \in {"CBC", "OFB", "CFB", "CTR", "GCM"}
Padded(m) == m \in {"CBC", "ECB"}
SymPads == {"PKCS5", "ANSI_X923"}
KnownModes == {"CBC", "ECB", "OFB", "CFB", "CTR", "GCM"}

Refuse(why) == [kind |-> "refuse", why |-> why]

\* ---- Encrypt (symmetric) ----
\* p = [alg, mode, pad, iv, aad (bool), taglen (0 = absent)]
EncryptSpec(p) ==
    IF p.alg = "NONE" THEN Refuse("algorithm required")
    ELSE IF p.alg = "RSA" THEN [kind |-> "asymmetric"]
    ELSE IF p.alg \notin SymAlgs THEN Refuse("unsupported algorithm")
    ELSE IF p.mode # "GCM" /\ p.aad THEN Refuse("additional data outside GCM")
    ELSE IF p.mode = "GCM" /\ p.taglen = 0 THEN Refuse("tag length required in GCM")
    ELSE IF p.alg = "RC4" THEN [kind |-> "term", t |-> <<"Stream", "RC4", "key", "data">>, returnsIV |-> FALSE, backend |-> TRUE]
    ELSE IF p.mode = "NONE" THEN Refuse("mode required")
    ELSE IF p.mode \notin KnownModes THEN Refuse("unsupported mode")
    ELSE IF Padded(p.mode) /\ p.pad = "NONE" THEN Refuse("padding required")
    ELSE IF Padded(p.mode) /\ p.pad \notin SymPads THEN Refuse("unsupported padding")
    ELSE LET iv == IF ~NeedsIV(p.mode) THEN "noiv" ELSE IF p.iv = "absent" THEN "fresh" ELSE p.iv
             body == IF Padded(p.mode) THEN <<"Pad", p.pad, "data">> ELSE <<"data">> IN
         [kind |-> "term", t |-> <<"Enc", p.alg, p.mode, "key", iv, body>>,
          returnsIV |-> (NeedsIV(p.mode) /\ p.iv = "absent"),
          tag |-> IF p.mode = "GCM" THEN p.taglen ELSE 0,
          backend |-> TRUE]

\* ---- Decrypt ----
DecryptSpec(p) ==
    IF p.alg = "NONE" THEN Refuse("algorithm required")
    ELSE IF p.alg = "RSA" THEN [kind |-> "asymmetric"]
    ELSE IF p.alg \notin SymAlgs THEN Refuse("unsupported algorithm")
    ELSE IF p.mode # "GCM" /\ p.aad THEN Refuse("additional data outside GCM")
    ELSE IF p.mode = "GCM" /\ p.taglen = 0 THEN Refuse("tag required in GCM")
    ELSE IF p.alg = "RC4" THEN [kind |-> "term", t |-> <<"Stream", "RC4", "key", "data">>, backend |-> TRUE]
    ELSE IF p.mode = "NONE" THEN Refuse("mode required")
    ELSE IF p.mode \notin KnownModes THEN Refuse("unsupported mode")
    ELSE IF NeedsIV(p.mode) /\ p.iv = "absent" THEN Refuse("IV required")
    ELSE IF Padded(p.mode) /\ p.pad = "NONE" THEN Refuse("padding required")
    ELSE IF Padded(p.mode) /\ p.pad \notin SymPads THEN Refuse("unsupported padding")
    ELSE [kind |-> "term", t |-> <<"Dec", p.alg, p.mode, "key", IF NeedsIV(p.mode) THEN p.iv ELSE "noiv",
                                   IF Padded(p.mode) THEN <<"Unpad", p.pad>> ELSE <<"asis">>>>, backend |-> TRUE]

\* law: whatever Encrypt accepts, Decrypt with the same parameters and the IV Encrypt used inverts it
InvertsOK(p) ==
    LET e == EncryptSpec(p) IN
    (e.kind = "term" /\ p.alg # "RC4") =>
        LET d == DecryptSpec([p EXCEPT !.iv = IF NeedsIV(p.mode) THEN (IF p.iv = "absent" THEN "block" ELSE p.iv) ELSE p.iv]) IN
        /\ d.kind = "term"
        /\ d.t[2] = e.t[2] /\ d.t[3] = e.t[3]                       \* same cipher, same mode
        /\ (Padded(p.mode) <=> d.t[6][1] = "Unpad") /\ (Padded(p.mode) => d.t[6][2] = e.t[6][2])   \* padding undone by the same method

\* ---- MAC ----
HmacAlgs == {"HMAC_SHA1", "HMAC_SHA224", "HMAC_SHA256", "HMAC_SHA384", "HMAC_SHA512", "HMAC_MD5"}
MacSpec(alg) ==
    IF alg \in HmacAlgs THEN [kind |-> "term", t |-> <<"Hmac", alg, "key", "data">>, backend |-> FALSE]
    ELSE IF alg \in SymAlgs THEN [kind |-> "term", t |-> <<"Cmac", alg, "key", "data">>, backend |-> TRUE]
    ELSE Refuse("unsupported MAC algorithm")

\* ---- DeriveKey ----
Methods == {"HMAC", "HASH", "PBKDF2", "NIST800_108_C", "ENCRYPT", "HKDF", "ASYMMETRIC_KEY"}
Hashes == {"SHA_256", "SHA_1", "MD5", "SHA_512", "MD2", "NONE"}
SupportedHashes == {"MD5", "SHA_1", "SHA_224", "SHA_256", "SHA_384", "SHA_512"}
\* d = [method, hash, hasdata, hassalt, hasiter]   (key material = the base object's value, always present)
DeriveSpec(d) ==
    IF d.method = "ENCRYPT" THEN [kind |-> "encrypt"]            \* EncryptSpec with the derivation data as plaintext
    ELSE IF d.hash = "NONE" THEN Refuse("hash required")
    ELSE IF d.hash \notin SupportedHashes THEN Refuse("unsupported hash")
    ELSE CASE d.method = "HMAC" -> [kind |-> "term", t |-> <<"Hkdf", d.hash, "key", IF d.hassalt THEN "salt" ELSE "nosalt", IF d.hasdata THEN "data" ELSE "nodata">>, backend |-> TRUE]
           [] d.method = "HASH" -> IF d.hasdata THEN Refuse("both data and key material")
                                   ELSE [kind |-> "term", t |-> <<"Hash", d.hash, "key">>, backend |-> FALSE]
           [] d.method = "PBKDF2" -> IF ~d.hassalt THEN Refuse("salt required")
                                     ELSE IF ~d.hasiter THEN Refuse("iteration count required")
                                     ELSE [kind |-> "term", t |-> <<"Pbkdf2", d.hash, "key", "salt", "iter">>, backend |-> FALSE]
           [] d.method = "NIST800_108_C" -> [kind |-> "term", t |-> <<"Kbkdf", d.hash, "key", IF d.hasdata THEN "data" ELSE "nodata">>, backend |-> TRUE]
           [] OTHER -> Refuse("unsupported derivation method")

\* ---- key wrapping ----
WrapSpec(mode) == IF mode = "NIST_KEY_WRAP" THEN [kind |-> "term", t |-> <<"Rfc3394", "wrappingkey", "keymaterial">>, backend |-> TRUE]
                  ELSE Refuse("unsupported key wrap algorithm")

--------------------------------------------------------------------------
EncRows == [alg : SymAlgs \cup OtherAlgs, mode : Modes, pad : Pads, iv : IVs, aad : BOOLEAN, taglen : {0, 12, 16}]
DerRows == [method : Methods, hash : Hashes, hasdata : BOOLEAN, hassalt : BOOLEAN, hasiter : BOOLEAN]

VARIABLE row
Init == \/ row \in [k : {"enc"}, p : {p \in EncRows : (p.taglen = 0 \/ p.mode = "GCM") /\ (p.alg \in SymAlgs \/ (p.mode = "CBC" /\ p.pad = "PKCS5" /\ p.iv = "block" /\ ~p.aad))}]
        \/ row \in [k : {"mac"}, alg : HmacAlgs \cup SymAlgs \cup {"RSA", "NONE"}]
        \/ row \in [k : {"derive"}, d : DerRows]
        \/ row \in [k : {"wrap"}, mode : {"NIST_KEY_WRAP", "CBC", "NONE"}]
Next == UNCHANGED row
Spec == Init /\ [][Next]_row

Laws == row.k = "enc" => InvertsOK(row.p)
Emit == PrintT("@ROW@" \o ToJson(
            CASE row.k = "enc" -> [k |-> "enc", p |-> row.p, enc |-> EncryptSpec(row.p), dec |-> DecryptSpec(row.p)]
              [] row.k = "mac" -> [k |-> "mac", alg |-> row.alg, out |-> MacSpec(row.alg)]
              [] row.k = "derive" -> [k |-> "derive", d |-> row.d, out |-> DeriveSpec(row.d)]
              [] OTHER -> [k |-> "wrap", mode |-> row.mode, out |-> WrapSpec(row.mode)]))
=============================================================================
