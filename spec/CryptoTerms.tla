----------------------------- MODULE CryptoTerms -----------------------------
(***************************************************************************)
(* What the cryptographic operations must compute (property C06), as a     *)
(* free term algebra: TLC cannot evaluate AES, but it can decide WHICH     *)
(* term every accepted parameter tuple must produce and which tuples must  *)
(* be refused.  That is where the faults the property worries about live   *)
(* (IV ignored, padding for the wrong modes, tag truncation, hash taken    *)
(* from the wrong table, derivation inputs crossed, wrong key argument).   *)
(* The harness evaluates each term with reference implementations and      *)
(* compares bytes with what the real server answers.                       *)
(*                                                                         *)
(* Outcome of a row: [kind |-> "refuse", why] | [kind |-> "term", t, ...]  *)
(* "backend" rows: the term, unless the reference primitive itself refuses *)
(* the combination (then any specific KMIP refusal is right).              *)
(***************************************************************************)
EXTENDS Naturals, Sequences, FiniteSets, TLC, Json

SymAlgs == {"AES", "TRIPLE_DES", "CAMELLIA", "BLOWFISH", "CAST5", "IDEA", "RC4"}
OtherAlgs == {"RSA", "HMAC_SHA256", "NONE"}
Modes == {"CBC", "ECB", "OFB", "CFB", "CTR", "GCM", "NIST_KEY_WRAP", "NONE"}
Pads == {"PKCS5", "ANSI_X923", "OAEP", "NONE"}
IVs == {"absent", "block", "short"}
NeedsIV(m) == m \in {"CBC", "OFB", "CFB", "CTR", "GCM"}
Padded(m) == m \in {"CBC", "ECB"}
SymPads == {"PKCS5", "ANSI_X923"}
KnownModes == {"CBC", "ECB", "OFB", "CFB", "CTR", "GCM"}

Refuse(why) == [kind |-> "refuse", why |-> why]

\* ---- Encrypt (symmetric) ----
\* p = [alg, mode, pad, iv, aad (bool), taglen (0 = absent)]
EncryptSpec(p) ==
    IF p.alg = "NONE" THEN Refuse("algorithm required")
    ELSE IF p.alg = "RSA" THEN [kind |-> "asymmetric"]
    ELSE IF p.alg \notin SymAlgs THEN Refuse("unsupported algorithm")
    ELSE IF p.mode # "GCM" /\ p.aad THEN Refuse("additional data outside GCM")
    ELSE IF p.mode = "GCM" /\ p.taglen = 0 THEN Refuse("tag length required in GCM")
    ELSE IF p.alg = "RC4" THEN [kind |-> "term", t |-> <<"Stream", "RC4", "key", "data">>, returnsIV |-> FALSE, backend |-> TRUE]
    ELSE IF p.mode = "NONE" THEN Refuse("mode required")
    ELSE IF p.mode \notin KnownModes THEN Refuse("unsupported mode")
    ELSE IF Padded(p.mode) /\ p.pad = "NONE" THEN Refuse("padding required")
    ELSE IF Padded(p.mode) /\ p.pad \notin SymPads THEN Refuse("unsupported padding")
    ELSE LET iv == IF ~NeedsIV(p.mode) THEN "noiv" ELSE IF p.iv = "absent" THEN "fresh" ELSE p.iv
             body == IF Padded(p.mode) THEN <<"Pad", p.pad, "data">> ELSE <<"data">> IN
         [kind |-> "term", t |-> <<"Enc", p.alg, p.mode, "key", iv, body>>,
          returnsIV |-> (NeedsIV(p.mode) /\ p.iv = "absent"),
          tag |-> IF p.mode = "GCM" THEN p.taglen ELSE 0,
          backend |-> TRUE]

\* ---- Decrypt ----
DecryptSpec(p) ==
    IF p.alg = "NONE" THEN Refuse("algorithm required")
    ELSE IF p.alg = "RSA" THEN [kind |-> "asymmetric"]
    ELSE IF p.alg \notin SymAlgs THEN Refuse("unsupported algorithm")
    ELSE IF p.mode # "GCM" /\ p.aad THEN Refuse("additional data outside GCM")
    ELSE IF p.mode = "GCM" /\ p.taglen = 0 THEN Refuse("tag required in GCM")
    ELSE IF p.alg = "RC4" THEN [kind |-> "term", t |-> <<"Stream", "RC4", "key", "data">>, backend |-> TRUE]
    ELSE IF p.mode = "NONE" THEN Refuse("mode required")
    ELSE IF p.mode \notin KnownModes THEN Refuse("unsupported mode")
    ELSE IF NeedsIV(p.mode) /\ p.iv = "absent" THEN Refuse("IV required")
    ELSE IF Padded(p.mode) /\ p.pad = "NONE" THEN Refuse("padding required")
    ELSE IF Padded(p.mode) /\ p.pad \notin SymPads THEN Refuse("unsupported padding")
    ELSE [kind |-> "term", t |-> <<"Dec", p.alg, p.mode, "key", IF NeedsIV(p.mode) THEN p.iv ELSE "noiv",
                                   IF Padded(p.mode) THEN <<"Unpad", p.pad>> ELSE <<"asis">>>>, backend |-> TRUE]

\* law: whatever Encrypt accepts, Decrypt with the same parameters and the IV Encrypt used inverts it
InvertsOK(p) ==
    LET e == EncryptSpec(p) IN
    (e.kind = "term" /\ p.alg # "RC4") =>
        LET d == DecryptSpec([p EXCEPT !.iv = IF NeedsIV(p.mode) THEN (IF p.iv = "absent" THEN "block" ELSE p.iv) ELSE p.iv]) IN
        /\ d.kind = "term"
        /\ d.t[2] = e.t[2] /\ d.t[3] = e.t[3]                       \* same cipher, same mode
        /\ (Padded(p.mode) <=> d.t[6][1] = "Unpad") /\ (Padded(p.mode) => d.t[6][2] = e.t[6][2])   \* padding undone by the same method

\* ---- MAC ----
HmacAlgs == {"HMAC_SHA1", "HMAC_SHA224", "HMAC_SHA256", "HMAC_SHA384", "HMAC_SHA512", "HMAC_MD5"}
MacSpec(alg) ==
    IF alg \in HmacAlgs THEN [kind |-> "term", t |-> <<"Hmac", alg, "key", "data">>, backend |-> FALSE]
    ELSE IF alg \in SymAlgs THEN [kind |-> "term", t |-> <<"Cmac", alg, "key", "data">>, backend |-> TRUE]
    ELSE Refuse("unsupported MAC algorithm")

\* ---- DeriveKey ----
Methods == {"HMAC", "HASH", "PBKDF2", "NIST800_108_C", "ENCRYPT", "HKDF", "ASYMMETRIC_KEY"}
Hashes == {"SHA_256", "SHA_1", "MD5", "SHA_512", "MD2", "NONE", "SHA_224", "SHA_384", "RIPEMD_160", "SHA3_256", "SHA_512_256", "WHIRLPOOL"}
SupportedHashes == {"MD5", "SHA_1", "SHA_224", "SHA_256", "SHA_384", "SHA_512"}
\* d = [method, hash, hasdata, hassalt, hasiter]   (key material = the base object's value, always present)
DeriveSpec(d) ==
    IF d.method = "ENCRYPT" THEN [kind |-> "encrypt"]            \* EncryptSpec with the derivation data as plaintext
    ELSE IF d.hash = "NONE" THEN Refuse("hash required")
    ELSE IF d.hash \notin SupportedHashes THEN Refuse("unsupported hash")
    ELSE CASE d.method = "HMAC" -> [kind |-> "term", t |-> <<"Hkdf", d.hash, "key", IF d.hassalt THEN "salt" ELSE "nosalt", IF d.hasdata THEN "data" ELSE "nodata">>, backend |-> TRUE]
           [] d.method = "HASH" -> IF d.hasdata THEN Refuse("both data and key material")
                                   ELSE [kind |-> "term", t |-> <<"Hash", d.hash, "key">>, backend |-> FALSE]
           [] d.method = "PBKDF2" -> IF ~d.hassalt THEN Refuse("salt required")
                                     ELSE IF ~d.hasiter THEN Refuse("iteration count required")
                                     ELSE [kind |-> "term", t |-> <<"Pbkdf2", d.hash, "key", "salt", "iter">>, backend |-> FALSE]
           [] d.method = "NIST800_108_C" -> [kind |-> "term", t |-> <<"Kbkdf", d.hash, "key", IF d.hasdata THEN "data" ELSE "nodata">>, backend |-> TRUE]
           [] OTHER -> Refuse("unsupported derivation method")

\* ---- key wrapping ----
\* t = the kind of object asked for: a certificate or an opaque object has no key block that could carry wrapped material
WrapTargets == {"SymmetricKey", "PublicKey", "PrivateKey", "SplitKey", "SecretData", "Certificate", "OpaqueData"}
WrapSpec(mode, t) == IF t \in {"Certificate", "OpaqueData"} THEN Refuse("the object has no key block")
                     ELSE IF mode = "NIST_KEY_WRAP" THEN [kind |-> "term", t |-> <<"Rfc3394", "wrappingkey", "keymaterial">>, backend |-> TRUE]
                     ELSE Refuse("unsupported key wrap algorithm")

\* ---- Sign / SignatureVerify ----
\* the complete enumerations of the protocol: whatever the server does not implement must be REFUSED with a specific error
AllHashes == {"MD2", "MD4", "MD5", "SHA_1", "SHA_224", "SHA_256", "SHA_384", "SHA_512", "RIPEMD_160", "TIGER", "WHIRLPOOL",
              "SHA_512_224", "SHA_512_256", "SHA3_224", "SHA3_256", "SHA3_384", "SHA3_512"}
AllDsas == {"MD2_WITH_RSA_ENCRYPTION", "MD5_WITH_RSA_ENCRYPTION", "SHA1_WITH_RSA_ENCRYPTION", "SHA224_WITH_RSA_ENCRYPTION",
            "SHA256_WITH_RSA_ENCRYPTION", "SHA384_WITH_RSA_ENCRYPTION", "SHA512_WITH_RSA_ENCRYPTION", "RSASSA_PSS",
            "DSA_WITH_SHA1", "DSA_WITH_SHA224", "DSA_WITH_SHA256", "ECDSA_WITH_SHA1", "ECDSA_WITH_SHA224", "ECDSA_WITH_SHA256",
            "ECDSA_WITH_SHA384", "ECDSA_WITH_SHA512", "SHA3_256_WITH_RSA_ENCRYPTION", "SHA3_384_WITH_RSA_ENCRYPTION",
            "SHA3_512_WITH_RSA_ENCRYPTION"}
\* "NONE" is a member of the protocol's padding enumeration; "absent" = no padding method in the parameters
AllPads == {"NONE", "OAEP", "PKCS5", "SSL3", "ZEROS", "ANSI_X923", "ISO_10126", "PKCS1v15", "X931", "PSS"}
SigAlgs == {"RSA", "DSA", "ECDSA", "EC", "AES", "NONE"}
DsaHash(d) == CASE d = "MD5_WITH_RSA_ENCRYPTION" -> "MD5" [] d = "SHA1_WITH_RSA_ENCRYPTION" -> "SHA_1"
                [] d = "SHA224_WITH_RSA_ENCRYPTION" -> "SHA_224" [] d = "SHA256_WITH_RSA_ENCRYPTION" -> "SHA_256"
                [] d = "SHA384_WITH_RSA_ENCRYPTION" -> "SHA_384" [] d = "SHA512_WITH_RSA_ENCRYPTION" -> "SHA_512"
                [] OTHER -> "UNSUPPORTED"
\* d = [pad, dsa, alg, hash]: the digital signature algorithm, when given, decides both algorithms
SignSpec(d) ==
    LET hash == IF d.dsa # "NONE" THEN DsaHash(d.dsa) ELSE d.hash
        alg == IF d.dsa # "NONE" THEN (IF DsaHash(d.dsa) = "UNSUPPORTED" THEN "NONE" ELSE "RSA") ELSE d.alg IN
    IF d.dsa = "NONE" /\ (d.alg = "NONE" \/ d.hash = "NONE") THEN Refuse("signature and hashing algorithm required")
    \* what is stated besides a (supported) digital signature algorithm must agree with it: Sign may not sign with another
    \* hash than the one the request states, and SignatureVerify must accept the parameters Sign accepted
    ELSE IF d.dsa # "NONE" /\ DsaHash(d.dsa) # "UNSUPPORTED" /\ d.hash # "NONE" /\ d.hash # DsaHash(d.dsa) THEN Refuse("hash contradicts the digital signature algorithm")
    ELSE IF d.dsa # "NONE" /\ DsaHash(d.dsa) # "UNSUPPORTED" /\ d.alg # "NONE" /\ d.alg # "RSA" THEN Refuse("algorithm contradicts the digital signature algorithm")
    ELSE IF alg # "RSA" THEN Refuse("RSA signatures only")
    ELSE IF d.pad = "absent" THEN Refuse("padding method required")
    ELSE IF d.pad \notin {"PSS", "PKCS1v15"} THEN Refuse("unsupported signature padding")
    ELSE IF hash \notin SupportedHashes THEN Refuse("unsupported hash")
    ELSE [kind |-> "term", t |-> <<"RsaSign", d.pad, hash, "privatekey", "data">>, backend |-> FALSE]
\* law: a signature term names a supported hash and one of the two signature paddings, whatever way the hash was chosen
SignOK(d) == LET o == SignSpec(d) IN o.kind = "term" => /\ o.t[3] \in SupportedHashes /\ o.t[2] \in {"PSS", "PKCS1v15"}
                                                       /\ (d.hash # "NONE" => o.t[3] = d.hash)      \* the stated hash is the one used

\* ---- asymmetric encryption parameters (reached with a symmetric key object: the key bytes are no RSA key) ----
\* d = [pad, hash]
AsymSpec(d) == IF d.pad \notin {"OAEP", "PKCS1v15"} THEN Refuse("unsupported asymmetric padding")
               ELSE IF d.pad = "OAEP" /\ d.hash \notin SupportedHashes THEN Refuse("unsupported hash")
               ELSE Refuse("the key is no RSA key")

\* ---- the rest of the enumerations: algorithms, modes and paddings the server does not implement ----
AllAlgs == {"DES", "TRIPLE_DES", "AES", "RSA", "DSA", "ECDSA", "HMAC_SHA1", "HMAC_SHA224", "HMAC_SHA256", "HMAC_SHA384",
            "HMAC_SHA512", "HMAC_MD5", "DH", "ECDH", "ECMQV", "BLOWFISH", "CAMELLIA", "CAST5", "IDEA", "MARS", "RC2", "RC4", "RC5",
            "SKIPJACK", "TWOFISH", "EC", "ONE_TIME_PAD", "CHACHA20", "POLY1305", "CHACHA20_POLY1305", "SHA3_224", "SHA3_256",
            "SHA3_384", "SHA3_512", "HMAC_SHA3_224", "HMAC_SHA3_256", "HMAC_SHA3_384", "HMAC_SHA3_512", "SHAKE_128", "SHAKE_256",
            "ARIA", "SEED", "SM2", "SM3", "SM4", "GOST_R_34_10_2012", "GOST_R_34_11_2012", "GOST_R_34_13_2015", "GOST_28147_89",
            "XMSS", "SPHINCS_256", "MCELIECE", "MCELIECE_6960119", "MCELIECE_8192128", "ED25519", "ED448"}
AllModes == {"CBC", "ECB", "PCBC", "CFB", "OFB", "CTR", "CMAC", "CCM", "GCM", "CBC_MAC", "XTS", "AES_KEY_WRAP_PADDING",
             "NIST_KEY_WRAP", "X9_102_AESKW", "X9_102_TDKW", "X9_102_AKW1", "X9_102_AKW2", "AEAD"}
\* rows outside the main menu: one unsupported value at a time, the other parameters sound
RestRows == {[alg |-> a, mode |-> "CBC", pad |-> "PKCS5", iv |-> "block", aad |-> FALSE, taglen |-> 0] : a \in AllAlgs \ (SymAlgs \cup OtherAlgs)}
       \cup {[alg |-> "AES", mode |-> m, pad |-> "PKCS5", iv |-> "block", aad |-> FALSE, taglen |-> 0] : m \in AllModes \ Modes}
       \cup {[alg |-> "AES", mode |-> m, pad |-> q, iv |-> "block", aad |-> FALSE, taglen |-> 0] : m \in {"CBC", "ECB"}, q \in AllPads \ Pads}

--------------------------------------------------------------------------
EncRows == [alg : SymAlgs \cup OtherAlgs, mode : Modes, pad : Pads, iv : IVs, aad : BOOLEAN, taglen : {0, 12, 16}]
DerRows == [method : Methods, hash : Hashes, hasdata : BOOLEAN, hassalt : BOOLEAN, hasiter : BOOLEAN]

VARIABLE row
Init == \/ row \in [k : {"enc"}, p : {p \in EncRows : (p.taglen = 0 \/ p.mode = "GCM") /\ (p.alg \in SymAlgs \/ (p.mode = "CBC" /\ p.pad = "PKCS5" /\ p.iv = "block" /\ ~p.aad))}]
        \/ row \in [k : {"enc"}, p : RestRows]
        \/ row \in [k : {"mac"}, alg : AllAlgs \cup {"NONE"}]
        \/ row \in [k : {"sign"}, d : {d \in [pad : AllPads \cup {"absent"}, dsa : AllDsas \cup {"NONE"}, alg : SigAlgs, hash : AllHashes \cup {"NONE"}] :
                                        \/ d.dsa = "NONE"
                                        \/ (d.alg = "NONE" /\ d.hash = "NONE")
                                        \/ (d.alg = "RSA" /\ d.hash = "SHA_256" /\ d.pad \in {"PSS", "PKCS1v15"})}]
        \/ row \in [k : {"asym"}, d : [pad : AllPads \cup {"absent"}, hash : AllHashes \cup {"NONE"}]]
        \/ row \in [k : {"derive"}, d : DerRows]
        \/ row \in [k : {"wrap"}, mode : {"NIST_KEY_WRAP", "CBC", "NONE"}, t : WrapTargets]
Next == UNCHANGED row
Spec == Init /\ [][Next]_row

Laws == /\ row.k = "enc" => InvertsOK(row.p)
        /\ row.k = "sign" => SignOK(row.d)
Emit == PrintT("@ROW@" \o ToJson(
            CASE row.k = "enc" -> [k |-> "enc", p |-> row.p, enc |-> EncryptSpec(row.p), dec |-> DecryptSpec(row.p)]
              [] row.k = "mac" -> [k |-> "mac", alg |-> row.alg, out |-> MacSpec(row.alg)]
              [] row.k = "derive" -> [k |-> "derive", d |-> row.d, out |-> DeriveSpec(row.d)]
              [] row.k = "sign" -> [k |-> "sign", d |-> row.d, out |-> SignSpec(row.d)]
              [] row.k = "asym" -> [k |-> "asym", d |-> row.d, out |-> AsymSpec(row.d)]
              [] OTHER -> [k |-> "wrap", mode |-> row.mode, t |-> row.t, out |-> WrapSpec(row.mode, row.t)]))
=============================================================================
