----------------------------- MODULE Durability -----------------------------
(***************************************************************************)
(* Crash consistency of the SQLite-backed store (property C09).            *)
(*                                                                         *)
(* A state-changing operation is a sequence of row writes (joined-table    *)
(* inheritance: base row, per-class rows, name / link rows; two objects    *)
(* for a key pair) inside ONE transaction, then COMMIT, then the response  *)
(* (acknowledgement).  The process may die at any instant (Crash).  SQLite *)
(* guarantees that a COMMIT is atomic under process death and that an open *)
(* transaction is rolled back on recovery (the environment assumption);    *)
(* power loss is out of scope.                                             *)
(*                                                                         *)
(* disk  : committed rows            txn : rows written, not yet committed *)
(* Properties: an acknowledged operation is durable; an interrupted one is *)
(* wholly applied or wholly absent (never a partial object, never half of  *)
(* a key pair).                                                            *)
(***************************************************************************)
EXTENDS Naturals, Sequences, FiniteSets, TLC

CONSTANTS Ops,            \* operation -> the sequence of rows it writes (a row is <<table, object>>)
          SPLIT_COMMIT,   \* negative control: commit after every object's rows instead of once per operation
          FAULTS,         \* how many transient storage faults (a statement or a COMMIT refused: "database is locked",
                          \*   I/O error) the environment may inject
          RETRY_AFTER_ROLLBACK,  \* negative control: a refused COMMIT is answered by rollback-and-retry, which commits an
                                 \*   empty transaction and acknowledges the operation
          Tables,         \* the tables of the schema in the order start-up creates them (a sequence); every CREATE TABLE
                          \*   is its own implicit transaction (DDL is not transactional here), so a crash may fall between two
          SKIP_SCHEMA_IF_BASE,   \* negative control: start-up creates the schema only when the first table is missing
          PRUNE_ON_START  \* negative control: start-up removes "incomplete" objects - those without a row in the second table

OpNames == DOMAIN Ops
Objects(op) == {Ops[op][i][2] : i \in DOMAIN Ops[op]}
RowsOf(op) == {Ops[op][i] : i \in DOMAIN Ops[op]}

VARIABLES disk, txn, cur, pos, acked, done, crashed, faults, failed,
          schema,    \* tables that exist on disk
          ready,     \* the server finished its start-up and serves requests
          restarts   \* how often the process was started again after a death (bounds the model)
vars == <<disk, txn, cur, pos, acked, done, crashed, faults, failed, schema, ready, restarts>>

TableSet == {Tables[i] : i \in DOMAIN Tables}
\* the table a row lives in: "crypto_objects.state" is an update of crypto_objects, "managed_objects.deleted" a delete
TableOf(row) == LET n == row[1]
                    dot == {i \in 1..Len(n) : SubSeq(n, i, i) = "."} IN
                IF dot = {} THEN n ELSE SubSeq(n, 1, (CHOOSE i \in dot : \A j \in dot : i <= j) - 1)

Init == /\ disk = {} /\ txn = {} /\ cur = "none" /\ pos = 0
        /\ acked = {} /\ done = {} /\ crashed = FALSE
        /\ faults = FAULTS /\ failed = {}
        /\ schema = {} /\ ready = FALSE /\ restarts = 0

\* start-up: create the tables that are missing, one at a time, then serve.  (create_all checks every table first, so a
\* start-up interrupted by a crash is completed by the next one.)
StartStep ==
    /\ ~crashed /\ ~ready
    /\ IF SKIP_SCHEMA_IF_BASE /\ Tables[1] \in schema
       THEN ready' = TRUE /\ UNCHANGED <<schema, disk>>
       ELSE IF schema = TableSet
            THEN /\ ready' = TRUE /\ UNCHANGED schema
                 /\ disk' = IF PRUNE_ON_START
                            THEN {r \in disk : \E q \in disk : q[2] = r[2] /\ TableOf(q) = Tables[2]}
                            ELSE disk
            ELSE LET i == CHOOSE i \in DOMAIN Tables : Tables[i] \notin schema /\ \A j \in 1..(i - 1) : Tables[j] \in schema IN
                 schema' = schema \cup {Tables[i]} /\ UNCHANGED <<ready, disk>>
    /\ UNCHANGED <<txn, cur, pos, acked, done, crashed, faults, failed, restarts>>

Begin(op) == /\ ~crashed /\ ready /\ cur = "none" /\ op \notin done
             /\ cur' = op /\ pos' = 1 /\ txn' = {}
             /\ UNCHANGED <<disk, acked, done, crashed, faults, failed, schema, ready, restarts>>

\* the last row of an object has just been written
ObjectBoundary == pos > 1 /\ pos <= Len(Ops[cur]) /\ Ops[cur][pos][2] # Ops[cur][pos - 1][2]

Write == /\ ~crashed /\ cur # "none" /\ pos <= Len(Ops[cur])
         /\ IF SPLIT_COMMIT /\ ObjectBoundary
            THEN disk' = disk \cup txn /\ txn' = {Ops[cur][pos]}
            ELSE txn' = txn \cup {Ops[cur][pos]} /\ UNCHANGED disk
         /\ pos' = pos + 1
         /\ UNCHANGED <<cur, acked, done, crashed, faults, failed, schema, ready, restarts>>

Commit == /\ ~crashed /\ cur # "none" /\ pos = Len(Ops[cur]) + 1
          /\ disk' = disk \cup txn /\ txn' = {}
          /\ pos' = pos + 1
          /\ UNCHANGED <<cur, acked, done, crashed, faults, failed, schema, ready, restarts>>

\* a transient storage fault: the statement at `pos` or the COMMIT is refused.  The error surfaces in the handler, the
\* unit of work is abandoned (its rows never reach the disk) and the operation is reported as FAILED - not acknowledged.
Fault == /\ ~crashed /\ cur # "none" /\ pos <= Len(Ops[cur]) + 1 /\ faults > 0
         /\ faults' = faults - 1
         /\ IF RETRY_AFTER_ROLLBACK /\ pos = Len(Ops[cur]) + 1
            THEN /\ txn' = {} /\ UNCHANGED <<cur, pos, done, failed>>      \* rollback, then COMMIT again: nothing left to commit
            ELSE /\ txn' = {} /\ cur' = "none" /\ pos' = 0
                 /\ done' = done \cup {cur} /\ failed' = failed \cup {cur}
         /\ UNCHANGED <<disk, acked, crashed, schema, ready, restarts>>

Ack == /\ ~crashed /\ cur # "none" /\ pos = Len(Ops[cur]) + 2
       /\ acked' = acked \cup {cur} /\ done' = done \cup {cur}
       /\ cur' = "none" /\ pos' = 0
       /\ UNCHANGED <<disk, txn, crashed, faults, failed, schema, ready, restarts>>

\* process death at any instant; recovery rolls the open transaction back
Crash == /\ ~crashed
         /\ crashed' = TRUE /\ txn' = {} /\ ready' = FALSE
         /\ UNCHANGED <<disk, cur, pos, acked, done, faults, failed, schema, restarts>>

\* the process is started again on the same files: the interrupted operation is gone (its client never got an answer; a
\* retry would be another operation), start-up runs from the beginning
MaxRestarts == 2
Restart == /\ crashed /\ restarts < MaxRestarts
           /\ crashed' = FALSE /\ cur' = "none" /\ pos' = 0 /\ restarts' = restarts + 1
           /\ done' = IF cur = "none" THEN done ELSE done \cup {cur}
           /\ UNCHANGED <<disk, txn, acked, faults, failed, schema, ready>>

Next == StartStep \/ (\E op \in OpNames : Begin(op)) \/ Write \/ Commit \/ Ack \/ Crash \/ Fault \/ Restart
Spec == Init /\ [][Next]_vars

\* after recovery (crashed), what a fresh server finds is `disk`
AckedDurable == crashed => \A op \in acked : RowsOf(op) \subseteq disk
AllOrNothing == crashed => \A op \in OpNames : RowsOf(op) \subseteq disk \/ RowsOf(op) \cap disk = {}
\* an operation reported as failed because of a storage fault left nothing behind; an acknowledged one is on disk at once
FailedAbsent == \A op \in failed : RowsOf(op) \cap disk = {}
AckedOnDisk == \A op \in acked : RowsOf(op) \subseteq disk
NoOrphanWrites == \A r \in disk : \E op \in OpNames : r \in RowsOf(op)
\* a server that serves has its whole schema: whenever and however often start-up was interrupted, the store can be
\* opened, listed and written again ("never a store the server can no longer open")
Serviceable == ready => schema = TableSet
\* a restart changes nothing that was committed
RestartKeeps == [][(~ready /\ ~crashed) => disk \subseteq disk']_vars

--------------------------------------------------------------------------
(* the same predicates over an observed crash experiment                   *)
(*  e = [pre, post, rec : sets of rows; acked : BOOLEAN; ncommits,         *)
(*       writes_outside : Nat; broken : problems of the recovered file]    *)
C09_atomic(e)   == e.rec = e.pre \/ e.rec = e.post
C09_durable(e)  == e.acked => e.rec = e.post
C09_onetxn(e)   == e.ncommits <= 1 /\ e.writes_outside = 0
C09_openable(e) == e.broken = 0
\* storage-fault experiments: what was acknowledged is in effect, what was refused left nothing behind
C09_fault(e)    == (e.acked => e.rec = e.post) /\ (~e.acked => e.rec = e.pre)
=============================================================================
