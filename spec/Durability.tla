----------------------------- MODULE Durability -----------------------------
(***************************************************************************)
(* Crash consistency of the SQLite-backed store (property C09).            *)
(*                                                                         *)
(* A state-changing operation is a sequence of row writes (joined-table    *)
(* inheritance: base row, per-class rows, name / link rows; two objects    *)
(* for a key pair) inside ONE transaction, then COMMIT, then the response  *)
(* (acknowledgement).  The process may die at any instant (Crash).  SQLite *)
(* guarantees that a COMMIT is atomic under process death and that an open *)
(* transaction is rolled back on recovery (the environment assumption);    *)
(* power loss is out of scope.                                             *)
(*                                                                         *)
(* disk  : committed rows            txn : rows written, not yet committed *)
(* Properties: an acknowledged operation is durable; an interrupted one is *)
(* wholly applied or wholly absent (never a partial object, never half of  *)
(* a key pair).                                                            *)
(***************************************************************************)
EXTENDS Naturals, Sequences, FiniteSets, TLC

CONSTANTS Ops,            \* operation -> the sequence of rows it writes (a row is <<table, object>>)
          SPLIT_COMMIT,   \* negative control: commit after every object's rows instead of once per operation
          FAULTS,         \* how many transient storage faults (a statement or a COMMIT refused: "database is locked",
                          \*   I/O error) the environment may inject
          RETRY_AFTER_ROLLBACK   \* negative control: a refused COMMIT is answered by rollback-and-retry, which commits an
                                 \*   empty transaction and acknowledges the operation

OpNames == DOMAIN Ops
Objects(op) == {Ops[op][i][2] : i \in DOMAIN Ops[op]}
RowsOf(op) == {Ops[op][i] : i \in DOMAIN Ops[op]}

VARIABLES disk, txn, cur, pos, acked, done, crashed, faults, failed
vars == <<disk, txn, cur, pos, acked, done, crashed, faults, failed>>

Init == /\ disk = {} /\ txn = {} /\ cur = "none" /\ pos = 0
        /\ acked = {} /\ done = {} /\ crashed = FALSE
        /\ faults = FAULTS /\ failed = {}

Begin(op) == /\ ~crashed /\ cur = "none" /\ op \notin done
             /\ cur' = op /\ pos' = 1 /\ txn' = {}
             /\ UNCHANGED <<disk, acked, done, crashed, faults, failed>>

\* the last row of an object has just been written
ObjectBoundary == pos > 1 /\ pos <= Len(Ops[cur]) /\ Ops[cur][pos][2] # Ops[cur][pos - 1][2]

Write == /\ ~crashed /\ cur # "none" /\ pos <= Len(Ops[cur])
         /\ IF SPLIT_COMMIT /\ ObjectBoundary
            THEN disk' = disk \cup txn /\ txn' = {Ops[cur][pos]}
            ELSE txn' = txn \cup {Ops[cur][pos]} /\ UNCHANGED disk
         /\ pos' = pos + 1
         /\ UNCHANGED <<cur, acked, done, crashed, faults, failed>>

Commit == /\ ~crashed /\ cur # "none" /\ pos = Len(Ops[cur]) + 1
          /\ disk' = disk \cup txn /\ txn' = {}
          /\ pos' = pos + 1
          /\ UNCHANGED <<cur, acked, done, crashed, faults, failed>>

\* a transient storage fault: the statement at `pos` or the COMMIT is refused.  The error surfaces in the handler, the
\* unit of work is abandoned (its rows never reach the disk) and the operation is reported as FAILED - not acknowledged.
Fault == /\ ~crashed /\ cur # "none" /\ pos <= Len(Ops[cur]) + 1 /\ faults > 0
         /\ faults' = faults - 1
         /\ IF RETRY_AFTER_ROLLBACK /\ pos = Len(Ops[cur]) + 1
            THEN /\ txn' = {} /\ UNCHANGED <<cur, pos, done, failed>>      \* rollback, then COMMIT again: nothing left to commit
            ELSE /\ txn' = {} /\ cur' = "none" /\ pos' = 0
                 /\ done' = done \cup {cur} /\ failed' = failed \cup {cur}
         /\ UNCHANGED <<disk, acked, crashed>>

Ack == /\ ~crashed /\ cur # "none" /\ pos = Len(Ops[cur]) + 2
       /\ acked' = acked \cup {cur} /\ done' = done \cup {cur}
       /\ cur' = "none" /\ pos' = 0
       /\ UNCHANGED <<disk, txn, crashed, faults, failed>>

\* process death at any instant; recovery rolls the open transaction back
Crash == /\ ~crashed
         /\ crashed' = TRUE /\ txn' = {}
         /\ UNCHANGED <<disk, cur, pos, acked, done, faults, failed>>

Next == (\E op \in OpNames : Begin(op)) \/ Write \/ Commit \/ Ack \/ Crash \/ Fault
Spec == Init /\ [][Next]_vars

\* after recovery (crashed), what a fresh server finds is `disk`
AckedDurable == crashed => \A op \in acked : RowsOf(op) \subseteq disk
AllOrNothing == crashed => \A op \in OpNames : RowsOf(op) \subseteq disk \/ RowsOf(op) \cap disk = {}
\* an operation reported as failed because of a storage fault left nothing behind; an acknowledged one is on disk at once
FailedAbsent == \A op \in failed : RowsOf(op) \cap disk = {}
AckedOnDisk == \A op \in acked : RowsOf(op) \subseteq disk
NoOrphanWrites == \A r \in disk : \E op \in OpNames : r \in RowsOf(op)

--------------------------------------------------------------------------
(* the same predicates over an observed crash experiment                   *)
(*  e = [pre, post, rec : sets of rows; acked : BOOLEAN; ncommits,         *)
(*       writes_outside : Nat; broken : problems of the recovered file]    *)
C09_atomic(e)   == e.rec = e.pre \/ e.rec = e.post
C09_durable(e)  == e.acked => e.rec = e.post
C09_onetxn(e)   == e.ncommits <= 1 /\ e.writes_outside = 0
C09_openable(e) == e.broken = 0
\* storage-fault experiments: what was acknowledged is in effect, what was refused left nothing behind
C09_fault(e)    == (e.acked => e.rec = e.post) /\ (~e.acked => e.rec = e.pre)
=============================================================================
