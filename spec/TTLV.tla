-------------------------------- MODULE TTLV --------------------------------
(***************************************************************************)
(* The KMIP wire format (TTLV), written from the KMIP specification        *)
(* (section 9.1 "TTLV Encoding"), independently of kmip.core:              *)
(*   item   = tag (3 bytes) | type (1 byte) | length (4 bytes, big-endian) *)
(*            | value | zero padding to a multiple of 8 bytes              *)
(*   types  : 1 Structure, 2 Integer (4), 3 Long Integer (8), 4 Big       *)
(*            Integer (multiple of 8), 5 Enumeration (4), 6 Boolean (8,    *)
(*            value 0 or 1), 7 Text String, 8 Byte String, 9 Date-Time (8),*)
(*            10 Interval (4), 11 Date-Time Extended (8, KMIP 2.0)         *)
(*   a Structure's length is the total size of its (padded) children.      *)
(*                                                                         *)
(* Two halves:                                                             *)
(*  - a DEFINITION: abstract trees [tag, typ, val] and Enc(tree), with     *)
(*    numbers given as sign + magnitude bytes and two's complement         *)
(*    computed on byte sequences (TLC integers are 32-bit);                *)
(*  - a RECOGNISER: Parse(bytes) by recursive descent, the trace spec for  *)
(*    every byte string the implementation emits.                          *)
(* Lemmas checked by TLC on a bounded universe (MC_TTLV):                  *)
(*    Parse(Enc(t)) = t,  Enc(Parse(b).tree) = b for accepted b.           *)
(***************************************************************************)
EXTENDS Naturals, Integers, Sequences, FiniteSets, TLC

Byte == 0..255

TStructure == 1  TInteger == 2  TLong == 3  TBigInt == 4  TEnum == 5  TBool == 6
TText == 7  TBytes == 8  TDateTime == 9  TInterval == 10  TDateTimeExt == 11
Types == 1..11

--------------------------------------------------------------------------
(* byte helpers *)

Zeros(n) == [i \in 1..n |-> 0]
PadLen(n) == (8 - (n % 8)) % 8
\* big-endian bytes of a natural number < 2^31 in `width` bytes
RECURSIVE BE(_, _)
BE(n, width) == IF width = 0 THEN <<>> ELSE BE(n \div 256, width - 1) \o <<n % 256>>
\* value of up to 3 big-endian bytes (24 bits) or of a 4-byte field whose first byte is < 128
RECURSIVE U(_, _, _)
U(b, pos, width) == IF width = 0 THEN 0 ELSE U(b, pos, width - 1) * 256 + b[pos + width - 1]

\* two's complement on byte sequences: complement and add one
Complement(s) == [i \in DOMAIN s |-> 255 - s[i]]
RECURSIVE Inc(_)
Inc(s) == IF Len(s) = 0 THEN <<>>
          ELSE IF s[Len(s)] < 255 THEN [s EXCEPT ![Len(s)] = @ + 1]
          ELSE Inc(SubSeq(s, 1, Len(s) - 1)) \o <<0>>
IsZero(s) == \A i \in DOMAIN s : s[i] = 0
\* a number as sign + big-endian magnitude of the target width
Twos(neg, mag) == IF neg /\ ~IsZero(mag) THEN Inc(Complement(mag)) ELSE mag

--------------------------------------------------------------------------
(* definition: encoder of abstract trees *)
(* tree = [tag |-> 0..2^24-1, typ |-> Types, val |-> value]                 *)
(* val: Structure: sequence of trees; every other type: the value bytes     *)

RECURSIVE Enc(_), EncSeq(_)
EncSeq(ts) == IF Len(ts) = 0 THEN <<>> ELSE Enc(Head(ts)) \o EncSeq(Tail(ts))
Enc(t) ==
    LET body == IF t.typ = TStructure THEN EncSeq(t.val) ELSE t.val IN
    BE(t.tag, 3) \o <<t.typ>> \o BE(Len(body), 4) \o body \o Zeros(PadLen(Len(body)))

\* the value bytes the specification prescribes for each primitive
IntVal(neg, mag4) == Twos(neg, mag4)                  \* Integer / Enumeration / Interval: 4 bytes
LongVal(neg, mag8) == Twos(neg, mag8)                 \* Long Integer / Date-Time: 8 bytes
BoolVal(x) == Zeros(7) \o <<IF x THEN 1 ELSE 0>>
BigVal(neg, mag) ==                                   \* sign-extended to a multiple of 8 bytes
    LET m == IF neg /\ ~IsZero(mag) THEN Inc(Complement(mag)) ELSE mag
        ext == IF neg /\ ~IsZero(mag) THEN 255 ELSE 0 IN
    [i \in 1..PadLen(Len(m)) |-> ext] \o m

--------------------------------------------------------------------------
(* recogniser *)

FixedLen(typ) == CASE typ \in {TInteger, TEnum, TInterval} -> 4
                   [] typ \in {TLong, TBool, TDateTime, TDateTimeExt} -> 8
                   [] OTHER -> -1

Fail(why, pos) == [ok |-> FALSE, why |-> why, at |-> pos, next |-> pos, tree |-> [tag |-> 0, typ |-> 0, val |-> <<>>]]

RECURSIVE ParseItem(_, _, _, _), ParseChildren(_, _, _, _, _)

\* children of a structure between pos and end (exclusive)
ParseChildren(b, pos, end, depth, acc) ==
    IF pos = end THEN [ok |-> TRUE, why |-> "", at |-> pos, next |-> pos, trees |-> acc]
    ELSE LET r == ParseItem(b, pos, end, depth) IN
         IF ~r.ok THEN [ok |-> FALSE, why |-> r.why, at |-> r.at, next |-> pos, trees |-> acc]
         ELSE ParseChildren(b, r.next, end, depth, Append(acc, r.tree))

\* one item starting at pos, which must end at or before `limit` (exclusive)
ParseItem(b, pos, limit, depth) ==
    IF depth > 40 THEN Fail("nesting too deep", pos)
    ELSE IF pos + 8 > limit THEN Fail("truncated header", pos)
    ELSE LET tag == U(b, pos, 3)
             typ == b[pos + 3] IN
    IF b[pos] \notin {66, 84} THEN Fail("tag outside the KMIP / extension range", pos)       \* 0x42.... or 0x54....
    ELSE IF typ \notin Types THEN Fail("unknown item type", pos)
    ELSE IF b[pos + 4] > 127 THEN Fail("length field too large", pos)
    ELSE LET len == U(b, pos + 4, 4)
             start == pos + 8
             padded == len + PadLen(len) IN
    IF len > limit - start \/ start + padded > limit      \* (the first disjunct first: no 32-bit overflow in the second)
    THEN Fail(IF typ = TStructure THEN "structure runs past the enclosing length"
              ELSE IF typ \in {TText, TBytes, TBigInt} THEN "variable-length value runs past the enclosing length"
              ELSE "value runs past the enclosing length", pos)
    ELSE IF FixedLen(typ) # -1 /\ len # FixedLen(typ) THEN Fail("wrong length for a fixed-size type", pos)
    ELSE IF typ = TBigInt /\ (len % 8 # 0 \/ len = 0) THEN Fail("big integer length not a positive multiple of 8", pos)
    ELSE IF \E i \in (start + len)..(start + padded - 1) : b[i] # 0 THEN Fail("non-zero padding", pos)
    ELSE IF typ = TBool /\ ~((\A i \in start..(start + 6) : b[i] = 0) /\ b[start + 7] \in {0, 1}) THEN Fail("boolean not 0/1", pos)
    ELSE IF typ = TStructure
         THEN IF len % 8 # 0 THEN Fail("structure length not a multiple of 8", pos)
              ELSE LET c == ParseChildren(b, start, start + len, depth + 1, <<>>) IN
                   IF ~c.ok THEN Fail(c.why, c.at)
                   ELSE [ok |-> TRUE, why |-> "", at |-> pos, next |-> start + len,
                         tree |-> [tag |-> tag, typ |-> typ, val |-> c.trees]]
         ELSE [ok |-> TRUE, why |-> "", at |-> pos, next |-> start + padded,
               tree |-> [tag |-> tag, typ |-> typ, val |-> [i \in 1..len |-> b[start + i - 1]]]]

\* a whole message: exactly one item, nothing after it
Parse(b) == LET r == ParseItem(b, 1, Len(b) + 1, 0) IN
            IF r.ok /\ r.next # Len(b) + 1 THEN Fail("trailing bytes after the message", r.next) ELSE r

WellFormed(b) == Parse(b).ok

--------------------------------------------------------------------------
(* tree access *)

Kids(t) == IF t.typ = TStructure THEN t.val ELSE <<>>
KidsWith(t, tag) == SelectSeq(Kids(t), LAMBDA k : k.tag = tag)
HasKid(t, tag) == Len(KidsWith(t, tag)) > 0
Kid(t, tag) == KidsWith(t, tag)[1]
\* non-negative value of a 4-byte field (first byte < 128)
NatOf(t) == U(t.val, 1, 4)
=============================================================================
