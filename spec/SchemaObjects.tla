--------------------------- MODULE SchemaObjects ---------------------------
(* Structures of the Query / Discover Versions operations (KMIP 1.x        *)
(* sections 2.1.9, 2.1.18-2.1.21, 4.25, 4.26; KMIP 2.0 sections 6.1.15,    *)
(* 6.1.37, 7.x).                                                           *)
EXTENDS KmipSchemaCore

SchemaObjectsT == [
  \* KMIP 2.0 adds Extension Enumeration, Extension Attribute, Extension Parent Structure Tag and
  \* Extension Description; the implementation has no constructor argument for them: left out.
  \* (Unsure whether 2.0 retypes Extension Type as an Item Type enumeration; Integer as in 1.x and the implementation.)
  ExtensionInformation |-> <<
      Req("extension_name", "EXTENSION_NAME", "text"),
      Opt("extension_tag", "EXTENSION_TAG", "int"),
      Opt("extension_type", "EXTENSION_TYPE", "int") >>
]
ClassTagObjects == [
  ExtensionInformation |-> "EXTENSION_INFORMATION" ]
ClassSinceObjects == [
  ExtensionInformation |-> <<11, 20>> ]
=============================================================================
