--------------------------- MODULE SchemaObjects ---------------------------
(* Structures of the Query / Discover Versions operations (KMIP 1.x        *)
(* sections 2.1.9, 2.1.18-2.1.21, 4.25, 4.26; KMIP 2.0 sections 6.1.15,    *)
(* 6.1.37, 7.x).                                                           *)
EXTENDS KmipSchemaCore

SchemaObjectsT == [
  \* KMIP 2.0 adds Extension Enumeration, Extension Attribute, Extension Parent Structure Tag and
  \* Extension Description; the implementation has no constructor argument for them: left out.
  \* (Unsure whether 2.0 retypes Extension Type as an Item Type enumeration; Integer as in 1.x and the implementation.)
  ExtensionInformation |-> <<
      Req("extension_name", "EXTENSION_NAME", "text"),
      Opt("extension_tag", "EXTENSION_TAG", "int"),
      Opt("extension_type", "EXTENSION_TYPE", "int") >>,
  RNGParameters |-> <<
      ReqE("rng_algorithm", "RNG_ALGORITHM", "RNGAlgorithm"),
      OptE("cryptographic_algorithm", "CRYPTOGRAPHIC_ALGORITHM", "CryptographicAlgorithm"),
      Opt("cryptographic_length", "CRYPTOGRAPHIC_LENGTH", "int"),
      OptE("hashing_algorithm", "HASHING_ALGORITHM", "HashingAlgorithm"),
      OptE("drbg_algorithm", "DRBG_ALGORITHM", "DRBGAlgorithm"),
      OptE("recommended_curve", "RECOMMENDED_CURVE", "RecommendedCurve"),
      OptE("fips186_variation", "FIPS186_VARIATION", "FIPS186Variation"),
      Opt("prediction_resistance", "PREDICTION_RESISTANCE", "bool") >>,
  \* KMIP 2.0 adds Profile Version (structure, optional) after Profile Name; no constructor argument: left out.
  ProfileInformation |-> <<
      ReqE("profile_name", "PROFILE_NAME", "ProfileName"),
      Opt("server_uri", "SERVER_URI", "text"),
      Opt("server_port", "SERVER_PORT", "int") >>,
  ValidationInformation |-> <<
      ReqE("validation_authority_type", "VALIDATION_AUTHORITY_TYPE", "ValidationAuthorityType"),
      Opt("validation_authority_country", "VALIDATION_AUTHORITY_COUNTRY", "text"),
      Opt("validation_authority_uri", "VALIDATION_AUTHORITY_URI", "text"),
      Req("validation_version_major", "VALIDATION_VERSION_MAJOR", "int"),
      Opt("validation_version_minor", "VALIDATION_VERSION_MINOR", "int"),
      ReqE("validation_type", "VALIDATION_TYPE", "ValidationType"),
      Req("validation_level", "VALIDATION_LEVEL", "int"),
      Opt("validation_certificate_identifier", "VALIDATION_CERTIFICATE_IDENTIFIER", "text"),
      Opt("validation_certificate_uri", "VALIDATION_CERTIFICATE_URI", "text"),
      Opt("validation_vendor_uri", "VALIDATION_VENDOR_URI", "text"),
      Many("validation_profiles", "VALIDATION_PROFILE", "text") >>,
  \* KMIP 2.0 adds Quantum Safe Capability (boolean, optional) at the end; no constructor argument: left out.
  CapabilityInformation |-> <<
      Opt("streaming_capability", "STREAMING_CAPABILITY", "bool"),
      Opt("asynchronous_capability", "ASYNCHRONOUS_CAPABILITY", "bool"),
      Opt("attestation_capability", "ATTESTATION_CAPABILITY", "bool"),
      Since(Opt("batch_undo_capability", "BATCH_UNDO_CAPABILITY", "bool"), 14),
      Since(Opt("batch_continue_capability", "BATCH_CONTINUE_CAPABILITY", "bool"), 14),
      OptE("unwrap_mode", "UNWRAP_MODE", "UnwrapMode"),
      OptE("destroy_action", "DESTROY_ACTION", "DestroyAction"),
      OptE("shredding_algorithm", "SHREDDING_ALGORITHM", "ShreddingAlgorithm"),
      OptE("rng_mode", "RNG_MODE", "RNGMode") >>,
  ObjectDefaults |-> <<
      ReqE("object_type", "OBJECT_TYPE", "ObjectType"),
      ReqS("attributes", "ATTRIBUTES", "Attributes") >>,
  DefaultsInformation |-> << SomeS("object_defaults", "OBJECT_DEFAULTS", "ObjectDefaults") >>,
  \* --- Query, Discover Versions ----------------------------------------------
  QueryRequestPayload |-> << F("query_functions", "QUERY_FUNCTION", "enum", "QueryFunction", "+", 10, 20) >>,
  \* Server Information: vendor specific contents under 1.x; KMIP 2.0 defines Server Name, Server Serial Number,
  \* Server Version, Server Load, Product Name, Build Level, Build Date, Cluster Info, Alternative Failover Endpoints.
  \* The implementation keeps undecoded bytes and has no constructor argument: only the empty structure is stated.
  ServerInformation |-> <<>>,
  QueryResponsePayload |-> <<
      ManyE("operations", "OPERATION", "Operation"),
      ManyE("object_types", "OBJECT_TYPE", "ObjectType"),
      Opt("vendor_identification", "VENDOR_IDENTIFICATION", "text"),
      OptS("server_information", "SERVER_INFORMATION", "ServerInformation"),
      Many("application_namespaces", "APPLICATION_NAMESPACE", "text"),
      Since(ManyS("extension_information", "EXTENSION_INFORMATION", "ExtensionInformation"), 11),
      Since(ManyE("attestation_types", "ATTESTATION_TYPE", "AttestationType"), 12),
      Since(ManyS("rng_parameters", "RNG_PARAMETERS", "RNGParameters"), 13),
      Since(ManyS("profile_information", "PROFILE_INFORMATION", "ProfileInformation"), 13),
      Since(ManyS("validation_information", "VALIDATION_INFORMATION", "ValidationInformation"), 13),
      Since(ManyS("capability_information", "CAPABILITY_INFORMATION", "CapabilityInformation"), 13),
      Since(ManyE("client_registration_methods", "CLIENT_REGISTRATION_METHOD", "ClientRegistrationMethod"), 13),
      Since(OptS("defaults_information", "DEFAULTS_INFORMATION", "DefaultsInformation"), 20),
      \* KMIP 2.0 prescribes a Protection Storage Masks STRUCTURE here; the library's field is a list of mask integers
      \* written bare (tag Protection Storage Mask).  The value shape follows the library's API, so this known wire
      \* deviation is stated here instead of being reported as drift on every run (DESIGN 0.6).
      Since(Many("protection_storage_masks", "PROTECTION_STORAGE_MASK", "mask"), 20) >>,
  DiscoverVersionsRequestPayload |-> << ManyS("protocol_versions", "PROTOCOL_VERSION", "ProtocolVersion") >>,
  DiscoverVersionsResponsePayload |-> << ManyS("protocol_versions", "PROTOCOL_VERSION", "ProtocolVersion") >>
]
ClassTagObjects == [
  ExtensionInformation |-> "EXTENSION_INFORMATION", RNGParameters |-> "RNG_PARAMETERS",
  ProfileInformation |-> "PROFILE_INFORMATION", ValidationInformation |-> "VALIDATION_INFORMATION",
  CapabilityInformation |-> "CAPABILITY_INFORMATION", ObjectDefaults |-> "OBJECT_DEFAULTS",
  DefaultsInformation |-> "DEFAULTS_INFORMATION",
  QueryRequestPayload |-> "REQUEST_PAYLOAD", QueryResponsePayload |-> "RESPONSE_PAYLOAD",
  ServerInformation |-> "SERVER_INFORMATION",
  DiscoverVersionsRequestPayload |-> "REQUEST_PAYLOAD", DiscoverVersionsResponsePayload |-> "RESPONSE_PAYLOAD" ]
ClassSinceObjects == [
  ExtensionInformation |-> <<11, 20>>, RNGParameters |-> <<13, 20>>,
  ProfileInformation |-> <<13, 20>>, ValidationInformation |-> <<13, 20>>,
  CapabilityInformation |-> <<13, 20>>, ObjectDefaults |-> <<20, 20>>, DefaultsInformation |-> <<20, 20>>,
  DiscoverVersionsRequestPayload |-> <<11, 20>>, DiscoverVersionsResponsePayload |-> <<11, 20>> ]
=============================================================================
