--------------------------- MODULE SchemaObjects ---------------------------
EXTENDS KmipSchemaCore
SchemaObjectsT == [ x \in {} |-> <<>> ]
ClassTagObjects == [ x \in {} |-> "" ]
ClassSinceObjects == [ x \in {} |-> <<10, 20>> ]
=============================================================================
