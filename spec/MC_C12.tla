------------------------------- MODULE MC_C12 -------------------------------
(* C12: the receive loop of the session (KmipSession._receive_request /
   _receive_bytes / _handle_message_loop / run).  A PLAN is a connection byte
   stream made of frames, how the transport cuts it into recv() results, and
   where it ends.  The model delivers the stream piece by piece exactly as the
   code asks for it (8 header bytes, then `length` body bytes, each recv
   returning at most what was asked for), produces one response per complete
   frame and stops at end of stream.  Every plan is an initial state; the final
   state of each behaviour is emitted and executed on a real KmipSession.

   Frame kinds: "valid" (decodable, served), "refused" (decodable, the engine
   answers with an error item), "toolarge" (decodable, answer exceeds the
   maximum response size the client asked for), "undecodable" (frame with a
   correct length whose body the decoder rejects).                           *)
EXTENDS Naturals, Sequences, FiniteSets, TLC, Json

CONSTANT MaxFrames

Kinds == {"valid", "refused", "toolarge", "undecodable"}
\* (header cut, body cut): 0 = delivered whole; header cut k = after k bytes;
\* body cut 1 = after the first byte, 2 = in the middle, 3 = before the last byte
Cuts == {<<0, 0>>, <<1, 1>>, <<4, 2>>, <<7, 3>>, <<4, 0>>}
\* how the stream ends after the last complete frame: 0 = clean, 1 = inside a header, 2 = inside a body
Ends == {0, 1, 2}

Frames == UNION {[1..n -> [kind : Kinds, cut : Cuts]] : n \in 1..MaxFrames}
Plans == [frames : Frames, end : Ends]

VARIABLES plan, idx, phase, piece, sent, calls
vars == <<plan, idx, phase, piece, sent, calls>>

Init == /\ plan \in Plans
        /\ idx = 1 /\ phase = "hdr" /\ piece = 1 /\ sent = <<>> /\ calls = 0

RespOf(kind) == CASE kind = "valid" -> "Success" [] kind = "refused" -> "EngineError"
                  [] kind = "toolarge" -> "ResponseTooLarge" [] OTHER -> "InvalidMessage"
Decodable(kind) == kind # "undecodable"

NPieces(cutpos) == IF cutpos = 0 THEN 1 ELSE 2

\* one recv() result
Recv ==
    /\ phase \in {"hdr", "body"}
    /\ idx <= Len(plan.frames)
    /\ LET f == plan.frames[idx]
           np == NPieces(IF phase = "hdr" THEN f.cut[1] ELSE f.cut[2]) IN
       IF piece < np THEN /\ piece' = piece + 1 /\ UNCHANGED <<plan, idx, phase, sent, calls>>
       ELSE IF phase = "hdr" THEN /\ phase' = "body" /\ piece' = 1 /\ UNCHANGED <<plan, idx, sent, calls>>
       ELSE \* frame complete: parse, (authenticate,) engine, one response
            /\ sent' = Append(sent, RespOf(f.kind))
            /\ calls' = calls + (IF Decodable(f.kind) THEN 1 ELSE 0)
            /\ idx' = idx + 1 /\ phase' = "hdr" /\ piece' = 1 /\ UNCHANGED plan

\* end of stream: recv() returns b'' -> ConnectionClosed ends the session; a partial frame gets no answer
Eof ==
    /\ phase \in {"hdr", "body"} /\ idx > Len(plan.frames)
    /\ phase' = "closed" /\ UNCHANGED <<plan, idx, piece, sent, calls>>

Next == Recv \/ Eof
Spec == Init /\ [][Next]_vars

\* properties of the loop
OnePerFrame == Len(sent) = idx - 1
InOrder == \A i \in DOMAIN sent : sent[i] = RespOf(plan.frames[i].kind)
EngineOnlyDecoded == calls = Cardinality({i \in 1..(idx - 1) : Decodable(plan.frames[i].kind)})
Closes == phase = "closed" => Len(sent) = Len(plan.frames)

EmitFinal == (phase' = "closed") => PrintT("@PLAN@" \o ToJson([plan |-> plan, sent |-> sent', calls |-> calls']))
=============================================================================
