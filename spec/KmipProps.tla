----------------------------- MODULE KmipProps -----------------------------
(***************************************************************************)
(* The engine-level properties as predicates over one observed (or         *)
(* modelled) batch item:                                                   *)
(*   a   = store before the item        (a.objs : uid -> object)           *)
(*   b   = store after the item                                            *)
(*   req = the request, it = the item, r = its result                      *)
(*         r = [status, reason, mc, uids, attrs, names]                    *)
(*   g   = ghost history [issued : set of uids ever issued on this         *)
(*         database, dead : set of destroyed uids]                         *)
(* These are the WEAKEST readings of the property statements (DESIGN 6);   *)
(* they are the only source of VIOLATION verdicts.  The same formulas are  *)
(* TLC invariants over the model (MC_Engine) and step predicates over      *)
(* recorded executions of the real engine (TraceEngine).                   *)
(***************************************************************************)
EXTENDS KmipEngine

Succ(r) == r.status = "Success"
Common(a, b) == (DOMAIN a.objs) \cap (DOMAIN b.objs)
ChangedObjs(a, b) == {u \in DOMAIN a.objs : u \notin DOMAIN b.objs \/ b.objs[u] # a.objs[u]}
NewObjs(a, b) == (DOMAIN b.objs) \ (DOMAIN a.objs)

Grant(a, id, u, op) ==
    LET o == a.objs[u] IN Granted(a.pols, o.policy, id, o.owner, o.type, GoverningOp(op))

\* the object an item addresses directly (identifier, else the placeholder)
TargetOf(a, it) == IF "uid" \in DOMAIN it.p THEN Target(a, it.p.uid) ELSE NoUid
Addresses(it) == "uid" \in DOMAIN it.p

--------------------------------------------------------------------------
(* C03 - access control *)

\* objects a successful item discloses something about, with the governing operation
Disclosed(a, it, r) ==
    IF ~Succ(r) THEN {}
    ELSE CASE it.op = "Locate" -> {<<u, "Locate">> : u \in Range(r.uids) \cap DOMAIN a.objs}
           [] it.op = "DeriveKey" -> {<<u, "Get">> : u \in Range(it.p.uids) \cap DOMAIN a.objs}
           [] it.op = "Get" ->
                {<<u, "Get">> : u \in ({TargetOf(a, it)} \cup
                      (IF it.p.wrap /\ it.p.w.haskey THEN {it.p.w.kuid} ELSE {})) \cap DOMAIN a.objs}
           [] it.op \in {"Create", "CreateKeyPair", "Register", "Query", "DiscoverVersions"} -> {}
           [] OTHER -> {<<u, it.op>> : u \in {TargetOf(a, it)} \cap DOMAIN a.objs}

C03_effect(a, req, it, r, b) ==
    /\ \A d \in Disclosed(a, it, r) : Grant(a, Ident(req), d[1], d[2])
    /\ \A u \in ChangedObjs(a, b) : Grant(a, Ident(req), u, it.op)

\* reasons a refusal may carry when the requester has no grant
DenialReasons == {"PermissionDenied", "ItemNotFound"}

C03_denial(a, req, it, r, b) ==
    LET u == TargetOf(a, it) IN
    (Addresses(it) /\ it.op \in ServerOps /\ it.op \notin {"Create", "CreateKeyPair", "Register", "DeriveKey", "Locate"}
       /\ u \in DOMAIN a.objs /\ ~Grant(a, Ident(req), u, it.op))
    => /\ ~Succ(r)
       /\ r.uids = <<>> /\ r.attrs = <<>> /\ r.names = <<>>
       /\ b.objs = a.objs
       \* a refusal that is about the object looks exactly like "no such object"
       /\ (r.reason \in DenialReasons => r.mc = "NotFound")

C03_owner(a, req, it, r, b) ==
    /\ \A u \in NewObjs(a, b) : b.objs[u].owner = req.user
    /\ \A u \in Common(a, b) : b.objs[u].owner = a.objs[u].owner

--------------------------------------------------------------------------
(* C04 - lifecycle *)

LcMoves == {<<"PreActive", "Active">>, <<"Active", "Deactivated">>}
             \cup {<<s, "Compromised">> : s \in {"PreActive", "Active", "Deactivated"}}

C04_moves(a, req, it, r, b) ==
    \A u \in Common(a, b) :
        LET x == a.objs[u].state  y == b.objs[u].state IN
        x # y => /\ <<x, y>> \in LcMoves
                 /\ Succ(r) /\ it.op \in {"Activate", "Revoke"} /\ u = TargetOf(a, it)
                 /\ (y = "Compromised" => it.op = "Revoke" /\ it.p.code \in {"KEY_COMPROMISE", "CA_COMPROMISE"})
                 /\ (it.op = "Activate" => y = "Active")

\* a key- or CA-compromise revocation that succeeds leaves the object Compromised - from whatever state it was in
C04_compromise(a, it, r, b) ==
    (it.op = "Revoke" /\ Succ(r) /\ it.p.code \in {"KEY_COMPROMISE", "CA_COMPROMISE"}) =>
        LET u == TargetOf(a, it) IN u \in DOMAIN b.objs => b.objs[u].state = "Compromised"

C04_initial(a, b) ==
    \A u \in NewObjs(a, b) : b.objs[u].state \in {"PreActive", "NA"}

C04_use(a, req, it, r) ==
    /\ (it.op \in CryptoUses /\ Succ(r)) =>
          LET k == TargetOf(a, it) IN
          /\ k \in DOMAIN a.objs
          /\ a.objs[k].state = "Active"
          /\ a.objs[k].type \in KindFor(it.op)
          /\ BitFor(it.op) \in a.objs[k].mask
    /\ (it.op = "Get" /\ Succ(r) /\ it.p.wrap) =>
          /\ it.p.w.haskey /\ it.p.w.kuid \in DOMAIN a.objs
          /\ LET ko == a.objs[it.p.w.kuid] IN
             ko.state = "Active" /\ ko.type = "SymmetricKey" /\ "WRAP_KEY" \in ko.mask
    /\ (it.op = "DeriveKey" /\ Succ(r)) =>
          \A u \in Range(it.p.uids) : u \in DOMAIN a.objs /\ "DERIVE_KEY" \in a.objs[u].mask

C04_destroy(a, it, r) ==
    (it.op = "Destroy" /\ Succ(r)) =>
        LET u == TargetOf(a, it) IN u \in DOMAIN a.objs /\ a.objs[u].state # "Active"

--------------------------------------------------------------------------
(* C07 - identifiers *)

C07_fresh(a, b, g) ==
    \A u \in NewObjs(a, b) : u \notin g.issued /\ u \notin g.dead

C07_reported(a, it, r, b) ==
    \* identifiers reported by a creating operation are exactly the new objects
    (it.op \in {"Create", "CreateKeyPair", "Register", "DeriveKey"} /\ Succ(r)) =>
        /\ Range(r.uids) = NewObjs(a, b)
        /\ Len(r.uids) = Cardinality(NewObjs(a, b))

C07_dead(a, it, r, b, g) ==
    \* an operation on a dead identifier fails and discloses nothing; where the refusal is about
    \* the object it reads exactly like "no such object" (a refusal for another cause that precedes
    \* the lookup - operation not supported under this version, malformed request - is not alarmed)
    /\ (Addresses(it) /\ TargetOf(a, it) \in g.dead) =>
           /\ ~Succ(r) /\ r.uids = <<>> /\ r.attrs = <<>> /\ r.names = <<>>
           /\ (r.reason \in DenialReasons => r.mc = "NotFound")
           /\ r.reason # "GeneralFailure"
    /\ (it.op = "Locate" /\ Succ(r)) => Range(r.uids) \cap g.dead = {}
    /\ \A u \in g.dead : u \notin DOMAIN b.objs

C07_frame(a, it, r, b) ==
    (it.op = "Destroy" /\ Succ(r)) =>
        /\ TargetOf(a, it) \notin DOMAIN b.objs
        /\ \A u \in (DOMAIN a.objs) \ {TargetOf(a, it)} : u \in DOMAIN b.objs /\ b.objs[u] = a.objs[u]

--------------------------------------------------------------------------
(* C08 - batches (item level; request level in TraceEngine / MC_Engine) *)

C08_failclean(a, r, b) ==
    ~Succ(r) => b.objs = a.objs /\ b.seq = a.seq

\* only the operations that may change the store do so, and only their target
Mutators == {"Create", "CreateKeyPair", "Register", "DeriveKey", "Activate", "Revoke", "Destroy",
             "SetAttribute", "ModifyAttribute", "DeleteAttribute"}
C08_frame(a, it, r, b) ==
    /\ it.op \notin Mutators => b.objs = a.objs
    /\ it.op \in {"Activate", "Revoke", "Destroy", "SetAttribute", "ModifyAttribute", "DeleteAttribute"} =>
           /\ ChangedObjs(a, b) \subseteq {TargetOf(a, it)}
           /\ NewObjs(a, b) = {}
    /\ it.op \in {"Create", "CreateKeyPair", "Register", "DeriveKey"} => ChangedObjs(a, b) = {}

--------------------------------------------------------------------------
(* C13 - no internal-error path *)

C13_item(r) == r.reason # "GeneralFailure" /\ r.mc # "General"

--------------------------------------------------------------------------
(* C14 - Locate (declarative definition, independent of H_Locate) *)

MatchesFilter(o, u, f) ==
    IF ~HasRule(f.name) THEN FALSE
    ELSE IF ~AttrApplicable(f.name, o.type) THEN FALSE
    ELSE CASE f.name = "Name" -> f.v \in Range(o.names)
           [] f.name = "Object Group" -> f.v \in Range(o.groups)
           [] f.name = "Application Specific Information" -> \E i \in DOMAIN o.appinfo : o.appinfo[i] = f.v
           [] f.name = "State" -> HasState(o.type) /\ o.state = f.v
           [] f.name = "Object Type" -> o.type = f.v
           [] f.name = "Cryptographic Algorithm" -> HasAlg(o.type) /\ o.alg = f.v
           [] f.name = "Cryptographic Length" -> HasAlg(o.type) /\ o.len = f.v
           [] f.name = "Cryptographic Usage Mask" -> HasMask(o.type) /\ Range(f.v) \subseteq o.mask
           [] f.name = "Operation Policy Name" -> o.policy = f.v
           [] f.name = "Certificate Type" -> o.type = "Certificate" /\ o.sub = f.v
           [] f.name = "Unique Identifier" -> ToString(u) = f.v
           [] f.name = "Sensitive" -> o.sensitive = f.v
           [] f.name = "Initial Date" -> TRUE          \* handled jointly below
           [] OTHER -> TRUE                              \* attributes the server does not store

DateFilters(filters) == SelectSeq(filters, LAMBDA f : f.name = "Initial Date")
DateOk(o, filters) ==
    LET d == DateFilters(filters) IN
    CASE Len(d) = 0 -> TRUE
      [] Len(d) = 1 -> o.idate = d[1].v
      [] Len(d) = 2 -> o.idate >= Min2(d[1].v, d[2].v) /\ o.idate <= Max2(d[1].v, d[2].v)
      [] OTHER -> FALSE

\* filters whose semantics this definition decides
DecidedFilter(f) == f.name \in StoredAttrs
LocateDecided(it) == \A i \in DOMAIN it.p.filters : DecidedFilter(it.p.filters[i])

LocateSetBy(a, id, filters, permitted(_)) ==
    {u \in DOMAIN a.objs :
        /\ permitted(u)
        /\ \A i \in DOMAIN filters : MatchesFilter(a.objs[u], u, filters[i])
        /\ DateOk(a.objs[u], filters)}

\* permitted as the property defines it ...
LocateSet(a, id, filters) == LocateSetBy(a, id, filters, LAMBDA u : Grant(a, id, u, "Locate"))
\* ... and as the engine decides it: it additionally denies requesters that carry group information
\* under a policy without a groups section (a refusal C03 does not forbid; for Locate it means
\* permitted objects are missing from the result - reported separately as C14_*_groups)
LocateSetImpl(a, id, filters) == LocateSetBy(a, id, filters, LAMBDA u : Allowed(a, id, u, "Locate"))

NoDupSeq(s) == \A i, j \in DOMAIN s : i # j => s[i] # s[j]

C14_order(a, it, r) ==
    (it.op = "Locate" /\ Succ(r)) =>
        /\ NoDupSeq(r.uids)
        /\ \A i, j \in DOMAIN r.uids : (i < j /\ r.uids[i] \in DOMAIN a.objs /\ r.uids[j] \in DOMAIN a.objs)
              => a.objs[r.uids[i]].idate >= a.objs[r.uids[j]].idate

Unpaged(it) == it.p.offset < 0 /\ it.p.max < 0
LocateJudged(it, r) == it.op = "Locate" /\ Succ(r) /\ LocateDecided(it) /\ Len(DateFilters(it.p.filters)) <= 2

\* unpaged request: exactly the permitted matching objects
SetOK(full, r) == Range(r.uids) = full
C14_set(a, req, it, r) ==
    (LocateJudged(it, r) /\ Unpaged(it)) =>
        \/ SetOK(LocateSet(a, Ident(req), it.p.filters), r)
        \/ SetOK(LocateSetImpl(a, Ident(req), it.p.filters), r)
C14_set_groups(a, req, it, r) ==
    (LocateJudged(it, r) /\ Unpaged(it)) =>
        ~(~SetOK(LocateSet(a, Ident(req), it.p.filters), r) /\ SetOK(LocateSetImpl(a, Ident(req), it.p.filters), r))

\* paged request: the slice of the same ordered list
PageOK(a, it, r, full) ==
    LET n == Cardinality(full)
        off == IF it.p.offset < 0 THEN 0 ELSE it.p.offset
        rest == IF off >= n THEN 0 ELSE n - off
        want == IF it.p.max < 0 THEN rest ELSE Min2(it.p.max, rest) IN
    /\ Range(r.uids) \subseteq full
    /\ Len(r.uids) = want
    \* the slice holds the right ranks: at most `off + i - 1` permitted matches are strictly newer than
    \* the i-th returned one and at least `off + i` are at least as new (ties between equal dates are free)
    /\ \A i \in DOMAIN r.uids :
          Cardinality({u \in full : a.objs[u].idate > a.objs[r.uids[i]].idate}) <= off + i - 1
    /\ \A i \in DOMAIN r.uids :
          Cardinality({u \in full : a.objs[u].idate >= a.objs[r.uids[i]].idate}) >= off + i
C14_page(a, req, it, r) ==
    (LocateJudged(it, r) /\ ~Unpaged(it)) =>
        \/ PageOK(a, it, r, LocateSet(a, Ident(req), it.p.filters))
        \/ PageOK(a, it, r, LocateSetImpl(a, Ident(req), it.p.filters))
C14_page_groups(a, req, it, r) ==
    (LocateJudged(it, r) /\ ~Unpaged(it)) =>
        ~(~PageOK(a, it, r, LocateSet(a, Ident(req), it.p.filters))
          /\ PageOK(a, it, r, LocateSetImpl(a, Ident(req), it.p.filters)))

--------------------------------------------------------------------------
(* C15 - attribute operations *)

AttrOps == {"SetAttribute", "ModifyAttribute", "DeleteAttribute"}
FixedFields == {"type", "state", "owner", "policy", "mask", "alg", "len", "idate", "val", "fmt", "sub"}

C15_fixed(a, it, b) ==
    it.op \in AttrOps =>
        /\ DOMAIN b.objs = DOMAIN a.objs
        /\ \A u \in DOMAIN a.objs : \A f \in FixedFields : b.objs[u][f] = a.objs[u][f]

C15_fail(a, it, r, b) == (it.op \in AttrOps /\ ~Succ(r)) => b.objs = a.objs /\ b.seq = a.seq

\* the exact effect a successful call must have (as asked, nothing else)
ExpectedAttrEffect(a, req, it) ==
    LET u == TargetOf(a, it)  o == a.objs[u]  p == it.p IN
    IF it.op = "SetAttribute" THEN
        IF p.new.name = "Sensitive" THEN [o EXCEPT !.sensitive = p.new.v] ELSE o
    ELSE IF it.op = "ModifyAttribute" THEN
        IF req.ver >= 20 THEN
            IF p.new.name \in ListAttrs THEN SetAt(o, p.new.name, InstIndex(o, u, p.new.name, p.cur.v), p.new.v)
            ELSE IF p.new.name = "Sensitive" THEN [o EXCEPT !.sensitive = p.new.v] ELSE o
        ELSE IF p.attr.name \in ListAttrs THEN SetAt(o, p.attr.name, IF p.attr.idx = -1 THEN 0 ELSE p.attr.idx, p.attr.v)
             ELSE IF p.attr.name = "Sensitive" THEN [o EXCEPT !.sensitive = p.attr.v] ELSE o
    ELSE \* DeleteAttribute
        IF req.ver >= 20 THEN
            IF p.hascur THEN DelAt(o, p.cur.name, InstIndex(o, u, p.cur.name, p.cur.v))
            ELSE DelAll(o, p.ref)
        ELSE DelAt(o, p.name, IF p.idx = -99 THEN 0 ELSE p.idx)

\* the addressed instance must exist (a negative or out-of-range index addresses nothing)
AddressesInstance(a, req, it) ==
    LET u == TargetOf(a, it)  o == a.objs[u]  p == it.p IN
    IF it.op = "SetAttribute" THEN TRUE
    ELSE IF it.op = "ModifyAttribute" THEN
        IF req.ver >= 20 THEN
            \* the current attribute, when given, is an instance of the attribute that is written
            /\ (p.hascur => p.cur.name = p.new.name)
            /\ (p.new.name \in ListAttrs => p.hascur /\ InstIndex(o, u, p.new.name, p.cur.v) >= 0)
        ELSE (p.attr.name \in ListAttrs =>
                LET i == IF p.attr.idx = -1 THEN 0 ELSE p.attr.idx IN i >= 0 /\ i < InstCount(o, p.attr.name))
    ELSE IF req.ver >= 20 THEN
            (p.hascur => p.cur.name \in ListAttrs /\ InstIndex(o, u, p.cur.name, p.cur.v) >= 0)
         ELSE LET i == IF p.idx = -99 THEN 0 ELSE p.idx IN
              p.name \in ListAttrs /\ i >= 0 /\ i < InstCount(o, p.name)

C15_exact(a, req, it, r, b) ==
    (it.op \in AttrOps /\ Succ(r)) =>
        LET u == TargetOf(a, it) IN
        /\ u \in DOMAIN a.objs
        /\ AddressesInstance(a, req, it)
        /\ b.objs = [a.objs EXCEPT ![u] = ExpectedAttrEffect(a, req, it)]

--------------------------------------------------------------------------
(* C16 - version gating at the item level *)

C16_op(req, it, r) == (it.op \in ServerOps /\ req.ver < MinVersion(it.op)) => ~Succ(r)

C16_attrs(req, it, r) ==
    /\ (it.op \in {"GetAttributes"} /\ Succ(r)) =>
          \A i \in DOMAIN r.attrs : HasRule(r.attrs[i].name) =>
              AttrSupported(r.attrs[i].name, req.ver) /\ ~AttrDeprecated(r.attrs[i].name, req.ver)
    /\ (it.op = "GetAttributeList" /\ Succ(r)) =>
          \A i \in DOMAIN r.names : HasRule(r.names[i]) =>
              AttrSupported(r.names[i], req.ver) /\ ~AttrDeprecated(r.names[i], req.ver)

\* ... nor as a Locate filter (a client of an earlier version could otherwise probe the attribute through the result)
C16_locate(req, it, r) ==
    (it.op = "Locate" /\ Succ(r)) =>
        \A i \in DOMAIN it.p.filters : HasRule(it.p.filters[i].name) => AttrSupported(it.p.filters[i].name, req.ver)

\* an attribute not yet introduced under the request's version is not accepted at creation
C16_create(a, req, it, r, b) ==
    (it.op \in {"Create", "Register"} /\ Succ(r)) =>
        \A i \in DOMAIN it.p.attrs : AttrSupported(it.p.attrs[i].name, req.ver)

\* an operation the server advertises under this version is never refused as unavailable under it
C16_avail(req, it, r) ==
    (it.op \in Range(QueryOps(req.ver)) /\ req.ver \in SupportedVersions) =>
        ~(r.reason = "OperationNotSupported" /\ r.mc = "OpVersion")

C16_query(req, it, r) ==
    (it.op = "Query" /\ Succ(r)) => \A i \in DOMAIN r.names : r.names[i] \in ServerOps => req.ver >= MinVersion(r.names[i])

--------------------------------------------------------------------------
(* C05 - what GetAttributes must report for a stored object (projection)   *)
C05_attrs(a, req, it, r) ==
    (it.op = "GetAttributes" /\ Succ(r) /\ Len(it.p.names) = 0 /\ TargetOf(a, it) \in DOMAIN a.objs) =>
        LET u == TargetOf(a, it)
            want == AttrsOfNames(a.objs[u], u, AllRuleNames, 1, req.ver) IN
        /\ Len(r.attrs) = Len(want)
        /\ \A i \in DOMAIN want :
              /\ r.attrs[i].name = want[i].name
              /\ r.attrs[i].idx = want[i].idx
              /\ IF want[i].name = "Cryptographic Usage Mask" THEN Range(r.attrs[i].v) = want[i].v
                 ELSE r.attrs[i].v = want[i].v

ItemClauses == {"C03_effect", "C03_denial", "C03_owner", "C04_moves", "C04_initial", "C04_use", "C04_destroy", "C04_compromise",
                "C07_fresh", "C07_reported", "C07_dead", "C07_frame", "C08_failclean", "C08_frame",
                "C13_item", "C14_order", "C14_set", "C14_page", "C14_set_groups", "C14_page_groups", "C15_fixed", "C15_fail", "C15_exact",
                "C16_op", "C16_attrs", "C16_create", "C16_locate", "C16_query", "C16_avail", "C05_attrs"}

Holds(c, a, req, it, r, b, g) ==
    CASE c = "C03_effect" -> C03_effect(a, req, it, r, b)
      [] c = "C03_denial" -> C03_denial(a, req, it, r, b)
      [] c = "C03_owner" -> C03_owner(a, req, it, r, b)
      [] c = "C04_moves" -> C04_moves(a, req, it, r, b)
      [] c = "C04_initial" -> C04_initial(a, b)
      [] c = "C04_compromise" -> C04_compromise(a, it, r, b)
      [] c = "C04_use" -> C04_use(a, req, it, r)
      [] c = "C04_destroy" -> C04_destroy(a, it, r)
      [] c = "C07_fresh" -> C07_fresh(a, b, g)
      [] c = "C07_reported" -> C07_reported(a, it, r, b)
      [] c = "C07_dead" -> C07_dead(a, it, r, b, g)
      [] c = "C07_frame" -> C07_frame(a, it, r, b)
      [] c = "C08_failclean" -> C08_failclean(a, r, b)
      [] c = "C08_frame" -> C08_frame(a, it, r, b)
      [] c = "C13_item" -> C13_item(r)
      [] c = "C14_order" -> C14_order(a, it, r)
      [] c = "C14_set" -> C14_set(a, req, it, r)
      [] c = "C14_page" -> C14_page(a, req, it, r)
      [] c = "C14_set_groups" -> C14_set_groups(a, req, it, r)
      [] c = "C14_page_groups" -> C14_page_groups(a, req, it, r)
      [] c = "C15_fixed" -> C15_fixed(a, it, b)
      [] c = "C15_fail" -> C15_fail(a, it, r, b)
      [] c = "C15_exact" -> C15_exact(a, req, it, r, b)
      [] c = "C16_op" -> C16_op(req, it, r)
      [] c = "C16_attrs" -> C16_attrs(req, it, r)
      [] c = "C16_create" -> C16_create(a, req, it, r, b)
      [] c = "C16_locate" -> C16_locate(req, it, r)
      [] c = "C16_query" -> C16_query(req, it, r)
      [] c = "C16_avail" -> C16_avail(req, it, r)
      [] c = "C05_attrs" -> C05_attrs(a, req, it, r)

FailedClauses(a, req, it, r, b, g) == {c \in ItemClauses : ~Holds(c, a, req, it, r, b, g)}
FailedIn(S, a, req, it, r, b, g) == {c \in S \cap ItemClauses : ~Holds(c, a, req, it, r, b, g)}
=============================================================================
