---------------------------- MODULE Concurrency ----------------------------
(***************************************************************************)
(* Several sessions sharing one KmipEngine (property C10).                 *)
(*                                                                         *)
(* The engine object keeps per-request state in its own fields: the        *)
(* requester's identity, the protocol version (and the attribute rules     *)
(* derived from it), the ID placeholder and the database session.          *)
(* process_request sets them and the handlers read them, so the steps of   *)
(* two requests must not interleave.  One re-entrant lock around           *)
(* process_request provides that (LOCKED).  Request processing is split    *)
(* where the code reads or writes the shared fields or the store:          *)
(*   Enter -> Acquire -> SetVersion -> SetIdentity (also resets the        *)
(*   placeholder) -> one or two steps per batch item -> Release.           *)
(*                                                                         *)
(* A request is a sequence of items:                                       *)
(*   "create"  generate key material (no shared state touched), then store *)
(*             the object under the CURRENT identity, placeholder := uid   *)
(*   "getph"   identifier-less Get: the placeholder's object, allowed only *)
(*             to its owner (access decision under the CURRENT identity)   *)
(*   "query"   answers with what the CURRENT protocol version supports     *)
(*                                                                         *)
(* Property (Linearizable): when all requests are answered, the responses  *)
(* and the store are those of SOME serial order of the requests, each      *)
(* evaluated under the identity and version of its own session.            *)
(* OwnIdentity: every item was evaluated under its own session's identity  *)
(* and version.                                                            *)
(*                                                                         *)
(* Negative controls (each a realistic way of weakening the lock):         *)
(*   LOCKED = FALSE        no lock at all                                  *)
(*   FASTPATH = TRUE       requests made of "query" items only skip the    *)
(*                         lock, but still write the shared fields         *)
(*   UNLOCK_IN_CREATE      the lock is dropped while key material is       *)
(*                         generated and taken again afterwards            *)
(*   TIMEOUT = TRUE        a bounded wait for the lock: when it runs out   *)
(*                         the request proceeds without the lock           *)
(***************************************************************************)
EXTENDS Naturals, Sequences, FiniteSets, TLC

CONSTANTS Sessions,          \* session -> [user, ver, items]
          LOCKED, FASTPATH, UNLOCK_IN_CREATE, TIMEOUT

S == DOMAIN Sessions
NoUid == 0
Items(s) == Sessions[s].items
QueryOnly(s) == \A i \in DOMAIN Items(s) : Items(s)[i] = "query"

VARIABLES pc,        \* per session: where it is
          holds,     \* per session: does it hold the lock (a session may run unlocked in the negative controls)
          lock,      \* "free" or the holder
          curUser, curVer, ph,      \* shared transient fields of the engine object
          store,     \* uid -> owner (the persistent objects)
          seq,       \* AUTOINCREMENT high-water mark
          k,         \* per session: index of the item being processed
          res,       \* per session: results so far
          evals      \* ghost: under which identity / version each item was evaluated
vars == <<pc, holds, lock, curUser, curVer, ph, store, seq, k, res, evals>>

Init == /\ pc = [s \in S |-> "idle"] /\ holds = [s \in S |-> FALSE] /\ lock = "free"
        /\ curUser = "nobody" /\ curVer = 0 /\ ph = NoUid
        /\ store = <<>> /\ seq = 0
        /\ k = [s \in S |-> 1] /\ res = [s \in S |-> <<>>] /\ evals = {}

Goto(s, l) == pc' = [pc EXCEPT ![s] = l]

Enter(s) == pc[s] = "idle" /\ Goto(s, "wantlock")
            /\ UNCHANGED <<holds, lock, curUser, curVer, ph, store, seq, k, res, evals>>

\* with the lock: wait until it is free.  Unlocked variants pass without it.
Acquire(s) ==
    /\ pc[s] = "wantlock"
    /\ IF ~LOCKED \/ (FASTPATH /\ QueryOnly(s))
       THEN UNCHANGED <<lock, holds>>
       ELSE IF lock = "free" THEN lock' = s /\ holds' = [holds EXCEPT ![s] = TRUE]
       ELSE TIMEOUT /\ UNCHANGED <<lock, holds>>         \* the bounded wait ran out (only enabled when TIMEOUT)
    /\ Goto(s, "setver")
    /\ UNCHANGED <<curUser, curVer, ph, store, seq, k, res, evals>>

\* process_request: the version first, then (after the header checks) the identity; the placeholder starts empty
SetVersion(s)  == /\ pc[s] = "setver" /\ curVer' = Sessions[s].ver /\ Goto(s, "setuser")
                  /\ UNCHANGED <<holds, lock, curUser, ph, store, seq, k, res, evals>>
SetIdentity(s) == /\ pc[s] = "setuser" /\ curUser' = Sessions[s].user /\ ph' = NoUid /\ Goto(s, "item")
                  /\ UNCHANGED <<holds, lock, curVer, store, seq, k, res, evals>>

Seen(s) == evals' = evals \cup {[session |-> s, user |-> curUser, ver |-> curVer]}
Answer(s, r) == res' = [res EXCEPT ![s] = Append(@, r)] /\ k' = [k EXCEPT ![s] = @ + 1]

\* "create", first half: key generation touches nothing shared; some variants give the lock up meanwhile
CreateGen(s) ==
    /\ pc[s] = "item" /\ k[s] <= Len(Items(s)) /\ Items(s)[k[s]] = "create"
    /\ IF UNLOCK_IN_CREATE /\ holds[s]
       THEN lock' = "free" /\ holds' = [holds EXCEPT ![s] = FALSE] /\ Goto(s, "relock")
       ELSE UNCHANGED <<lock, holds>> /\ Goto(s, "store")
    /\ UNCHANGED <<curUser, curVer, ph, store, seq, k, res, evals>>
Relock(s) ==
    /\ pc[s] = "relock" /\ lock = "free"
    /\ lock' = s /\ holds' = [holds EXCEPT ![s] = TRUE] /\ Goto(s, "store")
    /\ UNCHANGED <<curUser, curVer, ph, store, seq, k, res, evals>>
\* "create", second half: the object is stored under whatever identity the engine holds NOW
CreateStore(s) ==
    /\ pc[s] = "store"
    /\ seq' = seq + 1
    /\ store' = [u \in (DOMAIN store) \cup {seq + 1} |-> IF u = seq + 1 THEN curUser ELSE store[u]]
    /\ ph' = seq + 1
    /\ Answer(s, <<"created", seq + 1>>) /\ Seen(s) /\ Goto(s, "item")
    /\ UNCHANGED <<holds, lock, curUser, curVer>>

GetPh(s) ==
    /\ pc[s] = "item" /\ k[s] <= Len(Items(s)) /\ Items(s)[k[s]] = "getph"
    /\ Answer(s, IF ph # NoUid /\ ph \in DOMAIN store /\ store[ph] = curUser THEN <<"got", ph>> ELSE <<"denied", 0>>)
    /\ Seen(s)
    /\ UNCHANGED <<pc, holds, lock, curUser, curVer, ph, store, seq>>

Query(s) ==
    /\ pc[s] = "item" /\ k[s] <= Len(Items(s)) /\ Items(s)[k[s]] = "query"
    /\ Answer(s, <<"ops-of", curVer>>) /\ Seen(s)
    /\ UNCHANGED <<pc, holds, lock, curUser, curVer, ph, store, seq>>

Release(s) ==
    /\ pc[s] = "item" /\ k[s] > Len(Items(s))
    /\ IF holds[s] THEN lock' = "free" /\ holds' = [holds EXCEPT ![s] = FALSE] ELSE UNCHANGED <<lock, holds>>
    /\ Goto(s, "done")
    /\ UNCHANGED <<curUser, curVer, ph, store, seq, k, res, evals>>

Next == \E s \in S : Enter(s) \/ Acquire(s) \/ SetVersion(s) \/ SetIdentity(s) \/ CreateGen(s) \/ Relock(s)
                     \/ CreateStore(s) \/ GetPh(s) \/ Query(s) \/ Release(s)
Spec == Init /\ [][Next]_vars

--------------------------------------------------------------------------
(* the sequential engine: one request evaluated atomically *)

RECURSIVE SerialItems(_, _, _, _, _, _)
\* returns [store, seq, res]
SerialItems(s, i, st, sq, p, acc) ==
    IF i > Len(Items(s)) THEN [store |-> st, seq |-> sq, res |-> acc]
    ELSE LET it == Items(s)[i] IN
         IF it = "create"
         THEN SerialItems(s, i + 1, [u \in (DOMAIN st) \cup {sq + 1} |-> IF u = sq + 1 THEN Sessions[s].user ELSE st[u]],
                          sq + 1, sq + 1, Append(acc, <<"created", sq + 1>>))
         ELSE IF it = "getph"
         THEN SerialItems(s, i + 1, st, sq, p,
                          Append(acc, IF p # NoUid /\ p \in DOMAIN st /\ st[p] = Sessions[s].user THEN <<"got", p>> ELSE <<"denied", 0>>))
         ELSE SerialItems(s, i + 1, st, sq, p, Append(acc, <<"ops-of", Sessions[s].ver>>))

RECURSIVE SerialRun(_, _, _, _, _)
\* order: a sequence of sessions; returns [store, res : session -> results]
SerialRun(order, i, st, sq, acc) ==
    IF i > Len(order) THEN [store |-> st, res |-> acc]
    ELSE LET r == SerialItems(order[i], 1, st, sq, NoUid, <<>>) IN
         SerialRun(order, i + 1, r.store, r.seq, [acc EXCEPT ![order[i]] = r.res])

Orders == {o \in [1..Cardinality(S) -> S] : \A i, j \in 1..Cardinality(S) : i # j => o[i] # o[j]}

AllDone == \A s \in S : pc[s] = "done"
Linearizable ==
    AllDone => \E o \in Orders :
                 LET r == SerialRun(o, 1, <<>>, 0, [s \in S |-> <<>>]) IN r.store = store /\ r.res = res
OwnIdentity == \A e \in evals : e.user = Sessions[e.session].user /\ e.ver = Sessions[e.session].ver
MutualExclusion == LOCKED /\ ~FASTPATH /\ ~UNLOCK_IN_CREATE /\ ~TIMEOUT
                   => Cardinality({s \in S : pc[s] \in {"setver", "setuser", "item", "store"}}) <= 1
=============================================================================
