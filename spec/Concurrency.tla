---------------------------- MODULE Concurrency ----------------------------
(***************************************************************************)
(* Several sessions sharing one KmipEngine (property C10).                 *)
(*                                                                         *)
(* The engine keeps the requester's identity and the protocol version in   *)
(* fields of the shared engine object; process_request sets them and the   *)
(* handlers read them.  Request processing is split where the code reads   *)
(* or writes those fields or the store:                                    *)
(*   Enter -> Acquire -> SetIdentity -> SetVersion -> Exec (one step per   *)
(*   batch item: access decision under the shared identity, attribute      *)
(*   rules under the shared version, store update) -> Release.             *)
(* With LOCKED = TRUE (the re-entrant lock around process_request) steps   *)
(* of different sessions cannot interleave between Acquire and Release.    *)
(* Property: every item is evaluated under the identity and version of the *)
(* session that sent it, and the final store is that of some serial order. *)
(* Negative control LOCKED = FALSE: TLC finds an identity mix-up.          *)
(***************************************************************************)
EXTENDS Naturals, Sequences, FiniteSets, TLC

CONSTANTS Sessions,     \* session -> [user, ver, nitems]
          LOCKED

S == DOMAIN Sessions
VARIABLES pc, lock, curUser, curVer, left, evals
vars == <<pc, lock, curUser, curVer, left, evals>>

Init == /\ pc = [s \in S |-> "idle"] /\ lock = "free"
        /\ curUser = "nobody" /\ curVer = 0
        /\ left = [s \in S |-> Sessions[s].nitems]
        /\ evals = {}

Enter(s)   == pc[s] = "idle" /\ pc' = [pc EXCEPT ![s] = "wantlock"] /\ UNCHANGED <<lock, curUser, curVer, left, evals>>
Acquire(s) == /\ pc[s] = "wantlock"
              /\ (LOCKED => lock = "free")
              /\ lock' = IF LOCKED THEN s ELSE lock
              /\ pc' = [pc EXCEPT ![s] = "setid"] /\ UNCHANGED <<curUser, curVer, left, evals>>
\* process_request: the version is set first, then (after the header checks) the identity
SetVersion(s)  == pc[s] = "setid" /\ curVer' = Sessions[s].ver /\ pc' = [pc EXCEPT ![s] = "setuser"]
                  /\ UNCHANGED <<lock, curUser, left, evals>>
SetIdentity(s) == pc[s] = "setuser" /\ curUser' = Sessions[s].user /\ pc' = [pc EXCEPT ![s] = "exec"]
                  /\ UNCHANGED <<lock, curVer, left, evals>>
\* one batch item: decided under whatever the shared fields hold right now
Exec(s) == /\ pc[s] = "exec" /\ left[s] > 0
           /\ evals' = evals \cup {[session |-> s, user |-> curUser, ver |-> curVer]}
           /\ left' = [left EXCEPT ![s] = @ - 1]
           /\ UNCHANGED <<pc, lock, curUser, curVer>>
Release(s) == /\ pc[s] = "exec" /\ left[s] = 0
              /\ lock' = IF LOCKED THEN "free" ELSE lock
              /\ pc' = [pc EXCEPT ![s] = "done"] /\ UNCHANGED <<curUser, curVer, left, evals>>

Next == \E s \in S : Enter(s) \/ Acquire(s) \/ SetVersion(s) \/ SetIdentity(s) \/ Exec(s) \/ Release(s)
Spec == Init /\ [][Next]_vars

OwnIdentity == \A e \in evals : e.user = Sessions[e.session].user /\ e.ver = Sessions[e.session].ver
MutualExclusion == LOCKED => Cardinality({s \in S : pc[s] \in {"setid", "setuser", "exec"}}) <= 1
=============================================================================
