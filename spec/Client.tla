------------------------------- MODULE Client -------------------------------
(***************************************************************************)
(* The client library (ProxyKmipClient over KMIPProxy / KMIPProtocol) as a *)
(* decision table (property C19).                                          *)
(*                                                                         *)
(* A row is [op, resp, chunk]:                                             *)
(*   op    : a client operation                                            *)
(*   resp  : what the server answers - "success" (with the payload the     *)
(*           operation defines), "failed" (Operation Failed with a reason  *)
(*           and message), "failed_noop" (the same without the Operation   *)
(*           field, as servers answer request-level errors),               *)
(*           "failed_nomsg" (a failure without Result Message), "undone"   *)
(*           (Operation Undone with reason and                             *)
(*           message), "nobatch" (no batch item), "wrongop" (a successful  *)
(*           item of another operation), "garbage" (a frame whose body is  *)
(*           not TTLV), "empty" (zero bytes)                               *)
(*   chunk : how the transport delivers it - "whole", "split_header",      *)
(*           "bytewise", or the stream ends "eof_in_header" / "eof_in_body"*)
(* Outcome: "returns" exactly the data carried by the response,            *)
(*          "op_failure" = raises the operation-failure error carrying     *)
(*          exactly status, reason and message, "raises" = raises anything *)
(*          and returns nothing.                                           *)
(***************************************************************************)
EXTENDS Naturals, Sequences, FiniteSets, TLC, Json

Ops == {"create", "create_key_pair", "register", "derive_key", "locate", "get", "get_attributes", "get_attribute_list",
        "activate", "revoke", "destroy", "encrypt", "decrypt", "sign", "signature_verify", "mac",
        "delete_attribute", "set_attribute", "modify_attribute", "check", "rekey",
        "get_wrapped",        \* Get of a key that comes back wrapped: every sub-field of the key wrapping data is data of the response
        "get_wrapped_nocp",   \* ... whose key information names the keys only (the cryptographic parameters are optional there)
        "encrypt_gcm",        \* Encrypt in an authenticated mode: the authentication tag is data of the response
        "discover_versions", "query"}      \* KMIPProxy-level operations: the result object carries status / reason / message
\* "failed_nomsg": Operation Failed with a reason and NO Result Message (the message is optional in the protocol)
\* "short_struct": a success response whose last items are missing while the inner structures still announce their full
\* length (the frame length is consistent with what is sent): it cannot be decoded, whatever a lenient reader makes of it
Resps == {"success", "failed", "failed_noop", "failed_nomsg", "undone", "nobatch", "wrongop", "garbage", "empty", "short_struct"}
Chunks == {"whole", "split_header", "bytewise", "eof_in_header", "eof_in_body"}
Reasons == {"ITEM_NOT_FOUND", "PERMISSION_DENIED", "GENERAL_FAILURE", "CRYPTOGRAPHIC_FAILURE", "INVALID_FIELD"}

Intact(chunk) == chunk \in {"whole", "split_header", "bytewise"}

Outcome(row) ==
    IF ~Intact(row.chunk) THEN "raises"
    ELSE CASE row.resp = "success" -> "returns"
           [] row.resp \in {"failed", "failed_noop", "failed_nomsg", "undone"} -> "op_failure"
           [] OTHER -> "raises"

\* o = observed [kind, dataok, status, reason, message]; want = the response's status / reason / message
C19(row, o) ==
    CASE Outcome(row) = "returns" -> o.kind = "returned" /\ o.dataok
      [] Outcome(row) = "op_failure" -> o.kind = "op_failure" /\ o.status = row.status /\ o.reason = row.reason /\ o.message = row.message
      [] OTHER -> o.kind \in {"op_failure", "raised"}       \* anything but a return value

Rows == [op : Ops, resp : Resps, chunk : Chunks, reason : Reasons]
VARIABLE row
Init == row \in {r \in Rows : r.resp \in {"failed", "failed_noop", "failed_nomsg", "undone"} \/ r.reason = "ITEM_NOT_FOUND"}
Next == UNCHANGED row
Spec == Init /\ [][Next]_row
Emit == PrintT("@ROW@" \o ToJson([row |-> row, outcome |-> Outcome(row)]))
=============================================================================
