---------------------------- MODULE TraceEngine ----------------------------
(***************************************************************************)
(* Trace validation of recorded executions of the real KmipEngine.         *)
(*                                                                         *)
(* The trace file (JSON, env TRACE_FILE) is a sequence of traces           *)
(*   [tid, pols, steps]; a step is                                         *)
(*   [pre, post, mids, req, res, issued, gf]                               *)
(* with pre/post/mids full projections of the SQLite store (mids[k] = the  *)
(* committed store after the k-th executed batch item), req/res the        *)
(* abstract request / response, issued the identifiers ever seen on this   *)
(* database before the step, gf whether the internal-error log record was  *)
(* seen.  One TLC state per (trace, step); verdicts are TOTAL: every step  *)
(* of every trace is evaluated, each failing clause is printed as          *)
(*   "@V@{tid, i, k, clauses}"   property predicate failed (KmipProps)     *)
(*   "@D@{tid, i, what}"         observed step is not a step of KmipEngine *)
(* and nothing stops at the first mismatch.                                *)
(***************************************************************************)
EXTENDS KmipProps, Json, IOUtils

TraceFile == JsonDeserialize(IOEnv.TRACE_FILE)
Traces == TraceFile.traces
\* policy sets are stored once and referenced by index (tr.ps)
PolSets == TraceFile.polsets

VARIABLES t, l
vars == <<t, l>>

--------------------------------------------------------------------------
(* JSON -> spec values *)

ObjOf(o) == [type |-> o.type, owner |-> o.owner, policy |-> o.policy, state |-> o.state,
             mask |-> Range(o.mask), names |-> o.names, groups |-> o.groups, appinfo |-> o.appinfo,
             sensitive |-> o.sensitive, idate |-> o.idate, alg |-> o.alg, len |-> o.len, fmt |-> o.fmt,
             val |-> o.val, sub |-> o.sub]

ObjsOf(list) == LET us == {list[i].uid : i \in DOMAIN list} IN
                [u \in us |-> ObjOf(list[CHOOSE i \in DOMAIN list : list[i].uid = u])]

PolOf(p) == [name |-> p.name, hasPreset |-> p.hasPreset, preset |-> Range(p.preset),
             hasGroups |-> p.hasGroups, groups |-> Range(p.groups)]
PolsOf(list) == {PolOf(list[i]) : i \in DOMAIN list}

PolSetValue == [i \in DOMAIN PolSets |-> PolsOf(PolSets[i])]

StOf(s, ph, pols) == [objs |-> ObjsOf(s.objs), seq |-> s.seq, ph |-> ph, pols |-> pols]

ReqOf(q) == [user |-> q.user, hasg |-> q.hasg, groups |-> Range(q.groups), ver |-> q.ver, opt |-> q.opt,
             ts |-> q.ts, async |-> q.async, now |-> q.now, items |-> q.items]

CreatingOps == {"Create", "CreateKeyPair", "Register", "DeriveKey"}

\* the placeholder the property prescribes before item k: the object most recently
\* created earlier in this batch (C08c / C11), independent of the engine's private field
RECURSIVE PhBefore(_, _, _)
PhBefore(req, res, k) ==
    IF k <= 1 THEN NoUid
    ELSE LET j == k - 1 IN
         IF j <= Len(res.items) /\ req.items[j].op \in CreatingOps /\ res.items[j].status = "Success"
            /\ Len(res.items[j].uids) > 0
         THEN res.items[j].uids[1]
         ELSE PhBefore(req, res, j)

--------------------------------------------------------------------------
(* request-level clauses *)

FirstFailure(res) == IF \E k \in DOMAIN res.items : res.items[k].status # "Success"
                     THEN CHOOSE k \in DOMAIN res.items :
                            res.items[k].status # "Success" /\ \A j \in 1..(k-1) : res.items[j].status = "Success"
                     ELSE 0

ReqFailed(s, req, res, pre, post) ==
    LET f == FirstFailure(res) IN
    (IF res.kind = "resp"
     THEN (IF res.count = Len(res.items) /\ Len(res.items) <= Len(req.items) THEN {} ELSE {"C08_shape"})
          \cup (IF \A k \in DOMAIN res.items : k <= Len(req.items) =>
                      res.items[k].op = req.items[k].op /\ res.items[k].bid = req.items[k].bid
                THEN {} ELSE {"C08_echo"})
          \cup (IF (IF req.opt = "Continue" \/ f = 0 THEN Len(res.items) = Len(req.items) ELSE Len(res.items) = f)
                THEN {} ELSE {"C08_stop"})
          \cup (IF s.executed = Len(res.items) THEN {} ELSE {"C08_told"})
          \cup (IF res.ver = req.ver THEN {} ELSE {"C16_echo"})
          \cup (IF \A k \in DOMAIN res.items :
                      res.items[k].status # "" /\
                      (res.items[k].status = "Success" <=> (res.items[k].reason = "" /\ ~res.items[k].hasmsg)) /\
                      (res.items[k].status # "Success" => res.items[k].reason # "" /\ res.items[k].hasmsg)
                THEN {} ELSE {"C02_envelope"})
     ELSE \* a request-level error: nothing may have taken effect
          (IF post.objs = pre.objs /\ post.seq = pre.seq THEN {} ELSE {"C08_told"})
          \cup (IF res.kind = "raised" /\ res.exc = "KmipError" THEN {} ELSE {"C13_raise"})
          \* a request refused as a whole is still answered in the request's version (res.ver is the version the answer
          \* states when the request travelled over a session; the engine itself hands the request's version back)
          \cup (IF res.kind = "raised" /\ req.ver \in SupportedVersions /\ res.ver # req.ver THEN {"C16_echo"} ELSE {}))
    \* the response could not be encoded under the request's version and decoded again
    \cup (IF res.unenc THEN {"C13_unencodable"} ELSE {})
    \* the library's own decoder cannot read the response the server produced (client side)
    \cup (IF res.undec THEN {"C19_undecodable"} ELSE {})
    \cup (IF req.opt = "Undo" => (post.objs = pre.objs /\ (res.kind # "resp" \/ f # 0)) THEN {} ELSE {"C08_undo"})
    \cup (IF req.ver \notin SupportedVersions =>
                (post.objs = pre.objs /\ (res.kind # "resp" \/ \A k \in DOMAIN res.items : res.items[k].status # "Success"))
          THEN {} ELSE {"C16_refuse"})
    \* the internal-error log record without any item reporting General Failure
    \* (an item that does is reported by C13_item)
    \cup (IF s.gf /\ ~\E k \in DOMAIN res.items : res.items[k].reason = "GeneralFailure" THEN {"C13_log"} ELSE {})

--------------------------------------------------------------------------
(* model conformance *)

ObjEq(mo, oo) == IF mo.val = "gen" THEN [mo EXCEPT !.val = oo.val] = oo ELSE mo = oo
ObjsEq(m, o) == DOMAIN m = DOMAIN o /\ \A u \in DOMAIN m : ObjEq(m[u], o[u])

AttrEq(x, y) == x.name = y.name /\ x.idx = y.idx /\
                (IF x.name = "Cryptographic Usage Mask" THEN x.v = Range(y.v) ELSE x.v = y.v)
AttrsEq(m, o) == Len(m) = Len(o) /\ \A i \in DOMAIN m : AttrEq(m[i], o[i])

ItemDrift(op, m, o) ==
    IF m.status = "Unmodelled" THEN {}
    ELSE IF m.any THEN (IF o.status = "Success" /\ o.uids # m.uids THEN {"uids"} ELSE {})
    ELSE (IF m.status = o.status THEN {} ELSE {"status"})
         \cup (IF m.reason = o.reason THEN {} ELSE {"reason"})
         \cup (IF m.status = "Success" /\ o.status = "Success" /\ op # "Locate" /\ m.uids # o.uids THEN {"uids"} ELSE {})
         \cup (IF m.status = "Success" /\ o.status = "Success" /\ op = "Locate" /\ m.uids # o.uids THEN {"locate"} ELSE {})
         \cup (IF m.status = "Success" /\ o.status = "Success" /\ op \in {"GetAttributes", "ModifyAttribute", "DeleteAttribute"}
                  /\ ~AttrsEq(m.attrs, o.attrs) THEN {"attrs"} ELSE {})
         \cup (IF m.status = "Success" /\ o.status = "Success" /\ op \in {"GetAttributeList", "Query"} /\ m.names # o.names
               THEN {"names"} ELSE {})
         \cup (IF m.status = "Success" /\ o.status = "Success" /\ op = "DiscoverVersions" /\ m.attrs # o.versions
               THEN {"versions"} ELSE {})
         \cup (IF m.status # "Success" /\ m.mc = "NotFound" /\ o.mc # "NotFound" THEN {"mc"} ELSE {})

ReqDrift(pre, req, res, post) ==
    LET m == RunRequest(pre, req)
        unmodelled == \E k \in DOMAIN m.items : m.items[k].status = "Unmodelled"
        \* the backend refused where the model leaves the outcome to the backend (bad padding, unusable key ...): the batch
        \* stopped there in reality and went on in the model - nothing to compare beyond that item
        backendStop == /\ m.kind = "resp" /\ res.kind = "resp" /\ Len(res.items) >= 1 /\ Len(res.items) <= Len(m.items)
                       /\ m.items[Len(res.items)].any /\ res.items[Len(res.items)].status # "Success" IN
    IF unmodelled \/ backendStop THEN {}
    ELSE (IF m.kind = res.kind THEN {} ELSE {"kind"})
         \cup (IF m.kind = "raised" /\ res.kind = "raised" /\ (m.reason # res.reason \/ m.mc # res.mc) THEN {"raise"} ELSE {})
         \cup (IF m.kind = "resp" /\ res.kind = "resp"
               THEN (IF Len(m.items) = Len(res.items)
                     THEN UNION {ItemDrift(req.items[k].op, m.items[k], res.items[k]) : k \in DOMAIN m.items}
                     ELSE {"nitems"})
               ELSE {})
         \cup (IF ObjsEq(m.st.objs, post.objs) /\ m.st.seq = post.seq THEN {} ELSE {"store"})

--------------------------------------------------------------------------

Step(tr, i) ==
    LET s == tr.steps[i]
        pols == PolSetValue[tr.ps]
        req == ReqOf(s.req)
        res == s.res
        pre == StOf(s.pre, NoUid, pols)
        post == StOf(s.post, NoUid, pols)
        n == Len(res.items)
        \* an identifier-less item that succeeds although the batch created nothing before it
        \* violates C11/C08c (reported once as C11_placeholder); the remaining clauses are then
        \* evaluated against the object it actually addressed, so the defect is not reported
        \* again under every other property
        stale(k) == /\ PhBefore(req, res, k) = NoUid
                    /\ Addresses(req.items[k]) /\ req.items[k].p.uid = NoUid
                    /\ res.items[k].status = "Success" /\ Len(res.items[k].uids) > 0
        ph(k) == IF stale(k) THEN res.items[k].uids[1] ELSE PhBefore(req, res, k)
        before(k) == IF k = 1 THEN StOf(s.pre, ph(k), pols)
                     ELSE StOf(s.mids[k - 1], ph(k), pols)
        after(k) == StOf(s.mids[k], NoUid, pols)
        seen(k) == Range(s.issued) \cup UNION {DOMAIN before(j).objs : j \in 1..k}
        ghost(k) == [issued |-> seen(k) , dead |-> seen(k) \ DOMAIN before(k).objs]
        \* DiscoverVersions: only versions the server accepts, newest first, all of them for an empty request
        discover(k) == IF req.items[k].op = "DiscoverVersions" /\ res.items[k].status = "Success"
                       THEN LET vs == res.items[k].versions  asked == req.items[k].p.versions IN
                            IF /\ Range(vs) \subseteq SupportedVersions
                               /\ \A x, y \in DOMAIN vs : x < y => vs[x] > vs[y]
                               /\ (Len(asked) = 0 => Range(vs) = SupportedVersions)
                               /\ (Len(asked) > 0 => Range(vs) = Range(asked) \cap SupportedVersions)
                            THEN {} ELSE {"C16_discover"}
                       ELSE {}
        itemFails == IF res.kind = "resp" /\ Len(s.mids) = n
                     THEN [k \in 1..n |-> FailedClauses(before(k), req, req.items[k], res.items[k], after(k), ghost(k))
                             \cup discover(k)
                             \cup (IF Addresses(req.items[k]) /\ req.items[k].p.uid = NoUid
                                      /\ PhBefore(req, res, k) = NoUid
                                      /\ res.items[k].status = "Success" THEN {"C11_placeholder"} ELSE {})
                             \* C08(c): an identifier-less item addresses the object most recently created earlier in this
                             \* batch - whatever happened to the items in between.  While that object exists the item may
                             \* not be answered "not found", and a successful answer is about that object.
                             \cup (IF Addresses(req.items[k]) /\ req.items[k].p.uid = NoUid
                                      /\ PhBefore(req, res, k) # NoUid /\ PhBefore(req, res, k) \in DOMAIN before(k).objs
                                      /\ \/ (res.items[k].status # "Success" /\ res.items[k].reason = "ItemNotFound" /\ res.items[k].mc = "NotFound")   \* "could not locate object" (a denial has another reason)
                                         \/ (res.items[k].status = "Success" /\ Len(res.items[k].uids) > 0
                                             /\ req.items[k].op \notin CreatingOps \cup {"Locate"}
                                             /\ res.items[k].uids[1] # PhBefore(req, res, k))
                                   THEN {"C08_placeholder"} ELSE {})
                             \* C08(d): an item that follows a failed item of the same batch is answered as the specification
                             \* answers it from the store as it stands at that point - the failure left nothing behind in the
                             \* unit of work that would make a later item fail (or succeed) where it would not have on its own
                             \cup (IF k > 1 /\ (\E j \in 1..(k - 1) : res.items[j].status # "Success")
                                      /\ LET mk == RunItem(before(k), req, req.items[k]) IN
                                           /\ mk.status # "Unmodelled" /\ ~mk.any
                                           /\ (mk.status = "Success") # (res.items[k].status = "Success")
                                   THEN {"C08_disturbed"} ELSE {})]
                     ELSE <<>>
        reqFails == ReqFailed(s, req, res, pre, post)
        drift == ReqDrift(pre, req, res, post)
    IN /\ \A k \in DOMAIN itemFails :
            itemFails[k] # {} => PrintT("@V@" \o ToJson([tid |-> tr.tid, i |-> i, k |-> k, clauses |-> itemFails[k]]))
       /\ reqFails # {} => PrintT("@V@" \o ToJson([tid |-> tr.tid, i |-> i, k |-> 0, clauses |-> reqFails]))
       /\ drift # {} => PrintT("@D@" \o ToJson([tid |-> tr.tid, i |-> i, what |-> drift,
                                               model |-> LET m == RunRequest(pre, req) IN
                                                         [k \in DOMAIN m.items |-> <<m.items[k].status, m.items[k].reason>>]]))

RestartStep(tr, i) ==
    \* a restart must leave the store as it was (C05/C07/C09 restart halves)
    LET s == tr.steps[i] pols == PolSetValue[tr.ps] IN
    StOf(s.pre, NoUid, pols) # StOf(s.post, NoUid, pols)
       => PrintT("@V@" \o ToJson([tid |-> tr.tid, i |-> i, k |-> 0, clauses |-> {"C09_restart"}]))

Init == t \in 1..Len(Traces) /\ l = 1

Next == /\ l <= Len(Traces[t].steps)
        /\ (l > 1 /\ Traces[t].steps[l].pre # Traces[t].steps[l - 1].post)
              => PrintT("@D@" \o ToJson([tid |-> Traces[t].tid, i |-> l, what |-> {"continuity"}]))
        /\ IF Traces[t].steps[l].kind = "restart" THEN RestartStep(Traces[t], l) ELSE Step(Traces[t], l)
        /\ l' = l + 1
        /\ t' = t

Spec == Init /\ [][Next]_vars
=============================================================================
