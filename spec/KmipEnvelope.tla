---------------------------- MODULE KmipEnvelope ----------------------------
(* The message envelope of KMIP responses (KMIP 1.x/2.0 section "Message
   Format"), over TTLV trees.  Tag numbers are written from the KMIP tag table,
   not taken from kmip.core.enums.

   ResponseMessage(42007B) = ResponseHeader(42007A) BatchItem(42000F)*
   ResponseHeader = ProtocolVersion(420069){Major(42006A) Minor(42006B)}
                    TimeStamp(420092) [Nonce, AttestationType, Server/Client
                    Correlation Value, ServerHashedPassword] BatchCount(42000D)
   BatchItem = [Operation(42005C)] [UniqueBatchItemID(420093)] ResultStatus(42007F)
               [ResultReason(42007E)] [ResultMessage(42007D)]
               [AsynchronousCorrelationValue(420006)] [ResponsePayload(42007C)]
               [MessageExtension(420051)]                                      *)
EXTENDS TTLV

TagResponseMessage == 4325499   \* 42007B
TagResponseHeader  == 4325498   \* 42007A
TagProtocolVersion == 4325481   \* 420069
TagMajor           == 4325482   \* 42006A
TagMinor           == 4325483   \* 42006B
TagTimeStamp       == 4325522   \* 420092
TagBatchCount      == 4325389   \* 42000D
TagBatchItem       == 4325391   \* 42000F
TagOperation       == 4325468   \* 42005C
TagBatchItemId     == 4325523   \* 420093
TagResultStatus    == 4325503   \* 42007F
TagResultReason    == 4325502   \* 42007E
TagResultMessage   == 4325501   \* 42007D
TagResponsePayload == 4325500   \* 42007C

\* the clauses of the envelope that fail for a response tree (empty set = conformant)
EnvelopeFails(t) ==
    IF t.tag # TagResponseMessage \/ t.typ # TStructure THEN {"not a ResponseMessage"}
    ELSE IF Len(Kids(t)) = 0 \/ Kids(t)[1].tag # TagResponseHeader \/ Kids(t)[1].typ # TStructure THEN {"no ResponseHeader first"}
    ELSE LET h == Kids(t)[1]
             items == SelectSeq(Tail(Kids(t)), LAMBDA k : k.tag = TagBatchItem)
             others == SelectSeq(Tail(Kids(t)), LAMBDA k : k.tag # TagBatchItem) IN
    (IF Len(others) = 0 THEN {} ELSE {"foreign item in ResponseMessage"})
    \cup (IF HasKid(h, TagProtocolVersion) /\ Kids(h)[1].tag = TagProtocolVersion
             /\ HasKid(Kid(h, TagProtocolVersion), TagMajor) /\ HasKid(Kid(h, TagProtocolVersion), TagMinor)
             /\ Kid(Kid(h, TagProtocolVersion), TagMajor).typ = TInteger
             /\ Kid(Kid(h, TagProtocolVersion), TagMinor).typ = TInteger
          THEN {} ELSE {"ProtocolVersion missing or malformed"})
    \cup (IF HasKid(h, TagTimeStamp) /\ Kid(h, TagTimeStamp).typ = TDateTime THEN {} ELSE {"TimeStamp missing"})
    \cup (IF HasKid(h, TagBatchCount) /\ Kid(h, TagBatchCount).typ = TInteger /\ Kids(h)[Len(Kids(h))].tag = TagBatchCount
          THEN (IF NatOf(Kid(h, TagBatchCount)) = Len(items) THEN {} ELSE {"BatchCount differs from the number of batch items"})
          ELSE {"BatchCount missing or not last"})
    \cup UNION {
          LET it == items[i] IN
          (IF it.typ = TStructure /\ Len(KidsWith(it, TagResultStatus)) = 1 /\ Kid(it, TagResultStatus).typ = TEnum
           THEN LET success == NatOf(Kid(it, TagResultStatus)) = 0 IN
                (IF success /\ (HasKid(it, TagResultReason) \/ HasKid(it, TagResultMessage))
                 THEN {"reason or message on a successful item"} ELSE {})
                \cup (IF ~success /\ ~(HasKid(it, TagResultReason) /\ HasKid(it, TagResultMessage))
                      THEN {"failed item without reason and message"} ELSE {})
           ELSE {"batch item without exactly one ResultStatus"})
          : i \in DOMAIN items}

\* The request envelope, as far as C12 needs an oracle that does not depend on the implementation's decoder:
\* RequestMessage(420078) = RequestHeader(420077){... BatchCount(42000D)} BatchItem(42000F)*, and the batch count is the
\* number of batch items.  A request that announces MORE items than it holds cannot be "fully decoded" by anybody.
\* (The library's decoder reads exactly BatchCount items and ignores what follows, so a request announcing FEWER items than
\* it holds is decoded as its announced prefix; that leniency is not covered by the property and is not alarmed.)
TagRequestMessage == 4325496   \* 420078
TagRequestHeader  == 4325495   \* 420077
RequestCountFails(t) ==
    IF t.tag # TagRequestMessage \/ t.typ # TStructure THEN {}
    ELSE IF Len(Kids(t)) = 0 \/ Kids(t)[1].tag # TagRequestHeader \/ Kids(t)[1].typ # TStructure THEN {}
    ELSE LET h == Kids(t)[1]
             items == SelectSeq(Tail(Kids(t)), LAMBDA k : k.tag = TagBatchItem) IN
         IF HasKid(h, TagBatchCount) /\ Kid(h, TagBatchCount).typ = TInteger
            \* (a negative count is read as "no items" by the library and answered with an empty batch: nothing is executed)
            /\ Kid(h, TagBatchCount).val[1] < 128 /\ NatOf(Kid(h, TagBatchCount)) # Len(items)
         THEN {"request BatchCount differs from the number of batch items"} ELSE {}

\* version carried by a response header, as major*10+minor (-1 if unreadable)
VersionOf(t) ==
    IF EnvelopeFails(t) \cap {"not a ResponseMessage", "no ResponseHeader first", "ProtocolVersion missing or malformed"} # {} THEN -1
    ELSE LET pv == Kid(Kids(t)[1], TagProtocolVersion) IN NatOf(Kid(pv, TagMajor)) * 10 + NatOf(Kid(pv, TagMinor))
=============================================================================
