----------------------------- MODULE KmipSchema -----------------------------
(***************************************************************************)
(* Schema of every encodable KMIP class and the prescribed tree of a value *)
(* (C01).  The class tables live in SchemaBase / SchemaObjects /           *)
(* SchemaPayloads1..3 / SchemaMessages; this module assembles them and     *)
(* defines                                                                 *)
(*    ObjTree(cls, tag, v, ver)   the TTLV tree of value v under version   *)
(*    WellTyped(cls, v, ver)      v is a value of class cls defined by ver *)
(***************************************************************************)
EXTENDS KmipSchemaCore, SchemaBase, SchemaObjects, SchemaPayloads1, SchemaPayloads2, SchemaPayloads3, SchemaPayloads4, SchemaMessages

Schema == SchemaBaseT @@ SchemaObjectsT @@ SchemaPayloads1T @@ SchemaPayloads2T @@ SchemaPayloads3T @@ SchemaPayloads4T @@ SchemaMessagesT
ClassTag == ClassTagBase @@ ClassTagObjects @@ ClassTagPayloads1 @@ ClassTagPayloads2 @@ ClassTagPayloads3 @@ ClassTagPayloads4 @@ ClassTagMessages
Classes == DOMAIN Schema

\* first / last version that defines the class itself
ClassSince == ClassSinceBase @@ ClassSinceObjects @@ ClassSincePayloads1 @@ ClassSincePayloads2 @@ ClassSincePayloads3 @@ ClassSincePayloads4 @@ ClassSinceMessages
DefinedIn(cls, ver) == IF cls \in DOMAIN ClassSince THEN ClassSince[cls][1] <= ver /\ ver <= ClassSince[cls][2] ELSE TRUE

Live(f, ver) == f.lo <= ver /\ ver <= f.hi
IsMulti(f) == f.c \in {"*", "+"}

\* the KMIP 2.0 structure that replaces a 1.x template attribute
Tmpl2Tag(t) == CASE t = "TEMPLATE_ATTRIBUTE" -> Tag["ATTRIBUTES"]
                 [] t = "COMMON_TEMPLATE_ATTRIBUTE" -> Tag["COMMON_ATTRIBUTES"]
                 [] t = "PRIVATE_KEY_TEMPLATE_ATTRIBUTE" -> Tag["PRIVATE_KEY_ATTRIBUTES"]
                 [] t = "PUBLIC_KEY_TEMPLATE_ATTRIBUTE" -> Tag["PUBLIC_KEY_ATTRIBUTES"]
                 [] OTHER -> Tag[t]

\* the rule of an attribute name: kind, class/enum, tag (custom attributes are text)
RuleOf(name) == IF name \in DOMAIN AttrRule THEN AttrRule[name]
                ELSE [k |-> "text", of |-> "", t |-> "CUSTOM_ATTRIBUTE", lo |-> 10, hi |-> 14]

RECURSIVE ObjTree(_, _, _, _), FieldTrees(_, _, _, _), ValTree(_, _, _, _)

\* one value of field f under tag `tag`
ValTree(f, tag, v, ver) ==
    CASE f.k = "struct" -> ObjTree(f.of, tag, v, ver)
      [] f.k = "attrs"  -> ObjTree("Attribute", tag, v, ver)        \* one element under 1.x (2.0: see FieldTrees)
      [] f.k = "union"  -> ObjTree(v["_k"], IF f.t = "" THEN Tag[ClassTag[v["_k"]]] ELSE tag, v, ver)
      [] f.k = "attrval" ->       \* 1.x Attribute Value: typed by the attribute's name, tag Attribute Value
            LET r == RuleOf(v["_name"]) IN ValTree([f EXCEPT !.k = r.k, !.of = r.of], tag, v.v, ver)
      [] f.k = "attr2" ->         \* 2.0 attribute: typed and tagged by the attribute's name
            LET r == RuleOf(v["_name"]) IN ValTree([f EXCEPT !.k = r.k, !.of = r.of], Tag[r.t], v.v, ver)
      [] f.k = "tmpl" ->
            IF ver < 20 THEN ObjTree("TemplateAttribute", tag, v, ver)
            ELSE [tag |-> Tmpl2Tag(f.t), typ |-> TStructure,
                  val |-> IF "attributes" \in DOMAIN v
                          THEN [j \in 1..Len(v.attributes) |->
                                  ValTree([f EXCEPT !.k = "attr2"], 0, v.attributes[j].attribute_value, ver)]
                          ELSE <<>>]
      [] OTHER -> PrimTree(tag, f.k, v)

FieldTrees(fs, i, v, ver) ==
    IF i > Len(fs) THEN <<>>
    ELSE LET f == fs[i]
             tag == IF f.t = "" THEN 0 ELSE Tag[f.t] IN
         (IF Live(f, ver) /\ f.n \in DOMAIN v
          THEN IF f.k = "attrs" /\ ver >= 20
               THEN \* KMIP 2.0: the repeated Attribute structures become one Attributes structure
                    << [tag |-> Tag["ATTRIBUTES"], typ |-> TStructure,
                        val |-> [j \in 1..Len(v[f.n]) |-> ValTree([f EXCEPT !.k = "attr2"], 0, v[f.n][j].attribute_value, ver)]] >>
               ELSE IF IsMulti(f) THEN [j \in 1..Len(v[f.n]) |-> ValTree(f, tag, v[f.n][j], ver)]
               ELSE <<ValTree(f, tag, v[f.n], ver)>>
          ELSE <<>>)
         \o FieldTrees(fs, i + 1, v, ver)

ObjTree(cls, tag, v, ver) == [tag |-> tag, typ |-> TStructure, val |-> FieldTrees(Schema[cls], 1, v, ver)]

\* the tree of a top-level value of class cls (primitive pseudo-classes: "prim:<kind>")
RootTree(cls, tag, v, ver) ==
    IF cls \in Classes THEN ObjTree(cls, tag, v, ver)
    ELSE PrimTree(tag, v["_kind"], v.v)

--------------------------------------------------------------------------
(* well-typedness: the reasons why v is not a value of cls defined under ver *)

RECURSIVE Ill(_, _, _), IllVal(_, _, _), Ill20Attr(_)
\* an Attribute value carried by a KMIP 2.0 Attributes structure: name, typed value, no index
Ill20Attr(a) ==
    IF ~({"attribute_name", "attribute_value"} \subseteq DOMAIN a) THEN {"attribute without name or value"}
    ELSE (IF "attribute_index" \in DOMAIN a THEN {"attribute indices are not defined under 2.0"} ELSE {})
         \cup IllVal(F("attribute_value", "", "attr2", "", "1", 20, 20), a.attribute_value, 20)
IllVal(f, v, ver) ==
    CASE f.k = "struct" -> Ill(f.of, v, ver)
      [] f.k = "attrs"  -> IF ver < 20 THEN Ill("Attribute", v, ver) ELSE Ill20Attr(v)
      [] f.k = "union"  -> IF "_k" \in DOMAIN v /\ v["_k"] \in Classes THEN Ill(v["_k"], v, ver) ELSE {"union value without class: " \o f.n}
      [] f.k \in {"attrval", "attr2"} ->
            IF ~({"_name", "v"} \subseteq DOMAIN v) THEN {"attribute value without name: " \o f.n}
            ELSE LET r == RuleOf(v["_name"]) IN
                 IF ~(r.lo <= ver /\ ver <= r.hi) THEN {"attribute not defined under this version: " \o v["_name"]}
                 ELSE IllVal([f EXCEPT !.k = r.k, !.of = r.of], v.v, ver)
      [] f.k = "tmpl" ->
            IF ver < 20 THEN Ill("TemplateAttribute", v, ver)
            ELSE (IF DOMAIN v \subseteq {"_k", "attributes"} THEN {} ELSE {"template names are not defined under 2.0"})
                 \cup (IF "attributes" \in DOMAIN v THEN UNION {Ill20Attr(v.attributes[j]) : j \in DOMAIN v.attributes} ELSE {})
      [] OTHER -> IF PrimOK(f.k, v) THEN {} ELSE {"not a value of kind " \o f.k \o ": " \o f.n}

Ill(cls, v, ver) ==
    IF cls \notin Classes THEN {"unknown class " \o cls}
    ELSE IF ~DefinedIn(cls, ver) THEN {"class not defined under this version: " \o cls}
    ELSE LET fs == Schema[cls]
             live == {i \in DOMAIN fs : Live(fs[i], ver)}
             names == {fs[i].n : i \in live} IN
         {"field not defined for this class and version: " \o cls \o "." \o x : x \in (DOMAIN v \ {"_k"}) \ names}
         \cup {"required field absent: " \o cls \o "." \o fs[i].n : i \in {j \in live : fs[j].c \in {"1", "+"} /\ fs[j].n \notin DOMAIN v}}
         \cup UNION {LET f == fs[i] IN
                     IF f.n \notin DOMAIN v THEN {}
                     ELSE IF IsMulti(f)
                          THEN (IF f.c = "+" /\ Len(v[f.n]) = 0 THEN {"empty list for a + field: " \o f.n} ELSE {})
                               \cup UNION {IllVal(f, v[f.n][j], ver) : j \in DOMAIN v[f.n]}
                          ELSE IllVal(f, v[f.n], ver)
                     : i \in live}

IllRoot(cls, v, ver) ==
    IF cls \in Classes THEN Ill(cls, v, ver)
    ELSE IF "_kind" \in DOMAIN v /\ v["_kind"] \in PrimKinds /\ PrimOK(v["_kind"], v.v) THEN {} ELSE {"not a primitive value"}
=============================================================================
