------------------------------ MODULE TraceLin ------------------------------
(* Linearizability of recorded concurrent histories of the real engine against
   the sequential specification (KmipEngine.RunRequest).

   A history is a set of calls [thread, inv, ret, req, res] (inv / ret: logical
   times of invocation and return) plus the initial and final stores.  Serve(i)
   picks any call not yet served whose real-time predecessors (calls that
   returned before it was invoked; in particular the earlier calls of its own
   thread) are all served, runs the sequential step function on the current
   store and requires the recorded response.  A history is EXPLAINED iff some
   order serves every call and ends in the recorded final store.  Each request
   is evaluated under its own session's identity and version by construction
   of the sequential step.  Output "@OK@{hid}" for every explained history. *)
EXTENDS TraceEngine

Hists == TraceFile.hists

VARIABLES h, served, cst
lvars == <<h, served, cst, t, l>>

HPols(hh) == PolSetValue[hh.ps]

LInit == /\ t = 0 /\ l = 0     \* (variables of the extended module, unused here)
         /\ h \in 1..Len(Hists)
         /\ served = {}
         /\ cst = StOf(Hists[h].init, NoUid, HPols(Hists[h]))

Calls(hh) == DOMAIN hh.calls
Before(hh, i, j) == hh.calls[i].ret < hh.calls[j].inv            \* i returned before j was invoked

\* does the modelled step explain the recorded response?
Explains(m, req, res) ==
    /\ m.kind = res.kind
    /\ (m.kind = "raised" => m.reason = res.reason)
    /\ (m.kind = "resp" =>
          /\ Len(m.items) = Len(res.items)
          /\ \A k \in DOMAIN m.items : m.items[k].status = "Unmodelled" \/ ItemDrift(req.items[k].op, m.items[k], res.items[k]) = {})

Serve(i) ==
    LET hh == Hists[h]
        c == hh.calls[i]
        req == ReqOf(c.req)
        m == RunRequest(cst, req) IN
    /\ i \notin served
    /\ \A j \in Calls(hh) : Before(hh, j, i) => j \in served
    /\ Explains(m, req, c.res)
    /\ served' = served \cup {i}
    /\ cst' = m.st
    /\ UNCHANGED <<h, t, l>>

Done ==
    LET hh == Hists[h] IN
    /\ served = Calls(hh)
    /\ ObjsEq(cst.objs, ObjsOf(hh.final.objs)) /\ cst.seq = hh.final.seq

LNext == \E i \in Calls(Hists[h]) : Serve(i)
LSpec == LInit /\ [][LNext]_lvars

\* a history is explained when a Done state is reachable; reported once per witness state
Report == Done => PrintT("@OK@" \o ToJson([hid |-> Hists[h].hid]))
=============================================================================
