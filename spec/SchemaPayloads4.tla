--------------------------- MODULE SchemaPayloads4 ---------------------------
EXTENDS KmipSchemaCore
SchemaPayloads4T == [ x \in {} |-> <<>> ]
ClassTagPayloads4 == [ x \in {} |-> "" ]
ClassSincePayloads4 == [ x \in {} |-> <<10, 20>> ]
=============================================================================
