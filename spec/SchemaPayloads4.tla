--------------------------- MODULE SchemaPayloads4 ---------------------------
(* Operation payloads, part 4: object creation and registration             *)
(* (KMIP 1.x sections 4.1 Create, 4.2 Create Key Pair, 4.3 Register;        *)
(* KMIP 2.0 sections 6.1.8, 6.1.9, 6.1.42).                                 *)
(* Under 2.0 the Template-Attribute structures of the requests become       *)
(* Attributes structures (kind tmpl) and the responses no longer carry any. *)
EXTENDS KmipSchemaCore

Tmpl4(n, t, c) == F(n, t, "tmpl", "", c, 10, 20)

SchemaPayloads4T == [
  CreateRequestPayload |-> <<
      ReqE("object_type", "OBJECT_TYPE", "ObjectType"),
      Tmpl4("template_attribute", "TEMPLATE_ATTRIBUTE", "1"),
      Since(OptS("protection_storage_masks", "PROTECTION_STORAGE_MASKS", "ProtectionStorageMasks"), 20) >>,
  \* 2.0: Object Type, Unique Identifier only
  CreateResponsePayload |-> <<
      ReqE("object_type", "OBJECT_TYPE", "ObjectType"),
      Req("unique_identifier", "UNIQUE_IDENTIFIER", "text"),
      Until(Tmpl4("template_attribute", "TEMPLATE_ATTRIBUTE", "?"), 14) >>,
  CreateKeyPairRequestPayload |-> <<
      Tmpl4("common_template_attribute", "COMMON_TEMPLATE_ATTRIBUTE", "?"),
      Tmpl4("private_key_template_attribute", "PRIVATE_KEY_TEMPLATE_ATTRIBUTE", "?"),
      Tmpl4("public_key_template_attribute", "PUBLIC_KEY_TEMPLATE_ATTRIBUTE", "?"),
      Since(OptS("common_protection_storage_masks", "COMMON_PROTECTION_STORAGE_MASKS", "ProtectionStorageMasks"), 20),
      Since(OptS("private_protection_storage_masks", "PRIVATE_PROTECTION_STORAGE_MASKS", "ProtectionStorageMasks"), 20),
      Since(OptS("public_protection_storage_masks", "PUBLIC_PROTECTION_STORAGE_MASKS", "ProtectionStorageMasks"), 20) >>,
  \* 2.0: the two identifiers only
  CreateKeyPairResponsePayload |-> <<
      Req("private_key_unique_identifier", "PRIVATE_KEY_UNIQUE_IDENTIFIER", "text"),
      Req("public_key_unique_identifier", "PUBLIC_KEY_UNIQUE_IDENTIFIER", "text"),
      Until(Tmpl4("private_key_template_attribute", "PRIVATE_KEY_TEMPLATE_ATTRIBUTE", "?"), 14),
      Until(Tmpl4("public_key_template_attribute", "PUBLIC_KEY_TEMPLATE_ATTRIBUTE", "?"), 14) >>,
  \* managed_object: exactly one of Certificate, Symmetric Key, Private Key, Public Key, Split Key, Template (1.x),
  \* Secret Data, Opaque Object, under the class's own tag.  The specification also allows PGP Key (since 1.2) and
  \* Certificate Request (2.0); the implementation has no class for either (left out).
  RegisterRequestPayload |-> <<
      ReqE("object_type", "OBJECT_TYPE", "ObjectType"),
      Tmpl4("template_attribute", "TEMPLATE_ATTRIBUTE", "1"),
      F("managed_object", "", "union", "", "1", 10, 20),
      Since(OptS("protection_storage_masks", "PROTECTION_STORAGE_MASKS", "ProtectionStorageMasks"), 20) >>,
  \* 2.0: Unique Identifier only
  RegisterResponsePayload |-> <<
      Req("unique_identifier", "UNIQUE_IDENTIFIER", "text"),
      Until(Tmpl4("template_attribute", "TEMPLATE_ATTRIBUTE", "?"), 14) >>
]
ClassTagPayloads4 == [
  CreateRequestPayload |-> "REQUEST_PAYLOAD", CreateResponsePayload |-> "RESPONSE_PAYLOAD",
  CreateKeyPairRequestPayload |-> "REQUEST_PAYLOAD", CreateKeyPairResponsePayload |-> "RESPONSE_PAYLOAD",
  RegisterRequestPayload |-> "REQUEST_PAYLOAD", RegisterResponsePayload |-> "RESPONSE_PAYLOAD" ]
ClassSincePayloads4 == [ x \in {} |-> <<10, 20>> ]
=============================================================================
