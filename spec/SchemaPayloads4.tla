--------------------------- MODULE SchemaPayloads4 ---------------------------
(* Operation payloads, part 4: object creation and registration             *)
(* (KMIP 1.x sections 4.1 Create, 4.2 Create Key Pair, 4.3 Register;        *)
(* KMIP 2.0 sections 6.1.8, 6.1.9, 6.1.42).                                 *)
(* Under 2.0 the Template-Attribute structures of the requests become       *)
(* Attributes structures (kind tmpl) and the responses no longer carry any. *)
EXTENDS KmipSchemaCore

Tmpl(n, t, c) == F(n, t, "tmpl", "", c, 10, 20)

SchemaPayloads4T == [
  CreateRequestPayload |-> <<
      ReqE("object_type", "OBJECT_TYPE", "ObjectType"),
      Tmpl("template_attribute", "TEMPLATE_ATTRIBUTE", "1"),
      Since(OptS("protection_storage_masks", "PROTECTION_STORAGE_MASKS", "ProtectionStorageMasks"), 20) >>
]
ClassTagPayloads4 == [
  CreateRequestPayload |-> "REQUEST_PAYLOAD" ]
ClassSincePayloads4 == [ x \in {} |-> <<10, 20>> ]
=============================================================================
