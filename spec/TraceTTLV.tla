------------------------------ MODULE TraceTTLV ------------------------------
(* Validation of byte strings emitted by the implementation (C02, and the
   response side of C12): every record [id, kind, bytes, reqver] is one TLC
   state.  kind = "response": well-formed TTLV + envelope (+ version echo when
   reqver >= 0); any other kind: well-formed TTLV only.
   Output "@B@{id, fails}" for every record with a failing clause. *)
EXTENDS KmipEnvelope, Json, IOUtils

Recs == JsonDeserialize(IOEnv.TRACE_FILE)

VARIABLES n, done
Init == n \in 1..Len(Recs) /\ done = FALSE

Fails(r) ==
    LET p == Parse(r.bytes) IN
    IF ~p.ok THEN {"TTLV: " \o p.why}
    ELSE IF r.kind = "response"
         THEN EnvelopeFails(p.tree)
              \cup (IF r.reqver >= 0 /\ VersionOf(p.tree) # r.reqver THEN {"response version differs from the request version"} ELSE {})
              \cup (IF Enc(p.tree) = r.bytes THEN {} ELSE {"not canonical: Enc(Parse(b)) # b"})
         ELSE (IF Enc(p.tree) = r.bytes THEN {} ELSE {"not canonical: Enc(Parse(b)) # b"})

Next == /\ ~done
        /\ LET f == Fails(Recs[n]) IN f # {} => PrintT("@B@" \o ToJson([id |-> Recs[n].id, fails |-> f]))
        /\ done' = TRUE /\ n' = n
Spec == Init /\ [][Next]_<<n, done>>
=============================================================================
