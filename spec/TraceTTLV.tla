------------------------------ MODULE TraceTTLV ------------------------------
(* Validation of byte strings emitted by the implementation (C02, and the
   response side of C12): every record [id, kind, bytes, reqver] is one TLC
   state.  kind = "response": well-formed TTLV + envelope (+ version echo when
   reqver >= 0); "request_exec": a request frame the session executed or did
   not refuse as invalid - its batch count must equal its number of items;
   any other kind: well-formed TTLV only.
   Output "@B@{id, fails}" for every record with a failing clause. *)
EXTENDS KmipEnvelope, Json, IOUtils

Recs == JsonDeserialize(IOEnv.TRACE_FILE)

VARIABLES n, done
Init == n \in 1..Len(Recs) /\ done = FALSE

\* a primitive whose intended value is given as sign + magnitude (numbers) or raw bytes (strings):
\* the implementation's bytes must be exactly Enc of the intended tree
PrimVal(q) ==
    CASE q.typ \in {TInteger, TEnum, TInterval} -> IntVal(q.neg, q.mag)
      [] q.typ \in {TLong, TDateTime, TDateTimeExt} -> LongVal(q.neg, q.mag)
      [] q.typ = TBigInt -> BigVal(q.neg, q.mag)
      [] q.typ = TBool -> BoolVal(q.neg)            \* neg carries the truth value
      [] OTHER -> q.mag                             \* text / byte strings: the bytes themselves
PrimFails(r) ==
    LET want == Enc([tag |-> r.prim.tag, typ |-> r.prim.typ, val |-> PrimVal(r.prim)]) IN
    IF r.prim.typ = TBigInt
    THEN \* KMIP does not mandate a minimal width: same value, length a multiple of 8
         LET p == Parse(r.bytes) IN
         IF ~p.ok THEN {"TTLV: " \o p.why}
         ELSE IF p.tree.tag = r.prim.tag /\ p.tree.typ = TBigInt /\
                 (LET a == p.tree.val  b == PrimVal(r.prim)
                      ext == IF r.prim.neg /\ ~IsZero(r.prim.mag) THEN 255 ELSE 0
                      la == Len(a)  lb == Len(b)
                      signbit(x) == x[1] >= 128 IN
                  \* the longer one is the sign extension of the shorter one, and both carry the intended sign
                  /\ signbit(a) = (ext = 255) /\ signbit(b) = (ext = 255)
                  /\ IF la >= lb THEN SubSeq(a, la - lb + 1, la) = b /\ \A i \in 1..(la - lb) : a[i] = ext
                     ELSE SubSeq(b, lb - la + 1, lb) = a /\ \A i \in 1..(lb - la) : b[i] = ext)
              THEN {} ELSE {"big integer value differs from two's complement of the intended number"}
    ELSE IF want = r.bytes THEN {} ELSE {"primitive encoding differs from the specification's encoding"}

Fails(r) ==
    LET p == Parse(r.bytes) IN
    IF r.kind = "prim" THEN PrimFails(r)
    ELSE IF r.kind = "request_exec"
         \* a request frame the session did NOT answer with Invalid Message / did execute: it must not contradict itself
         \* and its items must lie inside the structures that hold them (a value that runs past the end of its structure,
         \* or a structure whose content is cut inside an item header, cannot be decoded by anybody)
         \* (since the session verifies the framing of a request before decoding it, this is the whole TTLV definition: a
         \* structure that announces more than it holds, a fixed-size item with another length, bytes beyond the last item
         \* are all "cannot be decoded")
         THEN (IF p.ok THEN RequestCountFails(p.tree) ELSE {"TTLV: " \o p.why})
    ELSE IF ~p.ok THEN {"TTLV: " \o p.why}
    ELSE IF r.kind = "response"
         THEN EnvelopeFails(p.tree)
              \cup (IF r.reqver >= 0 /\ VersionOf(p.tree) # r.reqver THEN {"response version differs from the request version"} ELSE {})
              \cup (IF Enc(p.tree) = r.bytes THEN {} ELSE {"not canonical: Enc(Parse(b)) # b"})
         ELSE (IF Enc(p.tree) = r.bytes THEN {} ELSE {"not canonical: Enc(Parse(b)) # b"})

Next == /\ ~done
        /\ LET f == Fails(Recs[n]) IN f # {} => PrintT("@B@" \o ToJson([id |-> Recs[n].id, fails |-> f]))
        /\ done' = TRUE /\ n' = n
Spec == Init /\ [][Next]_<<n, done>>
=============================================================================
