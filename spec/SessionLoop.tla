----------------------------- MODULE SessionLoop -----------------------------
(***************************************************************************)
(* One client connection served by KmipSession.run / _handle_message_loop  *)
(* (kmip/services/server/session.py) as a small-step state machine: one    *)
(* action per call the session makes to its environment (recv, the peer    *)
(* certificate, one authentication plug-in, the engine, sendall) and one    *)
(* per decision in between.  Properties C12 (one well-formed answer per    *)
(* framed request, nothing executed that was not decoded, framing          *)
(* independent of the transport's chunking, the size limit) and C17 (the   *)
(* engine is entered only under an established identity) are invariants of *)
(* this machine; TraceSession.tla validates event logs of real sessions    *)
(* against it.                                                             *)
(*                                                                         *)
(* The authentication decision (Session.tla) is refined here into steps:   *)
(* PluginStep(k) is one iteration of the loop in KmipSession.authenticate. *)
(*                                                                         *)
(* A connection is a PLAN: [cfg, frames, tail]                             *)
(*   cfg    : [cert, eku, tlsauth, plugins] as in Session.tla (the answers *)
(*            of plug-in k may differ from request to request: a frame     *)
(*            carries its own `plug` sequence)                             *)
(*   frames : sequence of [len, kind, plug]                                *)
(*            len  = body length announced in the 8-byte header            *)
(*            kind = what happens when the frame is handed on:             *)
(*              "ok"        decodable, engine returns a response that fits *)
(*              "big"       decodable, response exceeds the size limit     *)
(*              "kmiperr"   decodable, process_request raises a KMIP error *)
(*              "othererr"  decodable, process_request raises anything else*)
(*              "unenc"     decodable, the response cannot be encoded      *)
(*              "undec"     the decoder rejects the body                   *)
(*   tail   : bytes of an incomplete frame before the stream ends          *)
(*   tneed  : body length its header announces (if the header is complete) *)
(***************************************************************************)
EXTENDS Session

CONSTANTS MaxBuf,        \* KmipSession._max_buffer_size (4096); small in the model
          Plans          \* the connections explored

HeaderLen == 8
Kinds == {"ok", "big", "kmiperr", "othererr", "unenc", "undec"}
Decodable(kind) == kind # "undec"

VARIABLES plan,      \* the connection (constant along a behaviour)
          fi,        \* frame being received / processed (1-based)
          phase,     \* where the session is
          need,      \* bytes the current _receive_bytes call still wants
          avail,     \* bytes the transport can still deliver
          pk,        \* plug-in about to be tried (authenticate's loop variable)
          enabled,   \* plugin_enabled
          ident,     \* client identity established by authenticate, or NoIdent
          pending,   \* class of the response being built, "" if none
          sent,      \* response classes handed to sendall, in order
          calls,     \* identities handed to process_request, in order
          asked      \* bytes requested from the transport so far (sum of recv arguments is not bounded by
                     \*   the stream; this counts the bytes actually consumed)
svars == <<plan, fi, phase, need, avail, pk, enabled, ident, pending, sent, calls, asked>>

NoIdent == [user |-> "", groups |-> NoGroups]
Min2(a, b) == IF a < b THEN a ELSE b
RECURSIVE SumLen(_, _)
SumLen(fr, k) == IF k = 0 THEN 0 ELSE HeaderLen + fr[k].len + SumLen(fr, k - 1)
StreamLen(p) == SumLen(p.frames, Len(p.frames)) + p.tail

Frame == plan.frames[fi]
Cfg   == plan.cfg
\* the configuration as Session.tla wants it, with this frame's plug-in answers
CfgOf(p, i) == [cert |-> p.cfg.cert, eku |-> p.cfg.eku, tlsauth |-> p.cfg.tlsauth,
                plugins |-> p.frames[i].plug,
                req |-> IF Decodable(p.frames[i].kind) THEN "valid" ELSE "undecodable"]

SInit == /\ plan \in Plans
         /\ fi = 1 /\ phase = "hdr" /\ need = HeaderLen /\ avail = StreamLen(plan)
         /\ pk = 1 /\ enabled = FALSE /\ ident = NoIdent /\ pending = ""
         /\ sent = <<>> /\ calls = <<>> /\ asked = 0

--------------------------------------------------------------------------
(* receiving: _receive_request / _receive_bytes *)

\* one recv(min(need, MaxBuf)) that returns k >= 1 bytes
Recv(k) ==
    /\ phase \in {"hdr", "body"} /\ need > 0
    /\ k \in 1..Min2(Min2(need, MaxBuf), avail)
    /\ need' = need - k /\ avail' = avail - k /\ asked' = asked + k
    /\ UNCHANGED <<plan, fi, phase, pk, enabled, ident, pending, sent, calls>>

\* recv returns b'': ConnectionClosed ends the session (a partial frame gets no answer)
RecvEof ==
    /\ phase \in {"hdr", "body"} /\ need > 0 /\ avail = 0
    /\ phase' = "closed"
    /\ UNCHANGED <<plan, fi, need, avail, pk, enabled, ident, pending, sent, calls, asked>>

\* 8 header bytes are in: the length field says how much body follows
HeaderDone ==
    /\ phase = "hdr" /\ need = 0
    /\ fi <= Len(plan.frames)            \* (a header inside the tail never completes: tail < 8 or its body is cut)
    /\ phase' = "body" /\ need' = Frame.len
    /\ UNCHANGED <<plan, fi, avail, pk, enabled, ident, pending, sent, calls, asked>>

\* a complete header of the tail: its body can never arrive
TailHeaderDone ==
    /\ phase = "hdr" /\ need = 0 /\ fi > Len(plan.frames)
    /\ phase' = "body" /\ need' = plan.tneed         \* announces more than the stream still holds
    /\ UNCHANGED <<plan, fi, avail, pk, enabled, ident, pending, sent, calls, asked>>

BodyDone ==
    /\ phase = "body" /\ need = 0
    /\ phase' = "cert"
    /\ UNCHANGED <<plan, fi, need, avail, pk, enabled, ident, pending, sent, calls, asked>>

--------------------------------------------------------------------------
(* the checks before the request is looked at *)

Refuse(cls) == /\ pending' = cls /\ phase' = "encode"
               /\ UNCHANGED <<plan, fi, need, avail, pk, enabled, ident, sent, calls, asked>>

CertCheck ==
    /\ phase = "cert"
    /\ IF Cfg.cert = "absent" THEN Refuse("AuthFail10")                      \* answered under KMIP 1.0: nothing parsed yet
       ELSE /\ phase' = "eku"
            /\ UNCHANGED <<plan, fi, need, avail, pk, enabled, ident, pending, sent, calls, asked>>

EkuCheck ==
    /\ phase = "eku"
    /\ IF Cfg.tlsauth /\ Cfg.eku # "client" THEN Refuse("AuthFail10")
       ELSE /\ phase' = "parse"
            /\ UNCHANGED <<plan, fi, need, avail, pk, enabled, ident, pending, sent, calls, asked>>

\* Decodable = the framing of the request is consistent (utils.verify_ttlv_framing: every item inside its parent, structures
\* filled exactly, mandated lengths of fixed-size types), the decoder accepts it AND consumes all of it.  Anything else is
\* answered Invalid Message under version 1.0 without entering authentication or the engine.
Parse ==
    /\ phase = "parse"
    /\ IF ~Decodable(Frame.kind) THEN Refuse("InvalidMessage10")
       ELSE /\ phase' = "auth" /\ pk' = 1 /\ enabled' = FALSE /\ ident' = NoIdent
            /\ UNCHANGED <<plan, fi, need, avail, pending, sent, calls, asked>>

--------------------------------------------------------------------------
(* KmipSession.authenticate, one loop iteration per step *)

PluginStep ==
    /\ phase = "auth" /\ pk <= Len(Frame.plug)
    /\ LET p == Frame.plug[pk] IN
       IF p \in {"disabled", "unsupported"}
       THEN /\ pk' = pk + 1 /\ UNCHANGED <<enabled, ident, phase>>
       ELSE IF Cfg.cert = "cn1" /\ p \in VouchKinds
            THEN /\ ident' = [user |-> CN, groups |-> GroupsOfKind(pk, p)]
                 /\ enabled' = TRUE /\ phase' = "engine" /\ UNCHANGED pk
            ELSE /\ enabled' = TRUE /\ pk' = pk + 1 /\ UNCHANGED <<ident, phase>>
    /\ UNCHANGED <<plan, fi, need, avail, pending, sent, calls, asked>>

\* the loop is over without a plug-in vouching for the user
AuthEnd ==
    /\ phase = "auth" /\ pk > Len(Frame.plug)
    /\ IF ~enabled /\ Cfg.cert = "cn1"
       THEN /\ ident' = [user |-> CN, groups |-> NoGroups] /\ phase' = "engine" /\ UNCHANGED pending
       ELSE /\ pending' = "AuthFail" /\ phase' = "encode" /\ UNCHANGED ident
    /\ UNCHANGED <<plan, fi, need, avail, pk, enabled, sent, calls, asked>>

--------------------------------------------------------------------------
(* the engine, encoding, the size limit, the answer *)

CallEngine ==
    /\ phase = "engine"
    /\ calls' = Append(calls, ident)
    /\ pending' = CASE Frame.kind = "kmiperr"  -> "EngineError"
                    [] Frame.kind = "othererr" -> "GeneralFailure"
                    [] OTHER -> "Response"
    /\ phase' = "encode"
    /\ UNCHANGED <<plan, fi, need, avail, pk, enabled, ident, sent, asked>>

\* response.write; a response that cannot be encoded is replaced by an error that can
Encode ==
    /\ phase = "encode"
    /\ pending' = IF pending = "Response" /\ Frame.kind = "unenc" THEN "GeneralFailure" ELSE pending
    /\ phase' = "size"
    /\ UNCHANGED <<plan, fi, need, avail, pk, enabled, ident, sent, calls, asked>>

SizeCheck ==
    /\ phase = "size"
    /\ pending' = IF pending = "Response" /\ Frame.kind = "big" THEN "ResponseTooLarge" ELSE pending
    /\ phase' = "send"
    /\ UNCHANGED <<plan, fi, need, avail, pk, enabled, ident, sent, calls, asked>>

Send ==
    /\ phase = "send"
    /\ sent' = Append(sent, pending) /\ pending' = ""
    /\ fi' = fi + 1 /\ phase' = "hdr" /\ need' = HeaderLen
    /\ UNCHANGED <<plan, avail, pk, enabled, ident, calls, asked>>

SNext == \/ \E k \in 1..MaxBuf : Recv(k)
         \/ RecvEof \/ HeaderDone \/ TailHeaderDone \/ BodyDone \/ CertCheck \/ EkuCheck \/ Parse
         \/ PluginStep \/ AuthEnd \/ CallEngine \/ Encode \/ SizeCheck \/ Send
SSpec == SInit /\ [][SNext]_svars

--------------------------------------------------------------------------
(* properties *)

Done == fi - 1                         \* frames completely received and answered

\* what the property prescribes for a complete frame, from Session.tla's definition of "established"
Want(p, i) ==
    LET c == CfgOf(p, i) IN
    IF Decodable(p.frames[i].kind)
    THEN (IF Established(c) THEN "served" ELSE "auth")
    ELSE (IF Established([c EXCEPT !.req = "valid"]) THEN "invalid" ELSE "auth-or-invalid")

ClassOK(want, cls) ==
    CASE want = "auth"            -> cls \in {"AuthFail", "AuthFail10"}
      [] want = "auth-or-invalid" -> cls \in {"AuthFail", "AuthFail10", "InvalidMessage10"}
      [] want = "invalid"         -> cls = "InvalidMessage10"
      [] OTHER                    -> cls \in {"Response", "EngineError", "GeneralFailure", "ResponseTooLarge"}

\* C12: exactly one answer per completely received frame, in order, of the right class
OnePerFrame == Len(sent) = Done
RightAnswers == \A i \in 1..Len(sent) : ClassOK(Want(plan, i), sent[i])
\* C12: nothing is executed that was not decoded; C17: nothing without an established identity
ServedIdx == {i \in 1..Len(plan.frames) : Want(plan, i) = "served"}
EngineOnlyServed ==
    /\ Len(calls) <= Cardinality({i \in ServedIdx : i <= fi})
    /\ \A n \in 1..Len(calls) :
         LET i == CHOOSE j \in ServedIdx : Cardinality({x \in ServedIdx : x <= j}) = n IN
         calls[n] = [user |-> CN, groups |-> EstablishedGroups(CfgOf(plan, i))]
\* C12: framing does not depend on chunking - the session never consumes a byte of the next frame early
NoOverRead == asked <= SumLen(plan.frames, Min2(fi, Len(plan.frames))) + (IF fi > Len(plan.frames) THEN plan.tail ELSE 0)
\* the session ends only at end of stream, with every complete frame answered
ClosesClean == phase = "closed" => (avail = 0 /\ Len(sent) = Len(plan.frames))
\* the size limit and the replacement for unencodable responses
Replacements == \A i \in 1..Len(sent) :
    /\ (plan.frames[i].kind = "big" /\ Want(plan, i) = "served") => sent[i] = "ResponseTooLarge"
    /\ (plan.frames[i].kind = "unenc" /\ Want(plan, i) = "served") => sent[i] = "GeneralFailure"
\* progress: the only terminal state is "closed" (checked as deadlock freedom with this constraint off)
Terminal == phase = "closed"
=============================================================================
