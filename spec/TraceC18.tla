------------------------------ MODULE TraceC18 ------------------------------
(* Trace validation for the policy monitor: recorded sequences of file events
   and scans on a real PolicyDirectoryMonitor.  The model is run alongside
   (the events determine it); after every scan the observed policy store is
   compared with the definition the property prescribes (Ideal, from the ghost
   of successfully loaded contents -> "@V@") and with the model ("@D@"). *)
EXTENDS PolicyMonitor, Json, IOUtils

Traces == JsonDeserialize(IOEnv.TRACE_FILE)

VARIABLES t, l, files, ms, gs
vars == <<t, l, files, ms, gs>>

ContentOf(c) == [n \in AllNames |-> IF n \in DOMAIN c THEN c[n] ELSE "none"]

Init == /\ t \in 1..Len(Traces) /\ l = 1
        /\ files = [f \in FileSet |-> Absent] /\ ms = InitMs /\ gs = InitGs

Step(e) ==
    CASE e.kind = "write" ->
            /\ files' = [files EXCEPT ![e.f] = [present |-> TRUE, valid |-> e.valid, mtime |-> e.mtime,
                                                content |-> ContentOf(e.content)]]
            /\ UNCHANGED <<ms, gs>>
      [] e.kind = "remove" ->
            /\ files' = [files EXCEPT ![e.f] = Absent]
            /\ UNCHANGED <<ms, gs>>
      [] e.kind = "scan" ->
            LET m2 == Scan(ms, files)
                g2 == GhostScan(gs, ms, files, 1)
                obs == ContentOf(e.store)
                bad == {p \in AllNames : obs[p] # Ideal(g2, p)}
                drift == {p \in AllNames : obs[p] # m2.store[p]} IN
            /\ ms' = m2 /\ gs' = g2 /\ UNCHANGED files
            /\ (bad # {} \/ e.raised) => PrintT("@V@" \o ToJson([tid |-> Traces[t].tid, i |-> l, names |-> bad, raised |-> e.raised]))
            /\ drift # {} => PrintT("@D@" \o ToJson([tid |-> Traces[t].tid, i |-> l, names |-> drift]))

Next == /\ l <= Len(Traces[t].steps)
        /\ Step(Traces[t].steps[l])
        /\ l' = l + 1 /\ t' = t

Spec == Init /\ [][Next]_vars
=============================================================================
