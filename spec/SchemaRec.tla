------------------------------ MODULE SchemaRec ------------------------------
(***************************************************************************)
(* Hint-free recogniser: does a TTLV tree conform to the schema of a class *)
(* under a KMIP version?  Unlike MC_Schema!DecObj it is given no value to  *)
(* consult; the context the protocol itself supplies is read from the tree:*)
(*   operation        -> payload class of a batch item                     *)
(*   object type      -> class of the managed object (Get, Register)       *)
(*   credential type  -> class of the credential value                     *)
(*   attribute name   -> type of a 1.x Attribute Value                     *)
(*   item tag         -> type of a 2.0 attribute                           *)
(* Rec(cls, t, ver) is the set of complaints (empty = conforms).  Used on   *)
(* every byte string the implementation emits: the encodings recorded by   *)
(* C01 (self-check of schema and recogniser against each other) and the    *)
(* responses a real server sends (C02: "responses are spec-conformant"     *)
(* down to the payload fields, not only the envelope).                     *)
(***************************************************************************)
EXTENDS KmipSchema, KmipAttrNames

OpBase ==
    1 :> "Create" @@ 2 :> "CreateKeyPair" @@ 3 :> "Register" @@ 4 :> "Rekey" @@ 5 :> "DeriveKey" @@ 8 :> "Locate" @@
    9 :> "Check" @@ 10 :> "Get" @@ 11 :> "GetAttributes" @@ 12 :> "GetAttributeList" @@ 14 :> "ModifyAttribute" @@
    15 :> "DeleteAttribute" @@ 16 :> "ObtainLease" @@ 17 :> "GetUsageAllocation" @@ 18 :> "Activate" @@ 19 :> "Revoke" @@
    20 :> "Destroy" @@ 21 :> "Archive" @@ 22 :> "Recover" @@ 24 :> "Query" @@ 25 :> "Cancel" @@ 26 :> "Poll" @@
    29 :> "RekeyKeyPair" @@ 30 :> "DiscoverVersions" @@ 31 :> "Encrypt" @@ 32 :> "Decrypt" @@ 33 :> "Sign" @@
    34 :> "SignatureVerify" @@ 35 :> "MAC" @@ 49 :> "SetAttribute"
ObjectClass == 1 :> "Certificate" @@ 2 :> "SymmetricKey" @@ 3 :> "PublicKey" @@ 4 :> "PrivateKey" @@ 5 :> "SplitKey" @@
               6 :> "Template" @@ 7 :> "SecretData" @@ 8 :> "OpaqueObject"
CredentialClass == 1 :> "UsernamePasswordCredential" @@ 2 :> "DeviceCredential" @@ 3 :> "AttestationCredential"

\* the enumeration value of the first child with the given tag (-1 if there is none)
Sel(kids, tagname) ==
    LET ks == SelectSeq(kids, LAMBDA k : k.tag = Tag[tagname] /\ k.typ = TEnum /\ Len(k.val) = 4 /\ k.val[1] < 128) IN
    IF Len(ks) = 0 THEN -1 ELSE U(ks[1].val, 1, 4)

\* the class of a union field, from the siblings ("" = cannot be determined)
UnionClass(cls, f, kids) ==
    CASE f.n = "request_payload" ->
            LET o == Sel(kids, "OPERATION") IN IF o \in DOMAIN OpBase THEN OpBase[o] \o "RequestPayload" ELSE ""
      [] f.n = "response_payload" ->
            LET o == Sel(kids, "OPERATION") IN IF o \in DOMAIN OpBase THEN OpBase[o] \o "ResponsePayload" ELSE ""
      [] f.n = "credential_value" ->
            LET c == Sel(kids, "CREDENTIAL_TYPE") IN IF c \in DOMAIN CredentialClass THEN CredentialClass[c] ELSE ""
      [] f.n \in {"secret", "managed_object"} ->
            LET o == Sel(kids, "OBJECT_TYPE") IN IF o \in DOMAIN ObjectClass THEN ObjectClass[o] ELSE ""
      [] OTHER -> ""

\* attribute rule by name bytes (1.x) and by tag (2.0)
NameOf(bytes) == LET ns == {nm \in DOMAIN AttrNameBytes : AttrNameBytes[nm] = bytes} IN
                 IF ns = {} THEN "" ELSE CHOOSE nm \in ns : TRUE
RuleByTag(tag) == LET ns == {nm \in DOMAIN AttrRule : Tag[AttrRule[nm].t] = tag} IN
                  IF ns = {} THEN "" ELSE CHOOSE nm \in ns : TRUE
AttrTags == {Tag[AttrRule[nm].t] : nm \in DOMAIN AttrRule}

TypOfKind(kind) == CASE kind \in {"int", "mask"} -> TInteger [] kind = "enum" -> TEnum [] kind = "interval" -> TInterval
                     [] kind = "long" -> TLong [] kind = "date" -> TDateTime [] kind = "bigint" -> TBigInt
                     [] kind = "bool" -> TBool [] kind = "text" -> TText [] kind = "bytes" -> TBytes
                     [] OTHER -> TStructure

At(path, what) == path \o ": " \o what

RECURSIVE Rec(_, _, _, _), RecFields(_, _, _, _, _, _), RecVal(_, _, _, _, _), RecAttrs2(_, _, _)

\* the children of a 2.0 Attributes structure: each typed and tagged by an attribute the version defines
RecAttrs2(kids, ver, path) ==
    UNION {LET k == kids[j]
               nm == RuleByTag(k.tag) IN
           IF nm = "" THEN {At(path, "item that is no attribute")}
           ELSE LET r == AttrRule[nm] IN
                IF ~(r.lo <= ver /\ ver <= r.hi) THEN {At(path, "attribute not defined under this version: " \o nm)}
                ELSE RecVal([n |-> nm, t |-> r.t, k |-> r.k, of |-> r.of, c |-> "1", lo |-> r.lo, hi |-> r.hi], k, ver, kids, path)
           : j \in DOMAIN kids}

\* one item against one field (siblings: the enclosing structure's children)
RecVal(f, t, ver, siblings, path) ==
    CASE f.k = "struct" -> Rec(f.of, t, ver, path \o "/" \o f.n)
      [] f.k = "attrs"  -> Rec("Attribute", t, ver, path \o "/" \o f.n)
      [] f.k = "union"  ->
            LET c == UnionClass("", f, siblings) IN
            IF c = "" \/ c \notin Classes THEN {At(path, "no class for " \o f.n \o " in this context")}
            ELSE Rec(c, t, ver, path \o "/" \o f.n)
      [] f.k = "attrval" ->
            LET ns == SelectSeq(siblings, LAMBDA k : k.tag = Tag["ATTRIBUTE_NAME"] /\ k.typ = TText)
                nm == IF Len(ns) = 0 THEN "" ELSE NameOf(ns[1].val)
                r == RuleOf(nm) IN
            IF nm # "" /\ ~(r.lo <= ver /\ ver <= r.hi) THEN {At(path, "attribute not defined under this version: " \o nm)}
            ELSE RecVal([f EXCEPT !.k = r.k, !.of = r.of], t, ver, siblings, path)
      [] f.k = "tmpl" ->
            IF ver < 20 THEN Rec("TemplateAttribute", t, ver, path \o "/" \o f.n)
            ELSE IF t.typ # TStructure THEN {At(path, f.n \o " is not a structure")}
            ELSE RecAttrs2(t.val, ver, path \o "/" \o f.n)
      [] OTHER -> IF t.typ = TypOfKind(f.k) THEN {} ELSE {At(path, "wrong item type for " \o f.n)}

\* the tags under which field f may appear
TagsOf(cls, f, ver, kids) ==
    CASE f.k = "attr2" -> AttrTags
      [] f.k = "union" /\ f.t = "" ->
            LET c == UnionClass(cls, f, kids) IN IF c \in Classes THEN {Tag[ClassTag[c]]} ELSE {}
      [] f.k = "tmpl" /\ ver >= 20 -> {Tmpl2Tag(f.t)}
      [] f.k = "attrs" /\ ver >= 20 -> {Tag["ATTRIBUTES"]}
      [] OTHER -> {Tag[f.t]}

RecFields(cls, i, kids, pos, ver, path) ==
    LET fs == Schema[cls] IN
    IF i > Len(fs)
    THEN IF pos = Len(kids) + 1 THEN {} ELSE {At(path, "unexpected item (tag " \o ToString(kids[pos].tag) \o ")")}
    ELSE LET f == fs[i] IN
    IF ~Live(f, ver) THEN RecFields(cls, i + 1, kids, pos, ver, path)
    ELSE
    LET tags == TagsOf(cls, f, ver, kids)
        one == f.c \in {"1", "?"} \/ (f.k \in {"attrs"} /\ ver >= 20)
        ks == {k \in 0..(Len(kids) - pos + 1) : \A j \in 1..k : kids[pos + j - 1].tag \in tags}
        avail == CHOOSE k \in ks : \A k2 \in ks : k2 <= k
        run == IF one THEN (IF avail >= 1 THEN 1 ELSE 0) ELSE avail IN
    (IF run = 0 /\ f.c \in {"1", "+"} THEN {At(path, "required field absent: " \o f.n)} ELSE {})
    \cup UNION {LET t == kids[pos + j - 1] IN
                IF f.k = "attr2" THEN RecAttrs2(<<t>>, ver, path \o "/" \o f.n)
                ELSE IF f.k = "attrs" /\ ver >= 20
                     THEN (IF t.typ = TStructure THEN RecAttrs2(t.val, ver, path \o "/" \o f.n) ELSE {At(path, f.n \o " is not a structure")})
                ELSE RecVal(f, t, ver, kids, path)
                : j \in 1..run}
    \cup RecFields(cls, i + 1, kids, pos + run, ver, path)

Rec(cls, t, ver, path) ==
    IF t.typ # TStructure THEN {At(path, cls \o " is not a structure")}
    ELSE IF ~DefinedIn(cls, ver) THEN {At(path, "class not defined under this version: " \o cls)}
    ELSE RecFields(cls, 1, t.val, 1, ver, IF path = "" THEN cls ELSE path)

\* a whole response message: the version is the one the header states (major*10+minor)
HeaderVersion(t) ==
    IF t.typ = TStructure /\ Len(t.val) > 0 /\ t.val[1].typ = TStructure /\ Len(t.val[1].val) > 0
       /\ t.val[1].val[1].tag = Tag["PROTOCOL_VERSION"] /\ t.val[1].val[1].typ = TStructure /\ Len(t.val[1].val[1].val) = 2
       /\ \A j \in 1..2 : t.val[1].val[1].val[j].typ = TInteger /\ t.val[1].val[1].val[j].val[1] < 128
    THEN U(t.val[1].val[1].val[1].val, 1, 4) * 10 + U(t.val[1].val[1].val[2].val, 1, 4)
    ELSE -1
RecMessage(cls, t) ==
    LET v == HeaderVersion(t) IN
    IF v \notin Versions THEN {"message header states no supported version"}
    ELSE Rec(cls, t, v, "")
=============================================================================
