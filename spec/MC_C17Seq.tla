------------------------------ MODULE MC_C17Seq ------------------------------
(* C17 over sequences of requests on one connection: one TLC state per sequence. *)
EXTENDS Session, Json

\* Sequences of requests over ONE connection while the authentication services change their answers: every request
\* is authenticated for itself (SessionOutcome is a function of the configuration at that moment - the session keeps
\* no verdict).  SeqCfgs: a valid certificate, one or two enabled plugins whose behaviour differs per request.
CONSTANT SeqLen
SeqPlugins == UNION {[1..n -> EnabledKinds] : n \in 1..2}
SameShape(a, b) == Len(a) = Len(b)
Seqs == {q \in [1..SeqLen -> SeqPlugins] : \A i \in 1..SeqLen : SameShape(q[1], q[i])}
SeqCfg(q, i) == [cert |-> "cn1", eku |-> "client", tlsauth |-> TRUE, plugins |-> q[i], req |-> "valid"]
SeqRow(q) == [i \in 1..SeqLen |->
                [cfg |-> SeqCfg(q, i), out |-> SessionOutcome(SeqCfg(q, i)), established |-> Established(SeqCfg(q, i)),
                 groups |-> IF Established(SeqCfg(q, i)) THEN EstablishedGroups(SeqCfg(q, i)) ELSE NoGroups]]


VARIABLE sq
SeqInit == sq \in Seqs
SeqNext == UNCHANGED sq
SeqSpec == SeqInit /\ [][SeqNext]_sq
SeqHolds == \A i \in 1..SeqLen : C17(SeqCfg(sq, i), SessionOutcome(SeqCfg(sq, i))) /\ C17_served(SeqCfg(sq, i), SessionOutcome(SeqCfg(sq, i)))
SeqEmit == PrintT("@SEQ@" \o ToJson(SeqRow(sq)))
=============================================================================
