--------------------------- MODULE SchemaPayloads3 ---------------------------
(* Operation payloads, part 3: attribute operations - Get Attributes, Get   *)
(* Attribute List, Modify Attribute, Delete Attribute (KMIP 1.x section 4,   *)
(* KMIP 2.0 section 6.1) and Set Attribute (KMIP 2.0 only).                  *)
(*                                                                         *)
(* KMIP 2.0 replaces "Attribute Name" text strings by Attribute References  *)
(* (an Enumeration of the attribute's tag for a standard attribute, or the  *)
(* AttributeReference structure) and bare Attribute structures by the       *)
(* Attributes / Current Attribute / New Attribute structures.  Where the    *)
(* library has ONE constructor argument for both shapes the schema has two  *)
(* fields gated by version (..., Until 14 / ..._references|_2, Since 20);   *)
(* the binding (harness/schemaext/p3.py) maps both onto the one argument.   *)
EXTENDS KmipSchemaCore

SchemaPayloads3T == [
  \* 1.0 states Attribute Name as "Yes, MAY be repeated", 1.1-1.4 as "No, MAY be repeated" (omitted = all
  \* attributes); the one field cannot carry two cardinalities, 1.1+ is written here.
  \* 2.0: Attribute Reference is an Enumeration (Tag) or an AttributeReference structure; the library only ever
  \* WRITES the enumeration form (it keeps names and converts them), so the enumeration form is modelled.
  GetAttributesRequestPayload |-> <<
      Opt("unique_identifier", "UNIQUE_IDENTIFIER", "text"),
      Until(Many("attribute_names", "ATTRIBUTE_NAME", "text"), 14),
      Since(ManyE("attribute_references", "ATTRIBUTE_REFERENCE", "Tags"), 20) >>,
  \* 1.0 states Attribute as "Yes, MAY be repeated", 1.1-1.4 as "No, MAY be repeated"; 1.1+ is written here.
  \* 2.0: one Attributes structure (kind tmpl under 2.0 = the Attributes structure of the value's attribute list).
  GetAttributesResponsePayload |-> <<
      Req("unique_identifier", "UNIQUE_IDENTIFIER", "text"),
      F("attributes", "ATTRIBUTE", "attrs", "", "*", 10, 20) >>,     \* 2.0: one Attributes structure
  GetAttributeListRequestPayload |-> <<
      Opt("unique_identifier", "UNIQUE_IDENTIFIER", "text") >>,
  \* 1.x: Attribute Name "Yes, MAY be repeated"; 2.0: Attribute Reference "Yes, MAY be repeated" (enumeration form
  \* modelled, see GetAttributesRequestPayload)
  GetAttributeListResponsePayload |-> <<
      Req("unique_identifier", "UNIQUE_IDENTIFIER", "text"),
      Until(Some("attribute_names", "ATTRIBUTE_NAME", "text"), 14),
      Since(Card(ManyE("attribute_references", "ATTRIBUTE_REFERENCE", "Tags"), "+"), 20) >>,
  \* 1.x: Unique Identifier (No), Attribute (Yes).  2.0: Unique Identifier (No), Current Attribute (No), New Attribute (Yes).
  ModifyAttributeRequestPayload |-> <<
      Opt("unique_identifier", "UNIQUE_IDENTIFIER", "text"),
      Until(ReqS("attribute", "ATTRIBUTE", "Attribute"), 14),
      Since(OptS("current_attribute", "CURRENT_ATTRIBUTE", "CurrentAttribute"), 20),
      Since(ReqS("new_attribute", "NEW_ATTRIBUTE", "NewAttribute"), 20) >>,
  \* 1.x: Unique Identifier (Yes), Attribute (Yes).  2.0: Unique Identifier (Yes) only.
  ModifyAttributeResponsePayload |-> <<
      Req("unique_identifier", "UNIQUE_IDENTIFIER", "text"),
      Until(ReqS("attribute", "ATTRIBUTE", "Attribute"), 14) >>,
  \* 2.0 only: Unique Identifier (No), New Attribute (Yes) / Unique Identifier (Yes)
  SetAttributeRequestPayload |-> <<
      Opt("unique_identifier", "UNIQUE_IDENTIFIER", "text"),
      ReqS("new_attribute", "NEW_ATTRIBUTE", "NewAttribute") >>,
  SetAttributeResponsePayload |-> <<
      Req("unique_identifier", "UNIQUE_IDENTIFIER", "text") >>,
  \* 1.x: Unique Identifier (No), Attribute Name (Yes), Attribute Index (No).
  \* 2.0: Unique Identifier (No), Current Attribute (No), Attribute Reference (No); one of the two identifies the
  \* attribute to delete (the generator always supplies at least one).  The library has the structure form of
  \* Attribute Reference only.
  DeleteAttributeRequestPayload |-> <<
      Opt("unique_identifier", "UNIQUE_IDENTIFIER", "text"),
      Until(Req("attribute_name", "ATTRIBUTE_NAME", "text"), 14),
      Until(Opt("attribute_index", "ATTRIBUTE_INDEX", "int"), 14),
      Since(OptS("current_attribute", "CURRENT_ATTRIBUTE", "CurrentAttribute"), 20),
      Since(OptS("attribute_reference", "ATTRIBUTE_REFERENCE", "AttributeReference"), 20) >>,
  \* 1.x: Unique Identifier (Yes), Attribute (Yes).  2.0: Unique Identifier (Yes) only.
  DeleteAttributeResponsePayload |-> <<
      Req("unique_identifier", "UNIQUE_IDENTIFIER", "text"),
      Until(ReqS("attribute", "ATTRIBUTE", "Attribute"), 14) >>
]
ClassTagPayloads3 == [
  GetAttributesRequestPayload |-> "REQUEST_PAYLOAD", GetAttributesResponsePayload |-> "RESPONSE_PAYLOAD",
  GetAttributeListRequestPayload |-> "REQUEST_PAYLOAD", GetAttributeListResponsePayload |-> "RESPONSE_PAYLOAD",
  ModifyAttributeRequestPayload |-> "REQUEST_PAYLOAD", ModifyAttributeResponsePayload |-> "RESPONSE_PAYLOAD",
  SetAttributeRequestPayload |-> "REQUEST_PAYLOAD", SetAttributeResponsePayload |-> "RESPONSE_PAYLOAD",
  DeleteAttributeRequestPayload |-> "REQUEST_PAYLOAD", DeleteAttributeResponsePayload |-> "RESPONSE_PAYLOAD" ]
ClassSincePayloads3 == [
  SetAttributeRequestPayload |-> <<20, 20>>, SetAttributeResponsePayload |-> <<20, 20>> ]
=============================================================================
