--------------------------- MODULE SchemaPayloads3 ---------------------------
EXTENDS KmipSchemaCore
SchemaPayloads3T == [ x \in {} |-> <<>> ]
ClassTagPayloads3 == [ x \in {} |-> "" ]
ClassSincePayloads3 == [ x \in {} |-> <<10, 20>> ]
=============================================================================
