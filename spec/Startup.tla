---------------------------- MODULE Startup -------------------------------
(***************************************************************************)
(* The start-up fragment of spec/Durability.tla - the schema is created    *)
(* table by table, each CREATE TABLE durable on its own; the process may   *)
(* die between any two; it is started again any number of times - and the  *)
(* statement, proved in tlaps/StartupProof.tla, that a server that serves  *)
(* has its whole schema (Durability!Serviceable), for ANY number of        *)
(* tables, crashes and restarts.  TLC checks the same invariant on         *)
(* Durability.tla itself with 8 tables and at most 2 restarts, and that    *)
(* Durability refines this module (MC_C09!RefinesStartup).                 *)
(*                                                                         *)
(* The step that matters is the one the proof cannot do without: start-up  *)
(* declares itself ready only after it has LOOKED AT EVERY TABLE           *)
(* (create_all with checkfirst).  The variant that looks at the first      *)
(* table only (Durability's negative control SKIP_SCHEMA_IF_BASE) is not    *)
(* provable, and TLC refutes it.                                           *)
(***************************************************************************)
EXTENDS Naturals

CONSTANT TableSet          \* the tables of the schema
VARIABLES schema, ready, crashed
vars == <<schema, ready, crashed>>

Init == schema = {} /\ ready = FALSE /\ crashed = FALSE

CreateOne == /\ ~crashed /\ ~ready /\ schema # TableSet
             /\ \E t \in TableSet \ schema : schema' = schema \cup {t}
             /\ UNCHANGED <<ready, crashed>>
Serve     == /\ ~crashed /\ ~ready /\ schema = TableSet
             /\ ready' = TRUE /\ UNCHANGED <<schema, crashed>>
Crash     == /\ ~crashed
             /\ crashed' = TRUE /\ ready' = FALSE /\ UNCHANGED schema
Restart   == /\ crashed
             /\ crashed' = FALSE /\ UNCHANGED <<schema, ready>>

Next == CreateOne \/ Serve \/ Crash \/ Restart
Spec == Init /\ [][Next]_vars

Serviceable == ready => schema = TableSet

IndInv == /\ schema \subseteq TableSet
          /\ ready \in BOOLEAN
          /\ ready => schema = TableSet
=============================================================================
