------------------------------ MODULE TraceC09 ------------------------------
(* Validation of crash experiments on the real engine against Durability.tla.
   One record per experiment:
     [id, events, pre, post, rec, acked, broken]
   events : the SQL-level events of the interrupted operation up to the crash,
            "B" (BEGIN), "W:<table>" (INSERT/UPDATE/DELETE), "C" (COMMIT),
            "R" (ROLLBACK), and of the complete operation in `full`
   pre / post / rec : row digests of every table before the operation, after
            the complete operation, and as found by a fresh process after the
            crash
   Output "@V@{id, clauses}" for every experiment with a failing clause.     *)
EXTENDS Naturals, Sequences, FiniteSets, TLC, Json, IOUtils

Recs == JsonDeserialize(IOEnv.TRACE_FILE)
Range(s) == {s[i] : i \in DOMAIN s}

IsWrite(x) == Len(x) > 1 /\ SubSeq(x, 1, 2) = "W:"
\* writes that are not between a BEGIN and the next COMMIT/ROLLBACK
RECURSIVE Outside(_, _, _)
Outside(ev, i, open) ==
    IF i > Len(ev) THEN 0
    ELSE IF ev[i] = "B" THEN Outside(ev, i + 1, TRUE)
    ELSE IF ev[i] \in {"C", "R"} THEN Outside(ev, i + 1, FALSE)
    ELSE (IF IsWrite(ev[i]) /\ ~open THEN 1 ELSE 0) + Outside(ev, i + 1, open)
Commits(ev) == Cardinality({i \in DOMAIN ev : ev[i] = "C"})
WritesAfterLastCommit(ev) ==
    LET cs == {i \in DOMAIN ev : ev[i] = "C"} IN
    IF cs = {} THEN 0
    ELSE LET last == CHOOSE i \in cs : \A j \in cs : i >= j IN
         Cardinality({i \in DOMAIN ev : i > last /\ IsWrite(ev[i])})

Fails(e) ==
    \* wholly absent, or wholly applied up to some operation (batch item) of the request
    (IF Range(e.rec) = Range(e.pre) \/ Range(e.rec) = Range(e.post) \/ \E k \in DOMAIN e.posts : Range(e.rec) = Range(e.posts[k])
     THEN {} ELSE {"C09_atomic"})
    \cup (IF e.acked => Range(e.rec) = Range(e.post) THEN {} ELSE {"C09_durable"})
    \* the complete operation: one transaction holding every write
    \cup (IF Commits(e.full) <= e.nitems /\ Outside(e.full, 1, FALSE) = 0 /\ WritesAfterLastCommit(e.full) = 0
          THEN {} ELSE {"C09_onetxn"})
    \cup (IF e.broken = 0 THEN {} ELSE {"C09_openable"})
    \* Durability!RestartKeeps: the restarted server opened, listed and read everything - and changed nothing
    \cup (IF Range(e.rec2) = Range(e.rec) THEN {} ELSE {"C09_restart_changes_store"})
    \* before the commit nothing is visible, after it everything is (SQLite's guarantee: a mismatch here
    \* means the experiment, not the engine, is off)
    \cup (IF (Commits(e.events) = 0 => Range(e.rec) = Range(e.pre)) THEN {} ELSE {"C09_visible_before_commit"})

\* storage-fault experiments (a statement or a COMMIT refused once, the process lives on and answers): the items the
\* response acknowledges as successful form a prefix of the request; exactly their effects must be found afterwards -
\* nothing acknowledged may be missing (Durability!AckedOnDisk), nothing refused may be left behind (FailedAbsent)
FaultFails(e) ==
    LET want == IF e.nacked = 0 THEN Range(e.pre) ELSE Range(e.posts[e.nacked]) IN
    (IF Range(e.rec) = want THEN {}
     ELSE IF \E x \in want : x \notin Range(e.rec) THEN {"C09_acknowledged_lost"} ELSE {"C09_refused_left_behind"})
    \cup (IF e.broken = 0 THEN {} ELSE {"C09_openable"})

VARIABLES n, done
Init == n \in 1..Len(Recs) /\ done = FALSE
Next == /\ ~done
        /\ LET f == IF Recs[n].fault THEN FaultFails(Recs[n]) ELSE Fails(Recs[n]) IN f # {} => PrintT("@V@" \o ToJson([id |-> Recs[n].id, clauses |-> f]))
        /\ done' = TRUE /\ n' = n
Spec == Init /\ [][Next]_<<n, done>>
=============================================================================
