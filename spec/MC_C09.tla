------------------------------- MODULE MC_C09 -------------------------------
(* Row sequences as the ORM flushes them (pinned from SQL event traces of the
   real engine): Create = one symmetric key; CreateKeyPair = both base rows,
   then the per-class rows of the public and the private key; Activate = one
   update; Destroy = one delete (modelled as a tombstone row). *)
EXTENDS Durability

OpsC09 ==
    [create |-> <<<<"managed_objects", "k1">>, <<"crypto_objects", "k1">>, <<"keys", "k1">>, <<"symmetric_keys", "k1">>,
                  <<"managed_object_names", "k1">>>>,
     pair   |-> <<<<"managed_objects", "pub">>, <<"crypto_objects", "pub">>, <<"keys", "pub">>, <<"public_keys", "pub">>,
                  <<"managed_objects", "prv">>, <<"crypto_objects", "prv">>, <<"keys", "prv">>, <<"private_keys", "prv">>>>,
     activate |-> <<<<"crypto_objects.state", "k1">>>>,
     destroy  |-> <<<<"managed_objects.deleted", "k1">>>>]
\* start-up creates the tables in this order (the ORM's metadata order; the first one is the base table)
TablesC09 == <<"managed_objects", "crypto_objects", "keys", "symmetric_keys", "public_keys", "private_keys", "managed_object_names",
               "opaque_objects">>
\* the start-up fragment proved correct without bounds in Startup.tla / tlaps/StartupProof.tla is a projection of this machine:
\* every step of Durability is a step of StartupProof (or leaves its three variables alone)
SP == INSTANCE Startup WITH TableSet <- TableSet
RefinesStartup == SP!Spec
\* an opaque object has no row in crypto_objects
OpsC09b == [create |-> OpsC09.create, activate |-> OpsC09.activate,
            opaque |-> <<<<"managed_objects", "o1">>, <<"opaque_objects", "o1">>>>]
=============================================================================
