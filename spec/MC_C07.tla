------------------------------ MODULE MC_C07 ------------------------------
(* C07: identifiers are never reused; a destroyed identifier stays dead.
   Histories over the four creating operations, Destroy, reads of live and
   dead identifiers, Locate, and restarts.  Negative control AUTOINC = FALSE
   (allocator = largest live identifier + 1) must reuse an identifier. *)
EXTENDS MC_Engine, BuiltinPolicies

One(u, op, p) == Rq(u, 12, "None", <<It(op, "", p)>>)

MenuC07(s) ==
    LET us == Candidates(s) IN
    {One("alice", "Create", PCreate(<<"ENCRYPT">>, <<>>))}
    \cup {One("bob", "Register", PRegister(t, <<"SIGN">>, <<>>)) : t \in {"OpaqueData", "SecretData"}}
    \cup {One("alice", "CreateKeyPair",
              [common |-> <<A("Cryptographic Algorithm", "RSA"), A("Cryptographic Length", 1024)>>,
               priv |-> <<A("Cryptographic Usage Mask", <<"SIGN">>)>>,
               pub |-> <<A("Cryptographic Usage Mask", <<"VERIFY">>)>>])}
    \cup {One(w, "Destroy", PUid(u)) : u \in us, w \in {"alice", "bob"}}
    \cup {One(w, "Get", PGet(u)) : u \in us, w \in {"alice"}}
    \cup {One("alice", "GetAttributes", PGetAttrs(u)) : u \in us}
    \cup {One("alice", "Activate", PUid(u)) : u \in us}
    \cup {One(w, "Locate", PLocate(<<>>, -1, -1)) : w \in {"alice", "bob"}}

CheckedC07 == {"C07_fresh", "C07_reported", "C07_dead", "C07_frame", "C03_owner", "C08_failclean", "C08_frame"}
=============================================================================
