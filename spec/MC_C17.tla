------------------------------- MODULE MC_C17 -------------------------------
(* C17 over the full product of certificate shapes x EKU x flag x plugin lists
   of length <= MaxPlugins x request kinds: one TLC state per configuration. *)
EXTENDS Session, Json

CONSTANT MaxPlugins

PluginLists == UNION {[1..n -> PluginKinds] : n \in 0..MaxPlugins}
Cfgs == [cert : {"absent", "cn0", "cn1", "cn2"}, eku : {"absent", "other", "lookalike", "any", "client"}, tlsauth : BOOLEAN,
         plugins : PluginLists, req : {"valid", "undecodable"}]

VARIABLE cfg
Init == cfg \in Cfgs
Next == UNCHANGED cfg
Spec == Init /\ [][Next]_cfg

Holds == C17(cfg, SessionOutcome(cfg)) /\ C17_served(cfg, SessionOutcome(cfg))
Emit == PrintT("@ROW@" \o ToJson([cfg |-> cfg, out |-> SessionOutcome(cfg), established |-> Established(cfg),
                                  groups |-> IF Established(cfg) THEN EstablishedGroups(cfg) ELSE NoGroups]))

=============================================================================
