------------------------------ MODULE MC_C16 ------------------------------
(* C16: protocol version is honoured - echo, refusal, feature gating.
   The full matrix  versions (six supported, four unsupported) x operations
   x version-dependent attributes, on a store holding one object of each of
   three types.  Build requests create the store; probes are leaves. *)
EXTENDS MC_Engine, BuiltinPolicies

AllVers == {10, 11, 12, 13, 14, 20, 9, 15, 21, 30}
D(k, v, u, n) == [k |-> k, v |-> v, u |-> u, n |-> n]

IsProbe(r) == r.items[1].bid = "g"
LastWasProbe == ev.kind = "req" /\ IsProbe(ev.req)
ProbeView == <<st, g, LastWasProbe>>

VerAttrs == {"Sensitive", "Operation Policy Name", "Certificate Length", "Fresh", "Name", "Certificate Identifier"}
Val(n) == CASE n = "Sensitive" -> TRUE [] n = "Operation Policy Name" -> "default" [] n = "Certificate Length" -> 10
            [] n = "Fresh" -> TRUE [] n = "Certificate Identifier" -> "x" [] OTHER -> "n1"

Mk(d) ==
    LET P(op, p) == Rq("alice", d.v, "None", <<It(op, "g", p)>>) IN
    CASE d.k = "build" -> Rq("alice", 14, "None", <<It("Register", "", PRegister(d.n, <<"ENCRYPT", "SIGN", "VERIFY", "MAC_GENERATE">>,
                                                         <<AI("Name", 0, "n1"), A("Sensitive", TRUE)>>))>>)
      [] d.k = "activate" -> Rq("alice", 12, "None", <<It("Activate", "", PUid(d.u))>>)
      [] d.k = "query" -> P("Query", [qops |-> TRUE])
      [] d.k = "discover" -> P("DiscoverVersions", [versions |-> IF d.n = "mixed" THEN <<10, 14, 30, 20, 9>> ELSE IF d.n = "asc" THEN <<10, 11, 12>> ELSE <<>>])
      [] d.k = "uidop" -> P(d.n, PUid(d.u))
      [] d.k = "get" -> P("Get", PGet(d.u))
      [] d.k = "getattrs" -> P("GetAttributes", [uid |-> d.u, names |-> IF d.n = "" THEN <<>> ELSE <<d.n>>])
      [] d.k = "revoke" -> P("Revoke", PRevoke(d.u, "KEY_COMPROMISE"))
      [] d.k = "crypto" -> P(d.n, PCrypto(d.u))
      [] d.k = "mac" -> P("MAC", PMac(d.u))
      [] d.k = "locate" -> P("Locate", PLocate(IF d.n = "" THEN <<>> ELSE <<A(d.n, Val(d.n))>>, -1, -1))
      [] d.k = "create" -> P("Create", PCreate(<<"ENCRYPT">>, IF d.n = "" THEN <<>> ELSE <<A(d.n, Val(d.n))>>))
      [] d.k = "register" -> P("Register", PRegister("SecretData", <<"ENCRYPT">>, IF d.n = "" THEN <<>> ELSE <<A(d.n, Val(d.n))>>))
      [] d.k = "set" -> P("SetAttribute", [uid |-> d.u, new |-> A(d.n, Val(d.n))])
      [] d.k = "mod" -> P("ModifyAttribute", IF d.v >= 20 THEN [uid |-> d.u, hascur |-> FALSE, cur |-> A(d.n, Val(d.n)), new |-> A(d.n, Val(d.n))]
                                            ELSE [uid |-> d.u, attr |-> A(d.n, Val(d.n))])
      [] d.k = "derive" -> P("DeriveKey", [otype |-> "SymmetricKey", uids |-> <<d.u>>, method |-> "HMAC",
                                          attrs |-> <<A("Cryptographic Algorithm", "AES"), A("Cryptographic Length", 128),
                                                      A("Cryptographic Usage Mask", <<"ENCRYPT">>)>>])
      [] d.k = "pair" -> P("CreateKeyPair", [common |-> <<A("Cryptographic Algorithm", "RSA"), A("Cryptographic Length", 1024)>>,
                                            priv |-> <<A("Cryptographic Usage Mask", <<"SIGN">>)>>,
                                            pub |-> <<A("Cryptographic Usage Mask", <<"VERIFY">>)>>])

MenuC16(s) ==
    IF LastWasProbe THEN {}
    ELSE IF s.seq = 0 THEN {D("build", 14, 0, "SymmetricKey")}
    ELSE IF s.seq = 1 THEN {D("build", 14, 0, "Certificate")}
    ELSE IF s.seq = 2 THEN {D("build", 14, 0, "PrivateKey")}
    ELSE IF s.seq = 3 /\ s.objs[1].state = "PreActive" THEN {D("activate", 12, 1, "")}
    ELSE IF s.seq = 3 /\ s.objs[3].state = "PreActive" THEN {D("activate", 12, 3, "")}
    ELSE UNION {
        {D("query", v, 0, ""), D("discover", v, 0, ""), D("discover", v, 0, "mixed"), D("discover", v, 0, "asc"), D("pair", v, 0, "")}
        \cup {D("uidop", v, u, op) : u \in {1, 2, 3}, op \in {"GetAttributeList", "Activate", "Destroy", "Rekey"}}
        \cup {D("get", v, u, "") : u \in {1, 2}}
        \cup {D("getattrs", v, u, n) : u \in {1, 2, 3}, n \in VerAttrs \cup {""}}
        \cup {D("revoke", v, 2, "")}
        \cup {D("crypto", v, 1, op) : op \in {"Encrypt", "Decrypt"}}
        \cup {D("crypto", v, 3, "Sign"), D("mac", v, 1, ""), D("derive", v, 1, "")}
        \cup {D("locate", v, 0, n) : n \in {"", "Sensitive", "Operation Policy Name", "Name"}}
        \cup {D("create", v, 0, n) : n \in {"", "Sensitive", "Operation Policy Name", "Fresh"}}
        \cup {D("register", v, 0, n) : n \in {"", "Sensitive", "Operation Policy Name"}}
        \cup {D("set", v, u, n) : u \in {1}, n \in {"Sensitive", "Name"}}
        \cup {D("mod", v, u, n) : u \in {1}, n \in {"Sensitive", "Name"}}
        : v \in AllVers}

CheckedC16 == {"C16_op", "C16_attrs", "C16_create", "C16_locate", "C16_query", "C16_avail", "C13_item", "C08_failclean"}
=============================================================================
