----------------------------- MODULE MC_Policy -----------------------------
(* Decision lemma of C03: the engine's access decision never allows more    *)
(* than the property permits, over the full finite product of               *)
(*   preset entry x group entries (gA, gB) x section presence x identity    *)
(*   groups x ownership.  One TLC state per configuration.                  *)
EXTENDS KmipPolicy, TLC

PermX == Perms \cup {"Missing"}
Ent(perm) == IF perm = "Missing" THEN {} ELSE {[t |-> "SymmetricKey", op |-> "Get", perm |-> perm]}
GEnt(gn, perm) == IF perm = "Missing" THEN {} ELSE {[g |-> gn, t |-> "SymmetricKey", op |-> "Get", perm |-> perm]}

IdGroups == {<<FALSE, {}>>, <<TRUE, {}>>, <<TRUE, {"gA"}>>, <<TRUE, {"gB"}>>, <<TRUE, {"gA", "gB"}>>, <<TRUE, {"gC"}>>}

VARIABLE c
Init == c \in [pre : PermX, ga : PermX, gb : PermX, hasPreset : BOOLEAN, hasGroups : BOOLEAN, idg : IdGroups,
               owner : {"alice", "bob"}, polname : {"p", "missing"}, t : {"SymmetricKey", "SecretData"},
               op : {"Get", "Destroy"}]
Next == UNCHANGED c
Spec == Init /\ [][Next]_c

Pol == [name |-> "p", hasPreset |-> c.hasPreset, preset |-> IF c.hasPreset THEN Ent(c.pre) ELSE {},
        hasGroups |-> c.hasGroups, groups |-> IF c.hasGroups THEN GEnt("gA", c.ga) \cup GEnt("gB", c.gb) ELSE {}]
Id == [user |-> "alice", hasg |-> c.idg[1], groups |-> c.idg[2]]

Impl == ImplAllowed({Pol}, c.polname, Id, c.owner, c.t, c.op)
Prop == Granted({Pol}, c.polname, Id, c.owner, c.t, c.op)

Lemma == Impl => Prop
\* vacuity guard: both decisions occur, and the engine's named over-denial occurs
Witness == TRUE
=============================================================================
