-------------------------- MODULE LifecycleProof ---------------------------
(* Machine-checked proof (TLAPS) of Lifecycle!Safety: over a history of any length an object is never again in a state it
   has left.  The step that carries the proof: every move strictly increases the rank. *)
EXTENDS Lifecycle, TLAPS

IndInv == /\ state \in States
          /\ seen \subseteq States
          /\ state \in seen
          /\ NeverReturns

LEMMA RankFacts == /\ Rank("PreActive") = 0 /\ Rank("Active") = 1 /\ Rank("Deactivated") = 2 /\ Rank("Compromised") = 3
  BY DEF Rank

LEMMA MovesClimb == \A x, y \in States : <<x, y>> \in Moves => Rank(x) < Rank(y)
  BY RankFacts DEF Moves, States

LEMMA RankInjective == \A x, y \in States : Rank(x) = Rank(y) => x = y
  BY RankFacts DEF States

LEMMA InitInv == Init => IndInv
  BY RankFacts DEF Init, IndInv, NeverReturns, States

LEMMA StepInv == IndInv /\ [Next]_vars => IndInv'
<1> SUFFICES ASSUME IndInv, [Next]_vars PROVE IndInv'
  OBVIOUS
<1>1. CASE Step
  <2>1. PICK y \in States : <<state, y>> \in Moves /\ state' = y /\ seen' = seen \cup {y}
    BY <1>1 DEF Step
  <2>2. Rank(state) < Rank(y)
    BY <2>1, MovesClimb DEF IndInv
  <2>3. \A s \in seen : Rank(s) < Rank(y)
    BY <2>2, RankFacts DEF IndInv, NeverReturns, States
  <2>4. NeverReturns'
    BY <2>1, <2>3, RankFacts DEF NeverReturns, IndInv, States
  <2> QED
    BY <2>1, <2>4 DEF IndInv
<1>2. CASE UNCHANGED vars
  BY <1>2 DEF vars, IndInv, NeverReturns
<1> QED
  BY <1>1, <1>2 DEF Next

THEOREM Safety == Spec => []NeverReturns
<1>1. IndInv => NeverReturns
  BY DEF IndInv
<1> QED
  BY InitInv, StepInv, <1>1, PTL DEF Spec
=============================================================================
