------------------------- MODULE PolicyLemmaProof -------------------------
(***************************************************************************)
(* The decision lemma of property C03, proved for ALL policies, identities *)
(* and operations (TLAPS): the access decision as the engine codes it      *)
(* (ImplAllowed, KmipPolicy.tla) never allows what the property does not   *)
(* grant (Granted).  TLC checks the same lemma over a finite product       *)
(* (MC_Policy); here there is no bound on the number of policies, groups   *)
(* or entries.                                                             *)
(***************************************************************************)
EXTENDS KmipPolicy, TLAPS

THEOREM DecisionLemma ==
    ASSUME NEW pols, NEW pn, NEW id, NEW owner, NEW t, NEW op,
           id.hasg \in BOOLEAN,
           ImplAllowed(pols, pn, id, owner, t, op)
    PROVE  Granted(pols, pn, id, owner, t, op)
<1>1. CASE ~id.hasg
  <2>1. ImplAllowedForGroup(pols, pn, id.user, "", FALSE, owner, t, op)
    BY <1>1 DEF ImplAllowed
  <2> QED
    BY <1>1, <2>1 DEF ImplAllowedForGroup, Granted
<1>2. CASE id.hasg
  <2>1. PICK g \in id.groups : ImplAllowedForGroup(pols, pn, id.user, g, TRUE, owner, t, op)
    BY <1>2 DEF ImplAllowed
  <2>2. HasPolicy(pols, pn) /\ PolicyOf(pols, pn).hasGroups
        /\ SectionAllows(GroupSection(PolicyOf(pols, pn), g), id.user, owner, t, op)
    BY <2>1 DEF ImplAllowedForGroup
  <2> QED
    BY <1>2, <2>1, <2>2 DEF Granted
<1> QED
  BY <1>1, <1>2
=============================================================================
