---------------------------- MODULE StartupProof ----------------------------
(* Machine-checked proof (TLAPS) of Startup!Safety: a server that serves has its whole schema, for any number of tables,
   crashes and restarts.  MC_C09 checks with TLC that Durability.tla refines Startup (property RefinesStartup), so the
   result carries over to the start-up of the full crash-consistency model. *)
EXTENDS Startup, TLAPS

LEMMA InitInv == Init => IndInv
  BY DEF Init, IndInv

LEMMA StepInv == IndInv /\ [Next]_vars => IndInv'
<1> SUFFICES ASSUME IndInv, [Next]_vars PROVE IndInv'
  OBVIOUS
<1>1. CASE CreateOne
  BY <1>1 DEF CreateOne, IndInv
<1>2. CASE Serve
  BY <1>2 DEF Serve, IndInv
<1>3. CASE Crash
  BY <1>3 DEF Crash, IndInv
<1>4. CASE Restart
  BY <1>4 DEF Restart, IndInv
<1>5. CASE UNCHANGED vars
  BY <1>5 DEF vars, IndInv
<1> QED
  BY <1>1, <1>2, <1>3, <1>4, <1>5 DEF Next

THEOREM Safety == Spec => []Serviceable
<1>1. IndInv => Serviceable
  BY DEF IndInv, Serviceable
<1> QED
  BY InitInv, StepInv, <1>1, PTL DEF Spec
=============================================================================
