--------------------------- MODULE UidAllocProof ---------------------------
(***************************************************************************)
(* The identifier allocator of spec/apalache/UidAlloc.tla (with            *)
(* AUTOINCREMENT) and a machine-checked proof (TLAPS) that no identifier   *)
(* is ever handed out twice - for any number of objects and any history of *)
(* creates, destroys, restarts and crashes in creation.  Apalache checks   *)
(* the same inductive invariant symbolically (sets of bounded size); this  *)
(* proof has no bound at all.                                              *)
(***************************************************************************)
EXTENDS Integers, TLAPS

VARIABLES seq, live, issued, reused
vars == <<seq, live, issued, reused>>

Init == seq = 0 /\ live = {} /\ issued = {} /\ reused = FALSE

Create == /\ seq' = seq + 1
          /\ live' = live \cup {seq + 1}
          /\ reused' = (reused \/ (seq + 1) \in issued)
          /\ issued' = issued \cup {seq + 1}
Destroy == \E u \in live : live' = live \ {u} /\ UNCHANGED <<seq, issued, reused>>
Restart == UNCHANGED <<seq, live, issued, reused>>
CrashInCreate == (\E d \in {0, 1} : seq' = seq + d) /\ UNCHANGED <<live, issued, reused>>

Next == Create \/ Destroy \/ Restart \/ CrashInCreate
Spec == Init /\ [][Next]_vars

NeverReused == ~reused

IndInv == /\ seq \in Nat
          /\ live \subseteq issued
          /\ issued \subseteq 1..seq
          /\ reused = FALSE

LEMMA InitInv == Init => IndInv
  BY DEF Init, IndInv

LEMMA StepInv == IndInv /\ [Next]_vars => IndInv'
<1> SUFFICES ASSUME IndInv, [Next]_vars PROVE IndInv'
  OBVIOUS
<1>1. CASE Create
  <2>1. (seq + 1) \notin issued
    BY <1>1 DEF IndInv
  <2> QED
    BY <1>1, <2>1 DEF Create, IndInv
<1>2. CASE Destroy
  BY <1>2 DEF Destroy, IndInv
<1>3. CASE Restart
  BY <1>3 DEF Restart, IndInv
<1>4. CASE CrashInCreate
  BY <1>4 DEF CrashInCreate, IndInv
<1>5. CASE UNCHANGED vars
  BY <1>5 DEF vars, IndInv
<1> QED
  BY <1>1, <1>2, <1>3, <1>4, <1>5 DEF Next

THEOREM Safety == Spec => []NeverReused
<1>1. IndInv => NeverReused
  BY DEF IndInv, NeverReused
<1> QED
  BY InitInv, StepInv, <1>1, PTL DEF Spec
=============================================================================
