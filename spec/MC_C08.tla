------------------------------ MODULE MC_C08 ------------------------------
(* C08: batch results are complete and failed items leave no trace.
   All batches of up to three items over succeeding and failing operations,
   with and without batch item ids, Stop / Continue / Undo, identifier-less
   items that rely on the ID placeholder. *)
EXTENDS MC_Engine, BuiltinPolicies

ItemMenu(s) ==
    LET us == Candidates(s) \cup {NoUid} IN
    {[op |-> "Create", p |-> PCreate(<<"ENCRYPT">>, <<>>)],
     [op |-> "Create", p |-> [otype |-> "SymmetricKey", attrs |-> <<A("Cryptographic Algorithm", "AES")>>]],   \* fails
     [op |-> "Register", p |-> PRegister("SecretData", <<"DERIVE_KEY">>, <<AI("Name", 0, "n1"), AI("Name", 1, "n1")>>)],   \* duplicate name: fails
     \* key pair whose PRIVATE template is rejected after the public key has been prepared
     [op |-> "CreateKeyPair", p |-> [common |-> <<A("Cryptographic Algorithm", "RSA"), A("Cryptographic Length", 1024)>>,
                                     pub |-> <<A("Cryptographic Usage Mask", <<"VERIFY">>)>>,
                                     priv |-> <<A("Cryptographic Usage Mask", <<"SIGN">>), AI("Name", 0, "d"), AI("Name", 1, "d")>>]]}
    \cup {[op |-> "Activate", p |-> PUid(u)] : u \in us}
    \cup {[op |-> "Destroy", p |-> PUid(u)] : u \in us}
    \cup {[op |-> "Revoke", p |-> PRevoke(u, c)] : u \in us, c \in {"KEY_COMPROMISE", "UNSPECIFIED"}}
    \cup {[op |-> "ModifyAttribute", p |-> [uid |-> u, attr |-> AI("Name", 0, "n2")]] : u \in us}
    \cup {[op |-> "GetAttributes", p |-> PGetAttrs(u)] : u \in us}

Ids == {<<"a", "b", "c">>, <<"a", "", "c">>, <<"", "", "">>}

\* a smaller item menu for edge emission (every transition is replayed on the real engine)
EdgeItems(s) ==
    LET us == (DOMAIN s.objs) \cup {NoUid} IN
    {[op |-> "Create", p |-> PCreate(<<"ENCRYPT">>, <<>>)],
     [op |-> "Create", p |-> [otype |-> "SymmetricKey", attrs |-> <<A("Cryptographic Algorithm", "AES")>>]],
     [op |-> "Register", p |-> PRegister("SecretData", <<"DERIVE_KEY">>, <<AI("Name", 0, "n1"), AI("Name", 1, "n1")>>)],
     [op |-> "CreateKeyPair", p |-> [common |-> <<A("Cryptographic Algorithm", "RSA"), A("Cryptographic Length", 1024)>>,
                                     pub |-> <<A("Cryptographic Usage Mask", <<"VERIFY">>)>>,
                                     priv |-> <<A("Cryptographic Usage Mask", <<"SIGN">>), AI("Name", 0, "d"), AI("Name", 1, "d")>>]]}
    \cup {[op |-> "Activate", p |-> PUid(u)] : u \in us}
    \cup {[op |-> "Destroy", p |-> PUid(u)] : u \in us}
    \cup {[op |-> "ModifyAttribute", p |-> [uid |-> u, attr |-> AI("Name", 0, "n2")]] : u \in us}

EdgeMenuC08(s) ==
    {Rq("alice", 12, "None", <<It(i1.op, "", i1.p)>>) : i1 \in EdgeItems(s)}
    \cup {Rq("alice", 12, opt, <<It(i1.op, ids[1], i1.p), It(i2.op, ids[2], i2.p)>>) :
             i1 \in EdgeItems(s), i2 \in EdgeItems(s), opt \in {"None", "Continue", "Undo"}, ids \in {<<"a", "b">>, <<"a", "">>}}

MenuC08(s) ==
    {Rq("alice", 12, opt, <<It(i1.op, "", i1.p)>>) : i1 \in ItemMenu(s), opt \in {"None"}}
    \cup {Rq("alice", 12, opt, <<It(i1.op, ids[1], i1.p), It(i2.op, ids[2], i2.p)>>) :
             i1 \in ItemMenu(s), i2 \in ItemMenu(s), opt \in {"None", "Continue", "Undo"}, ids \in Ids}

CheckedC08 == {"C08_failclean", "C08_frame", "C08_told", "C07_reported", "C07_fresh", "C04_moves", "C11_placeholder"}
=============================================================================
