--------------------------- MODULE MC_ClientLoop ---------------------------
EXTENDS ClientLoop
MCPlans == {p \in [len : {0, 3, 9}, extra : {0, 5}, cut : 0..22] : p.cut <= HeaderLen + p.len + p.extra}
=============================================================================
