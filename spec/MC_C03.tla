------------------------------ MODULE MC_C03 ------------------------------
(* C03: nothing happens to an object without a policy grant.
   Two users (with and without group information), built-in and user
   policies (groups, groups-only, missing entries), three object types, all
   object-addressing operations including indirect reach (wrapping key,
   identifier-less items).  Negative controls: Mut = "no_access",
   "locate_unfiltered". *)
EXTENDS MC_Engine, BuiltinPolicies

Types3 == {"SymmetricKey", "SecretData", "OpaqueData"}
RdOps == {"Get", "GetAttributes", "GetAttributeList", "Locate"}
WrOps == {"Activate", "Revoke", "Destroy", "ModifyAttribute", "DeleteAttribute", "SetAttribute"}
Sec(perm, types, ops) == {[t |-> t, op |-> o, perm |-> perm] : t \in types, o \in ops}
GSec(gn, perm, types, ops) == {[g |-> gn, t |-> t, op |-> o, perm |-> perm] : t \in types, o \in ops}

PolsC03 == BuiltinPols \cup {
    [name |-> "open", hasPreset |-> TRUE, hasGroups |-> FALSE, groups |-> {}, preset |-> Sec("AllowAll", Types3, RdOps \cup WrOps)],
    [name |-> "grouped", hasPreset |-> TRUE, hasGroups |-> TRUE,
     preset |-> Sec("AllowOwner", Types3, RdOps \cup WrOps),
     groups |-> GSec("gA", "AllowAll", Types3, RdOps) \cup GSec("gB", "AllowOwner", Types3, RdOps \cup WrOps)],
    [name |-> "partial", hasPreset |-> TRUE, hasGroups |-> FALSE, groups |-> {},
     preset |-> Sec("AllowAll", {"SymmetricKey"}, {"Get", "Locate"}) \cup Sec("AllowOwner", {"SymmetricKey"}, {"Destroy", "Activate"})]}

PolNames == {"default", "public", "open", "grouped", "partial", "missing"}

Who == {[u |-> "alice", hasg |-> FALSE, gs |-> {}], [u |-> "bob", hasg |-> FALSE, gs |-> {}],
        [u |-> "bob", hasg |-> TRUE, gs |-> {"gA"}], [u |-> "bob", hasg |-> TRUE, gs |-> {}],
        [u |-> "bob", hasg |-> TRUE, gs |-> {"gA", "gB"}],
        \* a group whose name is the empty string is still group information: only the groups sections decide
        [u |-> "bob", hasg |-> TRUE, gs |-> {""}], [u |-> "bob", hasg |-> TRUE, gs |-> {"", "gB"}]}

OneAs(w, op, p) == [Rq(w.u, 12, "None", <<It(op, "", p)>>) EXCEPT !.hasg = w.hasg, !.groups = w.gs]

MenuC03(s) ==
    LET us == DOMAIN s.objs \cup {s.seq + 1} IN
    {OneAs(w, "Create", PCreate(<<"ENCRYPT", "WRAP_KEY">>, <<A("Operation Policy Name", pn)>>)) : pn \in PolNames, w \in {x \in Who : x.u = "alice"}}
    \* a second owner of objects of the same type under the same policy: decisions that depend on the owner (ALLOW_OWNER)
    \* differ between objects that agree in everything else
    \cup {OneAs([u |-> "bob", hasg |-> FALSE, gs |-> {}], "Create", PCreate(<<"ENCRYPT">>, <<A("Operation Policy Name", pn)>>)) : pn \in {"default", "open"}}
    \cup {OneAs(w, "Register", PRegister(t, <<"DERIVE_KEY">>, <<A("Operation Policy Name", pn)>>)) :
             t \in {"SecretData", "OpaqueData"}, pn \in {"default", "grouped", "open"}, w \in {x \in Who : x.u = "alice"}}
    \cup {OneAs(w, op, PUid(u)) : w \in Who, op \in {"Activate", "Destroy", "GetAttributeList"}, u \in us}
    \cup {OneAs(w, "Revoke", PRevoke(u, "KEY_COMPROMISE")) : w \in Who, u \in us}
    \cup {OneAs(w, "Get", PGet(u)) : w \in Who, u \in us}
    \cup {OneAs(w, "Get", PGetWrap(u, k)) : w \in Who, u \in us, k \in us}
    \cup {OneAs(w, "GetAttributes", PGetAttrs(u)) : w \in Who, u \in us}
    \cup {OneAs(w, "ModifyAttribute", [uid |-> u, attr |-> AI("Name", 0, "zz")]) : w \in Who, u \in us}
    \cup {OneAs(w, "Encrypt", PCrypto(u)) : w \in Who, u \in us}
    \cup {OneAs(w, "Locate", PLocate(<<>>, -1, -1)) : w \in Who}

CheckedC03 == {"C03_effect", "C03_denial", "C03_owner", "C08_failclean", "C08_frame"}
=============================================================================
