SPECIFICATION Spec
CONSTANTS
  Mut = "none"
  Menu <- MenuC04
  Pols <- BuiltinPols
  MaxDepth = 4
  MaxObjs = 2
  AUTOINC = TRUE
  RESET_PH = TRUE
  Checked <- CheckedC04
PROPERTY StepOK
INVARIANT StoreOK
VIEW view
CHECK_DEADLOCK FALSE
